#!/bin/bash
# tryseed.sh <seed id> <property> [patch file]: apply a seeded change to /repo, run the property's quick check, undo the change.
id=$1; prop=$2; patch=${3:-/tmp/mut/$id/OUT/patch.diff}
cd /repo || exit 2
if ! git apply "$patch" 2>/tmp/tryseed.err; then echo "PATCH DOES NOT APPLY: $(head -2 /tmp/tryseed.err)"; exit 2; fi
cd /verif
./check $prop ${NOREPLAY:+--no-replay} 2>&1 | grep -E "refuted:|VIOLATION|UNDECIDED|ENGINE|\[quick\]" | cut -c1-230 | head -12
git -C /repo checkout -- .
git -C /repo status --short
