#!/usr/bin/env python3
"""Encoding cross-check of pyvc against CPython (DESIGN.md 6.5).

For every function `f(k)` of the corpus (/verif/xcheck/xc/prims.py, hand written, plus seeded random
try/except/finally/loop programs generated into xc/gen.py in memory) the outcome for k = 0..K-1 is computed by
the interpreter the package runs on (/venv/bin/python) and then *verified* by pyvc with k symbolic against the
contract "for each k: the function returns exactly CPython's value / raises exactly CPython's exception class".
A refuted obligation is a rule of the symbolic semantics that disagrees with CPython: exit 3.
Functions pyvc cannot interpret (Undecided / unsupported construct) are counted and listed, never passed off as agreement.

usage: python3-vt tools/xcheck.py [--seed N] [--gen N] [--only substr] [--jobs N] [-v]
"""
import argparse
import ast
import json
import multiprocessing as mp
import os
import subprocess
import sys
import time
import traceback

VERIF = os.path.dirname(os.path.dirname(os.path.abspath(__file__)))
XROOT = os.path.join(VERIF, 'xcheck')
PKG = 'xc'
CPY = os.environ.get('XCHECK_PYTHON', '/venv/bin/python')
sys.path.insert(0, VERIF)
sys.path.insert(0, XROOT)

CPY_SCRIPT = r'''
import importlib, json, sys, types
root, spec = sys.argv[1], json.loads(sys.stdin.read())
sys.path.insert(0, root)
def enc(v):
    if v is None or isinstance(v, (bool, int, str)):
        return {'b': v} if isinstance(v, bool) else v
    if isinstance(v, tuple):
        return {'t': [enc(x) for x in v]}
    raise TypeError('corpus functions must return int/bool/None/str/tuple, got %r' % (type(v),))
out = {}
for modname, src in spec['modules'].items():
    if src is None:
        mod = importlib.import_module(modname)
    else:
        mod = types.ModuleType(modname)
        exec(compile(src, modname, 'exec'), mod.__dict__)
    for fn, K in spec['funcs'][modname]:
        res = []
        for k in range(K):
            try:
                v = getattr(mod, fn)(k)
            except BaseException as e:
                res.append(['exc', type(e).__name__])
            else:
                res.append(['ret', enc(v)])
        out[modname + '.' + fn] = res
print(json.dumps(out))
'''


# Self-test of the cross-check (--selftest): deliberately broken rules of the symbolic semantics, applied in memory to the loaded pyvc
# classes; each must make the cross-check report a MISMATCH, otherwise the corpus has lost its discriminating power for that rule.
BREAKS = {
    'finally skipped on continue': ('pyvc.interp_stmts', 'StmtMixin', 's_Try',
                                    'except (PyRaise, ReturnSig, BreakSig, ContinueSig) as sig:', 'except (PyRaise, ReturnSig, BreakSig) as sig:'),
    'finally skipped on return': ('pyvc.interp_stmts', 'StmtMixin', 's_Try',
                                  'except (PyRaise, ReturnSig, BreakSig, ContinueSig) as sig:', 'except (PyRaise, BreakSig, ContinueSig) as sig:'),
    'except clauses match the exact class only': ('pyvc.interp_stmts', 'StmtMixin', 'handler_matches',
                                                  'any(self.ex.exc.is_sub(exc.cls, n) for n in names)', 'any(exc.cls == n for n in names)'),
    'else clause of try skipped': ('pyvc.interp_stmts', 'StmtMixin', 's_Try',
                                   "            else:\n                self.exec_block(st.orelse, fr)\n        except (PathEnd, Vanish, Undecided):",
                                   "            else:\n                pass\n        except (PathEnd, Vanish, Undecided):"),
    'exception raised in a handler is lost': ('pyvc.interp_stmts', 'StmtMixin', 's_Try',
                                              "                        try:\n                            self.exec_block(h.body, fr)\n                        finally:",
                                              "                        try:\n                            try:\n                                self.exec_block(h.body, fr)\n"
                                              "                            except PyRaise:\n                                pass\n                        finally:"),
    'list.pop() takes the first element': ('pyvc.interp_data', 'DataMixin', 'cm_HList_pop', 'i = -1 if idx is None else', 'i = 0 if idx is None else'),
    'a write through a memoryview slice lands at the start of the buffer': ('pyvc.interp_data', 'DataMixin', 'buf_write',
                                                                              'pre, rest = self.take_drop(h.seq, at)', 'pre, rest = self.take_drop(h.seq, z3.IntVal(0))'),
    'with never suppresses': ('pyvc.interp_stmts', 'StmtMixin', 'with_items',
                              "            if self.cond(r, f'L{st.lineno}:with-suppress'):\n                return", "            if self.cond(r, f'L{st.lineno}:with-suppress'):\n                pass"),
    'list += builds a new list': ('pyvc.interp_stmts', 'StmtMixin', 'augop',
                                  "                self.cm_HList_extend(cur, rhs)\n", "                return self.ex.alloc(HList(self.ex.heap[cur.addr].items + self.iter_concrete(rhs)))\n"),
    'loop else runs after break': ('pyvc.interp_stmts', 'StmtMixin', 's_For',
                                   "                except BreakSig:\n                    return\n                except ContinueSig:\n                    continue\n            self.exec_block(st.orelse, fr)\n            return",
                                   "                except BreakSig:\n                    break\n                except ContinueSig:\n                    continue\n            self.exec_block(st.orelse, fr)\n            return"),
}
BREAK = None


def apply_break(name):
    import importlib
    modname, cls, meth, old, new = BREAKS[name]
    mod = importlib.import_module(modname)
    with open(mod.__file__) as f:
        src = f.read()
    if src.count(old) != 1:
        raise RuntimeError(f'self-test break {name!r}: the text to replace occurs {src.count(old)} times in {modname}')
    ns = dict(mod.__dict__)
    exec(compile(src.replace(old, new), mod.__file__, 'exec'), ns)
    setattr(getattr(mod, cls), meth, ns[cls].__dict__[meth])


def corpus_functions(src):
    out = []
    for st in ast.parse(src).body:
        if isinstance(st, ast.FunctionDef) and st.name.startswith('p_'):
            K = 4
            out.append((st.name, K))
    return out


def cpython_outcomes(modules, funcs):
    p = subprocess.run([CPY, '-c', CPY_SCRIPT, XROOT], input=json.dumps({'modules': modules, 'funcs': funcs}), capture_output=True, text=True, timeout=300)
    if p.returncode != 0:
        raise RuntimeError('CPython side failed: ' + p.stderr[-2000:])
    return json.loads(p.stdout)


def _verify_one(job):
    qual, K, expected, overrides, kfix = job
    out = {'func': qual, 'status': None, 'detail': None, 'obligations': 0, 'seconds': 0.0, 'paths': 0, 'k': kfix}
    t0 = time.time()
    try:
        import z3
        if BREAK:
            apply_break(BREAK)
        from pyvc.frontend import Repo
        from pyvc.contracts import VExec, Contract
        from pyvc.core import Undecided
        from pyvc import extlib, smt
        from pyvc.values import VInt, VBool, VStr, VTuple, NONE, lower, is_opaque_str
        from pyvc.run import _discharge

        def lit(v):
            if v is None:
                return NONE
            if isinstance(v, dict) and 'b' in v:
                return VBool(v['b'])
            if isinstance(v, dict):
                return VTuple([lit(x) for x in v['t']])
            if isinstance(v, int):
                return VInt(v)
            return VStr(v)

        repo = Repo(XROOT, overrides=overrides, pkg=PKG)
        ex = VExec(repo, 'XC', 'quick')
        extlib.install_common(ex)

        seen = []
        abstracted = [0]

        def match(v, exp, c):
            """pyvc's value against CPython's; a formatted string that pyvc abstracts to an opaque constant is not compared (and counted)"""
            if is_opaque_str(v) and isinstance(exp, str):
                abstracted[0] += 1
                return z3.BoolVal(True)
            if isinstance(v, VTuple) and isinstance(exp, dict) and 't' in exp and len(exp['t']) == len(v.items):
                return z3.And(*[match(x, y, c) for x, y in zip(v.items, exp['t'])]) if v.items else z3.BoolVal(True)
            return lower(v, c.ex) == lower(lit(exp), c.ex)

        def outcome(c):
            k = c.env['k'].e
            kind = c.env['exit_kind'].s
            seen.append((kind, repr(c.env['result'] if kind == 'return' else c.env['raised'])[:600]))
            if kind == 'return':
                cs = []
                for i, (what, v) in enumerate(expected):
                    cs.append(z3.Implies(k == i, match(c.env['result'], v, c)) if what == 'ret' else k != i)
                return z3.And(*cs)
            cls = c.env['raised'].cls
            hits = [k == i for i, (what, v) in enumerate(expected) if what == 'exc' and v == cls.split('.')[-1]]
            return z3.Or(*hits) if hits else z3.BoolVal(False)
        outcome.__doc__ = 'the outcome for every k is exactly what CPython computes'
        if kfix is None:
            con = Contract(qual, lid='X', name='xcheck ' + qual, params={'k': 'int'}, requires=[f'0 <= k and k < {K}'], ensures=[], raises={},
                           raises_only=['BaseException'], all_exits=[outcome])
        else:
            con = Contract(qual, lid='X', name=f'xcheck {qual} k={kfix}', params={'k': ('const', VInt(kfix))}, requires=[], ensures=[], raises={},
                           raises_only=['BaseException'], all_exits=[outcome])
        try:
            ex.verify(con, None)
        except Undecided as u:
            out['status'] = 'unsupported'
            out['detail'] = str(u)[:300]
            return out
        out['paths'] = ex.explorer.paths
        bad = []
        n = 0
        for oid in ex.ob_order:
            ob = ex.obligations[oid]
            r = _discharge(ob, 'quick')
            n += 1
            expect = 'sat' if ob.kind == 'cover' else 'unsat'
            if r['status'] == expect:
                continue
            if r['status'] not in ('sat', 'unsat'):
                out['status'] = 'unsupported'
                out['detail'] = f'solver {r["status"]} on {ob.id}'
                return out
            bad.append({'obligation': ob.id, 'kind': ob.kind, 'text': ob.text[:200], 'line': ob.line, 'model': r.get('model'),
                        'trace': ob.info.get('trace', [])[-12:], 'info': {k: v for k, v in ob.info.items() if k != 'trace'}})
        out['obligations'] = n
        out['abstracted_strings'] = abstracted[0]
        # every k must have been reached by some path (otherwise agreement would be vacuous)
        out['status'] = 'MISMATCH' if bad else 'agree'
        out['detail'] = bad[:3] if bad else None
        if bad:
            out['pyvc_outcomes'] = seen[:8]
    except Exception:
        tb = traceback.format_exc()
        out['status'] = 'unsupported'
        out['detail'] = 'engine exception: ' + tb[-700:]
    finally:
        out['seconds'] = round(time.time() - t0, 2)
    return out


def run(seed=0, ngen=40, only=None, jobs=14, verbose=False, quiet=False, show_mismatch=True):
    from xc_gen import generate
    with open(os.path.join(XROOT, PKG, 'prims.py')) as f:
        prims_src = f.read()
    gen_src = generate(seed, ngen)
    overrides = {os.path.join(PKG, 'gen.py'): gen_src}
    funcs = {f'{PKG}.prims': corpus_functions(prims_src), f'{PKG}.gen': corpus_functions(gen_src)}
    expected = cpython_outcomes({f'{PKG}.prims': None, f'{PKG}.gen': gen_src}, funcs)
    jobs_l = []
    for mod, fl in funcs.items():
        for fn, K in fl:
            q = f'{mod}.{fn}'
            if only and only not in q:
                continue
            jobs_l.append((q, K, expected[q], overrides, None))
    ctx = mp.get_context('fork')
    with ctx.Pool(min(jobs, max(1, len(jobs_l)))) as pool:
        results = pool.map(_verify_one, jobs_l, chunksize=1)
        # second pass: what cannot be interpreted with k symbolic (symbolic index into a literal, ...) is checked for each concrete k
        retry = [(j[0], j[1], j[2], j[3], k) for j, r in zip(jobs_l, results) if r['status'] == 'unsupported' for k in range(j[1])]
        res2 = pool.map(_verify_one, retry, chunksize=1)
    compared = 0
    final = []
    for j, r in zip(jobs_l, results):
        if r['status'] != 'unsupported':
            r['mode'] = 'k symbolic'
            compared += j[1] if r['status'] == 'agree' else 0
            final.append(r)
            continue
        subs = [x for x in res2 if x['func'] == j[0]]
        ok = [x for x in subs if x['status'] == 'agree']
        bad = [x for x in subs if x['status'] == 'MISMATCH']
        compared += len(ok)
        m = {'func': j[0], 'mode': 'k concrete', 'obligations': sum(x['obligations'] for x in subs), 'paths': sum(x['paths'] for x in subs),
             'seconds': round(r['seconds'] + sum(x['seconds'] for x in subs), 2), 'symbolic_reason': (r['detail'] or '').strip().splitlines()[-1][:160]}
        if bad:
            m.update(status='MISMATCH', detail=[d for x in bad for d in x['detail']][:3], pyvc_outcomes=[(f'k={x["k"]}',) + tuple(s) for x in bad for s in x.get('pyvc_outcomes', [])])
        elif len(ok) == len(subs):
            m.update(status='agree', detail=None)
        elif ok:
            m.update(status='partial', detail='; '.join(f'k={x["k"]}: {(x["detail"] or "").strip().splitlines()[-1][:120]}' for x in subs if x['status'] == 'unsupported'),
                     agreeing_k=[x['k'] for x in ok])
        else:
            m.update(status='unsupported', detail=(subs[0]['detail'] or r['detail'] or '') if subs else r['detail'])
        final.append(m)
    results = final
    agree = [r for r in results if r['status'] == 'agree']
    mism = [r for r in results if r['status'] == 'MISMATCH']
    unsup = [r for r in results if r['status'] in ('unsupported', 'partial')]
    summary = {'seed': seed, 'python': CPY, 'functions': len(results), 'outcomes_compared': compared,
               'agree': len(agree), 'agree_symbolic_k': sum(1 for r in agree if r['mode'] == 'k symbolic'), 'partial': sum(1 for r in results if r['status'] == 'partial'),
               'mismatch': [r['func'] for r in mism],
               'unsupported': {r['func']: (str(r['detail']) or '').strip().splitlines()[-1][:160] for r in unsup},
               'obligations': sum(r['obligations'] for r in results), 'generated_programs': len(funcs[f'{PKG}.gen'])}
    if verbose:
        for r in results:
            print(f"  {r['status']:12s} {r['func']} [{r['mode']}] ({r['obligations']} obligations, {r['paths']} paths, {r['seconds']} s)")
    for r in ([] if quiet else unsup):
        print(f"  {r['status']}: {r['func']}: {str(r['detail'] or '').strip().splitlines()[-1][:200] if r['detail'] else ''}")
    for r in (mism if show_mismatch else []):
        print(f"  MISMATCH: {r['func']} expected {expected[r['func']]}")
        for b in r['detail']:
            print('     ', json.dumps(b, default=str)[:1200])
        for s in r.get('pyvc_outcomes', []):
            print('      pyvc:', s)
    return summary, mism


def main():
    ap = argparse.ArgumentParser()
    ap.add_argument('--seed', type=int, default=int(os.environ.get('VERIF_SEED', '0')))
    ap.add_argument('--gen', type=int, default=40)
    ap.add_argument('--only', default=None)
    ap.add_argument('--jobs', type=int, default=int(os.environ.get('VERIF_JOBS', '14')))
    ap.add_argument('-v', action='store_true')
    ap.add_argument('--selftest', action='store_true', help='break rules of the symbolic semantics in memory: each must be reported as a MISMATCH')
    a = ap.parse_args()
    if a.selftest:
        return selftest(a)
    t0 = time.time()
    summary, mism = run(a.seed, a.gen, a.only, a.jobs, a.v)
    summary['wall_s'] = round(time.time() - t0, 1)
    print(json.dumps({k: v for k, v in summary.items() if k != 'unsupported'}, default=str))
    print(f"xcheck: {summary['functions']} functions, {summary['agree']} agree with CPython for every k ({summary['agree_symbolic_k']} with k symbolic), "
          f"{summary['partial']} for some k, {len(summary['unsupported']) - summary['partial']} outside the interpreted subset, {summary['outcomes_compared']} outcomes compared, "
          f"{len(mism)} MISMATCH; {summary['wall_s']} s")
    return 3 if mism else 0


def selftest(a):
    global BREAK
    missed = []
    for name in BREAKS:
        BREAK = name
        t0 = time.time()
        try:
            summary, mism = run(a.seed, a.gen, a.only, a.jobs, False, quiet=True, show_mismatch=False)
        finally:
            BREAK = None
        print(f'  broken rule {name!r}: {len(mism)} function(s) disagree with CPython' + (f' (e.g. {mism[0]["func"]})' if mism else ' - NOT DETECTED') + f'; {round(time.time() - t0, 1)} s')
        if not mism:
            missed.append(name)
    print(f'xcheck self-test: {len(BREAKS) - len(missed)} of {len(BREAKS)} deliberately broken rules detected')
    return 3 if missed else 0


if __name__ == '__main__':
    sys.exit(main())
