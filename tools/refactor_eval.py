#!/usr/bin/env python3
"""refactor_eval.py <patch.diff> [...]: apply a (supposedly behaviour-preserving) patch to a scratch export of /repo HEAD and run the quick checks of every
property whose check reaches a function of a touched file (from the committed evidence); evidence of these runs goes to the scratch directory.
Prints one line per patch: exit code per property.  Exit 1 of a check on a behaviour-preserving patch is a false alarm, exit 2 means 'undecided on this shape'."""
import glob, json, os, re, subprocess, sys, tempfile, shutil

VERIF = os.path.dirname(os.path.dirname(os.path.abspath(__file__)))


def props_for(files):
    out = set()
    for f in glob.glob(os.path.join(VERIF, 'evidence', '*.json')):
        cov = json.load(open(f))['coverage']
        names = list(cov.get('functions_under_contract', {})) + list(cov.get('functions_inlined', [])) + list(cov.get('functions_called_through_their_contract', []))
        mods = {'/'.join(n.split('.')[:k]) + '.py' for n in names for k in range(2, 5)}
        if any(ff in mods for ff in files):
            out.add(os.path.basename(f)[:-5])
    return sorted(out)


def main():
    for patch in sys.argv[1:]:
        files = sorted(set(re.findall(r'^\+\+\+ b/(\S+)', open(patch, errors='replace').read(), re.M)))
        props = props_for(files)
        root = tempfile.mkdtemp(prefix='refeval_')
        try:
            subprocess.run(f'git -C /repo archive HEAD pyworkers | tar -x -C {root}', shell=True, check=True)
            r = subprocess.run(['git', 'apply', '--whitespace=nowarn', '-p1', os.path.abspath(patch)], cwd=root, capture_output=True, text=True)
            if r.returncode != 0:
                print(f'{patch}: DOES NOT APPLY: {r.stderr.strip()[:200]}', flush=True)
                continue
            env = dict(os.environ, VERIF_EVIDENCE_DIR=os.path.join(root, 'ev'), VERIF_REPLAYS_DIR=os.path.join(root, 'rp'))
            procs = {p: subprocess.Popen([os.path.join(VERIF, 'check'), p, '--repo', root, '--no-replay'], cwd=VERIF, env=env, stdout=subprocess.PIPE, stderr=subprocess.STDOUT, text=True)
                     for p in props}
            res, detail = {}, []
            for p, pr in procs.items():
                o, _ = pr.communicate()
                res[p] = pr.returncode
                if pr.returncode != 0:
                    detail += [f'      {p}: ' + l.strip()[:260] for l in o.splitlines() if l.strip().startswith(('refuted:', 'UNDECIDED', 'ENGINE'))][:4]
            print(f'{patch}: files {files} -> ' + ' '.join(f'{p}={c}' for p, c in sorted(res.items())), flush=True)
            for d in detail:
                print(d, flush=True)
        finally:
            shutil.rmtree(root, ignore_errors=True)


if __name__ == '__main__':
    main()
