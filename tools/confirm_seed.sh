#!/bin/bash
# confirm_seed.sh <worktree dir> : confirm a seeded change (OUT/patch.diff, OUT/demo.py) in its scratch worktree.
# 1. clean tree: demo passes (x2); 2. patched tree: demo fails (x2); 3. patched tree: baseline test suite still passes.
D=$1
cd "$D" || exit 2
R=$D/OUT/confirm.txt
: > $R
git checkout -q -- pyworkers
for i in 1 2; do PYTHONPATH=$D timeout 300 /venv/bin/python OUT/demo.py >/dev/null 2>&1; echo "clean demo run $i exit=$?" >> $R; done
git apply OUT/patch.diff || { echo "patch does not apply" >> $R; exit 2; }
/venv/bin/python -c "import compileall,sys; sys.exit(0 if compileall.compile_dir('pyworkers', quiet=1) else 1)" ; echo "compile exit=$?" >> $R
for i in 1 2; do PYTHONPATH=$D timeout 300 /venv/bin/python OUT/demo.py >/dev/null 2>&1; echo "patched demo run $i exit=$?" >> $R; done
if [ "$2" != "nosuite" ]; then
/venv/bin/python -m pytest -ra -q -p no:cacheprovider --timeout=900 --continue-on-collection-errors --junitxml=$D/OUT/junit.xml > $D/OUT/suite.log 2>&1
tail -1 $D/OUT/suite.log >> $R
/venv/bin/python - "$D" >> $R <<'PY'
import json, sys, xml.etree.ElementTree as ET
d = sys.argv[1]
base = json.load(open('/root/.vp/BASELINE.json'))
stable = set(base['stable_pass'])
res = {}
for tc in ET.parse(d + '/OUT/junit.xml').getroot().iter('testcase'):
    name = f"{tc.get('classname')}::{tc.get('name')}"
    bad = any(ch.tag in ('failure', 'error') for ch in tc)
    res[name] = not bad
missing = [s for s in stable if not res.get(s, False)]
print('baseline stable tests not passing with the change:', len(missing), missing[:10])
PY
fi
cat $R
