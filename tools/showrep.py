#!/usr/bin/env python3
"""showrep.py <prop> [substr]: summarise the replay files of a property (debugging aid)"""
import glob, json, sys
prop = sys.argv[1]
sub = sys.argv[2] if len(sys.argv) > 2 else ''
for f in sorted(glob.glob(f'/verif/replays/{prop}/*.json')):
    if sub not in f:
        continue
    d = json.load(open(f))
    print('==', d['obligation'], '|', d['text'][:160])
    print('   trace:', d['trace'][-12:])
    if d.get('goal'):
        print('   goal:', d['goal'][:300].replace('\n', ' '))
    m = d.get('model') or {}
    print('   model:', {k: v for k, v in list(m.items())[:14]})
    if d.get('replay'):
        print('   replay:', str(d['replay'].get('violations', d['replay']))[:300])
