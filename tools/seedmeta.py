#!/usr/bin/env python3
"""seedmeta.py: merge the result of tools/seedcycle.py (cycle.json) into each seeded/<id>/meta.json"""
import glob, json, os, re

ONE = {
    'C01b': '_recv_exactly replaced by one recv(size, MSG_WAITALL): a short return (EOF or signal in mid-message) is taken for the whole message',
    'C02a': 'recv_into() into a preallocated buffer whose view is never advanced: bodies arriving in several chunks are garbled (ported to _recv_exactly)',
    'C03a': 'ThreadWorker._run keeps the outcome in a local and publishes it only at the very end: a terminate landing in between loses it',
    'C04b': "RemoteWorker.wait: the remote timeout is no longer clamped by the caller's timeout",
    'C05b': 'the three persistent do_work loops merge default kwargs shallowly: a call can change what later calls see',
    'C06a': 'PersistentRemoteWorker._fetch_results: end-marker bookkeeping of the forwarding thread changed, a stream can end without its marker',
    'C07a': 'Pool.run main loop also waits while only retries are left: connection.wait reached with nothing pending',
    'C08a': 'first_enqueue no longer re-checks `worker.id not in _closed`: work is handed to a worker already declared dead',
    'C09b': 'restart_workers closes the old queue with pop(oldid).close(): KeyError for a worker whose queue run() had dropped',
    'C10b': '_recv_exactly rewritten (chunk list, 64 KiB cap) asks for min(size, cap) instead of the bytes still missing',
    'C12a': 'RemoteServer.run clean-up clears the children/contexts collections before the reaping loop has used them',
    'C13b': 'context.__init__ asserts that no stack is left over: a failed loads poisons the next one on the thread',
    'C16b': 'ProcessWorker._run moves the success report into an else: clause of the try (new landing points lose outcome and state)',
    'C17a': 'restart() merges the liveness check into "final result is None"',
    'C18a': 'context branch of RemoteServer.run: the reply variable is assigned per outcome and one outcome is missed (ported)',
    'C13c': 'RemotePickler36(remote=False) starts from an empty private dispatch table instead of a copy of copyreg.dispatch_table',
    'C14c': 'remote_reduce turns a falsy state into None ("nothing to restore"): no BUILD, __setstate__ never runs, the wrapper stays on the instance',
    'C15c': 'break_patches returns early when the current object has no patches: no frames for its children, a grandchild closes its ancestor\'s frame (3-level chains)',
    'C20c': '_run_frontend catches only ConnectionClosedError and sets the start-up event on two paths instead of in a finally: a refused control connection hangs the constructor',
    'C02c': 'ProcessWorker._run reports type(e)(str(e)) instead of e: the error keeps its type but loses its arguments (process kind only)',
    'C11c': '_recv_exactly replaced by one recv(size, MSG_WAITALL) (same slip as C01b, found independently for C11): a body cut short by a disconnect reaches loads and kills the server',
    'C05c': 'results_iter rewritten with iter(fetch, None): a target result of None ends the iteration (None means both "stream ended" and "value None")',
    'C18c': 'RemoteContext clean-up removes children from the list it iterates: every second worker of a deleted context survives',
    'C19c': 'autoclose_active_children iterates the active_children() generator twice: the wait/terminate loop never runs',
    'C07c': 'results of a worker already declared dead are collected again (plain else: instead of the not-closed check): the input is also retried, so its result appears twice',
    'C09c': 'cleanup_worker only waits for a worker whose id is in _closed: a process whose end run() registered but which has not exited survives close()',
    'C03c': 'ProcessWorker._run reports success from an else: clause of the try (same slip as C16b, found independently for C03)',
    'C12c': 'the SIGTERM handler also kills the helper process of every registered context: the workers created inside a context lose the only process that would stop them and outlive the server',
    'C16c': 'ProcessWorker._get_result takes over the reported user_state only when it is not None: a child whose last assignment is None leaves the parent with the stale value',
    'C01d': 'ThreadWorker._run keeps the outcome in a local and assigns self._result as the last statement of the finally, after _cleanup(): a terminate landing in the clean-up, or a clean-up that raises, leaves a dead worker with has_error None',
    'C10d': 'recv_msg reads the 4-byte length prefix with one recv(4): a read boundary inside the header raises a spurious ConnectionClosedError on a live connection (the defect repaired by 3823ca8, reintroduced)',
    'C11d': 'the accept loop treats a client that hangs up inside its header as the empty request (header = None): on a close_on_none server one faulty client shuts the whole server down',
    'C20d': '_recv_exactly gets a fast path and fills a preallocated bytearray with recv_into for short reads, without the end-of-stream check: a FIN in mid-message makes the constructor spin for ever',
    'C05d': 'the three do_work loops drop the list() around the deep copy of the default args: tuple defaults stay tuples and the slice assignment kills the worker on its first input',
    'C06d': '_recv_exactly replaced by one recv(size, MSG_WAITALL) (third independent occurrence of this slip): a result body cut short by a kill reaches the unpickler, the forwarding thread dies and no end marker is ever written',
    'C08d': 'Pool.run keeps a result that arrives from a worker already declared dead: with retry on, the re-queued input is answered twice',
    'C13d': 'the MRO walk of the metaclass stops at the first remote-aware __getstate__: a reduce hook further up no longer wins, and a remote/plain/remote chain is no longer rejected',
    'C17d': '_get_restart_args forwards only truthy options: userid 0, run=False, set_names=False and an empty / zero user_state are lost across restart()',
    'C19b': 'active_children() prunes in two critical sections: a registration in between is lost',
    'C02e': 'RemoteWorker records main_path only when the target itself lives in __main__: a library target whose ARGUMENTS are main-script objects cannot be unpickled by an independent server',
    'C03e': 'ThreadWorker.terminate releases the child (end marker) BEFORE raising the request in it: an idle persistent thread worker woken first finishes cleanly, terminate() then raises ValueError and the outcome is a normal one',
    'C07e': 'try_enqueue books the input on a worker found dead while enqueueing without counting it as pending: the bookkeeping of outstanding inputs no longer adds up',
    'C09e': 'Pool._retries becomes a deque created once in __init__ and the per-run reset is dropped: inputs left waiting by a run that failed with PoolError are served by the next run',
    'C12e': 'the backend tolerates EOF on the start-up pipe: a worker whose server is stopped while it is still starting up runs its target as an orphan for ever (it is in nobody\'s list yet)',
    'C14e': 'patched_setstate splits any 2-tuple state into (dict, slots) before the class\'s own __setstate__ sees it: a class whose state is a pair gets only its first half',
    'C15e': 'the frame stack moves into a threading.local subclass with __slots__ for stack/iter/unused: slots of a threading.local subclass are shared by all threads, concurrent loads interfere',
    'C16e': 'the remote front end reads the state message only when the result value is not None: a target that returns None leaves the parent with the initial user_state',
    'C18e': 'the server tests the context id of a worker request for truth instead of "is not None": workers for a context registered under 0, \'\' or False are created as plain workers without target',
    'C01e': 'wait() and _get_result() share a new helper _recv_final(): a later wait() that finds the pipe at EOF overwrites the final message an earlier wait() had already received with None - the result is lost',
    'C04e': 'ProcessWorker.terminate waits for the acknowledgement with get(block=True, timeout=timeout), which ignores the timeout: a child whose control thread cannot run blocks terminate() for ever and the forced kill is never reached',
    'C05e': 'next_result stops blocking as soon as the worker is closed: after enqueue...; close() the stream looks ended (queue.Empty) while the child is still working',
    'C06e': 'PersistentProcessWorker._send_result catches Exception around the put and sends the exception object instead: a graceful terminate landing there is swallowed and a bogus item enters the stream',
    'C08e': 'try_enqueue now returns whether an input was handed over, first_enqueue still reads it as "more data available": a first worker that died unnoticed before run() ends the distribution - PoolError with live, idle workers',
    'C11e': 'the wait for the control connection peeks the data socket with recv(1, MSG_PEEK): a client that is RESET makes the peek raise ConnectionResetError, which escapes the accept loop and ends the server',
    'C13e': 'dump/dumps build the pickler through a helper that forwards the protocol only when it is truthy: protocol 0 silently becomes the default protocol',
    'C17e': 'restart() of a never-used, live, not closed worker returns at once ("nothing to restart"): same child, same id',
    'C20e': 'ProcessWorker._start waits with a plain recv() for the identity message instead of connection.wait([pipe, sentinel]): a child that dies during start-up blocks the constructor for ever',
    'C02f': 'Worker.create caches the implementing class in a class-level dict keyed by worker type only, shared by Worker and PersistentWorker: after Pool.add_worker(WorkerType.X) Worker.create(X, ...) builds a PERSISTENT worker that never calls the target with the given arguments',
    'C03f': 'PersistentProcessWorker._send_result catches Exception around the put and sends the exception instead (same slip as C06e, found independently for C03): a terminate landing there is swallowed, the worker ends with a normal outcome',
    'C07f': 'try_enqueue fetches the NEXT input before retrying after an enqueue that raised on a live worker: the failed input is neither pending nor re-queued, run() returns normally with a result missing',
    'C09f': 'Pool.run recomputes _closed from is_alive() at the start of every run: a worker whose end an earlier run registered but whose process lingers is handed work again',
    'C12f': 'the clean-up loop of the context helper removes each reaped worker from the list it iterates (same slip as C18c, found independently for C12): every second worker inside a context survives the server',
    'C16f': 'the child sends its user_state only when it is a different OBJECT from the one it started with: a mutable state updated in place is never sent, the parent keeps the construction-time value',
    'C14f': 'the one-shot __setstate__ wrapper jumps back to the frame-stack position recorded at re-creation: loading raises AssertionError for shared children, self references and cycles',
    'C15f': 'the pickler tests direct children with isinstance(obj, SupportRemoteGetState) instead of issubclass(type(obj), ...): the metaclass overrides __subclasscheck__ only, duck-typed / metaclass-only children get no frame and take their parent\'s patches',
    'C18f': 'the server refuses a duplicate context id only if the stored context is_alive() - a client-side flag that is False in the server\'s copy: every duplicate registration replaces the live context',
    'C19f': 'register_child appends without the "already registered" test: a restarted worker whose dead incarnation was not pruned is yielded twice',
    'C10e': 'send_msg sends header and body with sock.sendmsg([header, body]) and ignores the returned count: a short write cuts the message while send_msg returns normally, the next message follows the stump',
    'C01f': 'ProcessWorker._get_result narrows its blanket except to the exceptions the pickle docs list: the TypeError of an exception class whose constructor needs arguments escapes the first read of has_error/result/error, the second read finds EOF - the accessors raise and change after death',
    'C06f': 'send_msg sends the length prefix and the body with two sendall calls (MSG_MORE on the first): a graceful terminate can land between them, the orphan header makes the front end misread every later message - no end marker, the consumer blocks for ever',
    'C11f': 'send_msg converts only ConnectionError (not every OSError) into ConnectionClosedError: the EBADF of a control socket closed by the remote control thread escapes the accept loop and ends the server',
    'C04f': 'ProcessWorker.wait returns True (and caches _dead) as soon as the final message has been received, without joining: a child that outlives its result (non-daemon thread, slow clean-up) is reported dead while its pid runs',
    'C05f': 'the three enqueue methods test only the _closed flag (shared helper): a worker that died on its own was never closed - enqueue accepts the input silently (thread), raises BrokenPipeError (process) or drops it (remote)',
    'C08f': 'the "any worker left?" test becomes len(_closed) < number of workers: ids of workers that died before restart_workers() stay in _closed and are counted against the new generation - PoolError while workers are alive',
    'C13f': 'the metaclass writes a provisional False into its verdict cache before inspecting the MRO: a rejection (Warning) leaves it there, the second dump of such an object is serialised silently without the remote flag',
    'C17f': 'restart() of a thread worker whose old incarnation cannot be stopped only logs a warning and goes on: the abandoned old thread acts on the new incarnation (shared object)',
    'C20f': 'the server parks the client socket of a worker request naming an unknown context (to serve it when the context shows up) instead of closing it: the constructor blocks for as long as nobody registers that id',
    'C02g': 'recv_msg refuses messages whose length prefix exceeds 4 MiB ("hardening"): a RemoteWorker whose result is larger ends with has_error True / error None while thread and process workers return the value',
    'C03g': 'the input wait of PersistentProcessWorker.do_work ends the loop on except Exception instead of queue.Empty: a graceful terminate of an idle worker is swallowed, the worker reports a normal outcome',
    'C07g': 'the re-dispatch loop of handle_death breaks only when try_enqueue returns False - which it does not when the user enqueue_fn refuses the input: Pool.run spins for ever',
    'C09g': 'cleanup_worker terminates a worker that missed close_timeout only if force is truthy: with the default force=None a busy or stuck worker outlives a pool that is closed normally',
    'C12g': 'the reaping loop of RemoteServer.run pops each child off self.children BEFORE terminating it: a SIGTERM arriving while that child is being stopped finds it in no list - it is orphaned and its parent never finds out',
    'C14g': 'the one-shot __setstate__ wrapper deep-copies the state instead of copying the dict: shared references and cycles below an opt-in object are duplicated, children are serialised and restored again',
    'C15g': 'RemoteState.context keeps the per-thread stack across calls (created once, not deleted on success): frames left by an earlier loads are applied to the objects of a later one',
    'C16g': 'restart() calls _get_result() only when wait() succeeded: after a restart that had to terminate a busy process worker the next incarnation starts from the stale construction-time state',
    'C18g': 'the duplicate-id branch of the server "cleans up the rejected copy" but calls wait/terminate on the REGISTERED context: a second registration of an id kills the first context and its workers',
    'C19g': 'the registry becomes a weakref.WeakSet: a process worker the caller keeps no reference to is dropped while its OS process runs - active_children() and autoclose no longer see it',
    'C19e': 'the registry of active children becomes a dict keyed by worker id (setdefault): a new worker whose id equals that of a dead, not yet pruned one is never registered',
    'C01h': 'RemoteWorker._fetch_results publishes the result only after the user-state message has been received: a user_state that cannot be rebuilt on the parent side kills the front-end thread before any outcome exists (dead worker, has_error None for good)',
    'C04h': 'the child of a process worker installs a Python-level SIGTERM handler (forwarding the signal to nested workers): terminate(force=True) relied on the default disposition - under a C call holding the interpreter lock, or with a pending WorkerTerminatedError aborting the handler, the child survives',
    'C07h': 'a worker found dead while enqueueing keeps its outstanding inputs until its end marker is read; after a SIGKILL no marker ever comes and the EOFError branch skips closed workers: the inputs stay pending and Pool.run blocks',
    'C10h': '_recv_exactly returns b"" for an end of stream before the first byte, only the header read checks for it: a stream cut exactly after a complete header reaches loads(b"") and raises EOFError instead of ConnectionClosedError',
    'C11h': 'the dead assertion in RemoteState.context.__init__ repaired to test `stack` (same change as C14h/C13b, made independently for C11): a client that dies during the control handshake raises through loads, the next healthy client takes the server down',
    'C14h': 'the dead assertion in RemoteState.context.__init__ repaired to test `stack`: __exit__ removes the stack only after a successful load, so after one failed load every later load on the thread fails',
    'C17h': 'ProcessWorker.wait returns True as soon as the final message has arrived and PersistentProcessWorker.wait delegates to it: restart() abandons a child that has reported but not exited',
    'C19h': 'active_children() polls liveness outside the lock and prunes in a second critical section what it found dead: a dead worker restarted by another thread in between is dropped from the registry for good',
}
for d in sorted(glob.glob('/verif/seeded/*/')):
    sid = os.path.basename(d.rstrip('/'))
    mp, cp = d + 'meta.json', d + 'cycle.json'
    if not os.path.exists(mp):
        continue
    meta = json.load(open(mp))
    meta['one_line'] = ONE.get(sid, meta.get('one_line', ''))
    if os.path.exists(cp):
        cyc = json.load(open(cp))
        meta['cycle_against_repo_head'] = cyc.get('repo_head')
        meta['patch_used'] = os.path.basename(cyc.get('patch', ''))
        meta['demo_exit_codes'] = {'clean': cyc.get('demo_clean'), 'patched': cyc.get('demo_patched')}
        det = []
        for p, c in cyc.get('checks', {}).items():
            first = None
            if c['refuted']:
                m = re.search(r'refuted: (\S+)', c['refuted'][0])
                first = m.group(1) if m else None
            det.append({'check': p, 'exit': c['exit'], 'verdict': {0: 'held (not caught)', 1: 'VIOLATION', 2: 'UNDECIDED (not counted as caught)', 3: 'engine failure'}.get(c['exit'], str(c['exit'])),
                        'first_refuted_obligation': first, 'replayed_on_real_code': c['natively_replayed']})
        meta['detected_by'] = det
    json.dump(meta, open(mp, 'w'), indent=1)
    print(sid, [(x['check'], x['verdict']) for x in meta.get('detected_by', [])])
