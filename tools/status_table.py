#!/usr/bin/env python3
"""status_table.py: markdown tables for DESIGN.md 12.6 / 12.7 from /verif/evidence/*.json and /verif/seeded/*/cycle.json.
Usage: status_table.py [--write]   (--write replaces the STATUS_TABLE / SEED_TABLE blocks of DESIGN.md between their markers)"""
import glob, json, os, re, sys

V = '/verif'


def status():
    rows = ['| id | tier | lemmas | functions under contract | obligations | discharged | known-finding obligations | solver s | wall s | assumptions listed |',
            '|---|---|---|---|---|---|---|---|---|---|']
    for f in sorted(glob.glob(f'{V}/evidence/C*.json')):
        d = json.load(open(f))
        c = d['coverage']
        rows.append('| {} | {} | {} | {} | {} | {} | {} | {} | {} | {} |'.format(
            d['property_id'], d['tier'], len(c.get('lemmas', [])), len(c.get('functions_under_contract', c.get('functions', []))),
            c.get('obligations'), c.get('discharged'),
            (sum(c['known_finding_matches'].values()) if isinstance(c.get('known_finding_matches'), dict) else c.get('known_finding_matches', 0)),
            c.get('solver_time_s', c.get('solver_s', '')), d.get('wall_s'), len(d.get('assumptions', []))))
    return '\n'.join(rows)


def seeds():
    rows = ['| seed | property | the change (one line) | demo clean / patched (exit codes) | caught by (first refuted obligation) | replayed on the real code |',
            '|---|---|---|---|---|---|']
    for d in sorted(glob.glob(f'{V}/seeded/*/')):
        sid = os.path.basename(d.rstrip('/'))
        meta = json.load(open(d + 'meta.json')) if os.path.exists(d + 'meta.json') else {}
        cyc = json.load(open(d + 'cycle.json')) if os.path.exists(d + 'cycle.json') else {}
        what = meta.get('one_line') or ''
        if not what and os.path.exists(d + 'notes.md'):
            for ln in open(d + 'notes.md'):
                if ln.startswith('#'):
                    what = ln.strip('# \n')
                    break
        caught, replayed = [], []
        for p, c in cyc.get('checks', {}).items():
            if c['exit'] == 1 and c['refuted']:
                m = re.search(r'refuted: (\S+)', c['refuted'][0])
                caught.append(m.group(1).rsplit('/', 1)[0] if m else p)
                replayed.append('yes' if c['natively_replayed'] else 'no (no-failing-input-found)')
            elif c['exit'] == 2:
                caught.append(f'{p}: UNDECIDED (exit 2) - not counted')
                replayed.append('-')
            else:
                caught.append(f'{p}: not caught (exit {c["exit"]})')
                replayed.append('-')
        rows.append('| {} | {} | {} | {} / {} | {} | {} |'.format(sid, meta.get('property', ''), what[:110], cyc.get('demo_clean'), cyc.get('demo_patched'),
                                                               '<br>'.join(caught) or 'n/a', '<br>'.join(replayed)))
    return '\n'.join(rows)


if __name__ == '__main__':
    st, sd = status(), seeds()
    if '--write' in sys.argv:
        p = f'{V}/DESIGN.md'
        t = open(p).read()
        t = re.sub(r'<!-- STATUS_TABLE -->.*?<!-- /STATUS_TABLE -->', '<!-- STATUS_TABLE -->\n' + st + '\n<!-- /STATUS_TABLE -->', t, flags=re.S)
        t = re.sub(r'<!-- SEED_TABLE -->.*?<!-- /SEED_TABLE -->', '<!-- SEED_TABLE -->\n' + sd + '\n<!-- /SEED_TABLE -->', t, flags=re.S)
        open(p, 'w').write(t)
    else:
        print(st)
        print()
        print(sd)
