#!/usr/bin/env python3
"""rerun_missing.py <worktree> : re-run (once, in isolation) the baseline-stable tests that did not pass in OUT/junit.xml;
prints those that still fail."""
import json, subprocess, sys, xml.etree.ElementTree as ET
d = sys.argv[1]
base = json.load(open('/root/.vp/BASELINE.json'))
stable = set(base['stable_pass'])
res = {}
for tc in ET.parse(d + '/OUT/junit.xml').getroot().iter('testcase'):
    name = f"{tc.get('classname')}::{tc.get('name')}"
    res[name] = not any(ch.tag in ('failure', 'error') for ch in tc)
missing = sorted(s for s in stable if not res.get(s, False))
still = []
for m in missing:
    cls, test = m.split('::')
    mod, klass = cls.rsplit('.', 1)
    nid = f"{mod.replace('.', '/')}.py::{klass}::{test}"
    p = subprocess.run(['/venv/bin/python', '-m', 'pytest', '-q', '-p', 'no:cacheprovider', '--timeout=900', nid], cwd=d, capture_output=True, text=True)
    ok = p.returncode == 0
    print(('PASS ' if ok else 'FAIL ') + nid, flush=True)
    if not ok:
        still.append(m)
print('still failing after isolated re-run:', len(still), still)
open(d + '/OUT/confirm.txt', 'a').write(f'isolated re-run of {len(missing)} non-passing baseline tests: still failing {len(still)} {still}\n')
