#!/usr/bin/env python3
"""rerun_missing.py <worktree> : differential re-run of the baseline-stable tests that did not pass in OUT/junit.xml
(suite run with the change applied).  Each is re-run in isolation on the CLEAN tree and on the PATCHED tree (up to 3
tries each, same invocation); a test counts against the change only if it passes on the clean tree and never passes
on the patched tree.  Leaves the worktree patched."""
import json, subprocess, sys, xml.etree.ElementTree as ET
d = sys.argv[1]
base = json.load(open('/root/.vp/BASELINE.json'))
stable = set(base['stable_pass'])
res = {}
for tc in ET.parse(d + '/OUT/junit.xml').getroot().iter('testcase'):
    name = f"{tc.get('classname')}::{tc.get('name')}"
    res[name] = not any(ch.tag in ('failure', 'error') for ch in tc)
missing = sorted(s for s in stable if not res.get(s, False))


def nid(m):
    cls, test = m.split('::')
    mod, klass = cls.rsplit('.', 1)
    return f"{mod.replace('.', '/')}.py::{klass}::{test}"


def run(m, tries=3):
    for i in range(tries):
        p = subprocess.run(['/venv/bin/python', '-m', 'pytest', '-q', '-p', 'no:cacheprovider', '--timeout=900', nid(m)],
                           cwd=d, capture_output=True, text=True)
        if p.returncode == 0:
            return True, i + 1
    return False, tries


def sh(*a):
    subprocess.run(a, cwd=d, check=True)


patched = {m: run(m) for m in missing}
need_clean = [m for m in missing if not patched[m][0]]
clean = {}
if need_clean:
    sh('git', 'checkout', '-q', '--', 'pyworkers')
    try:
        clean = {m: run(m) for m in need_clean}
    finally:
        sh('git', 'apply', 'OUT/patch.diff')
broken = [m for m in need_clean if clean[m][0]]
lines = [f'differential re-run of {len(missing)} baseline tests that did not pass in the suite run with the change:']
for m in missing:
    lines.append(f'  {m}: patched {"pass" if patched[m][0] else "FAIL"} (tries {patched[m][1]})' +
                 (f'; clean {"pass" if clean[m][0] else "FAIL"} (tries {clean[m][1]})' if m in clean else ''))
lines.append(f'tests that pass on the clean tree and never on the patched tree: {len(broken)} {broken}')
print('\n'.join(lines))
open(d + '/OUT/confirm.txt', 'a').write('\n'.join(lines) + '\n')
