#!/usr/bin/env python3
"""validate.py: MANIFEST.json and every evidence/*.json against the schemas in /root/.vp (run with python3-vt: needs jsonschema)"""
import glob, json, sys
import jsonschema

bad = 0
m = json.load(open('/verif/MANIFEST.json'))
try:
    jsonschema.validate(m, json.load(open('/root/.vp/MANIFEST.schema.json')))
    print('MANIFEST ok:', len(m.get('checks', [])), 'claimed')
except jsonschema.ValidationError as e:
    bad += 1
    print('MANIFEST INVALID:', e.message[:300])
es = json.load(open('/root/.vp/EVIDENCE.schema.json'))
for f in sorted(glob.glob('/verif/evidence/*.json')):
    d = json.load(open(f))
    try:
        jsonschema.validate(d, es)
        c = d['coverage']
        flag = '' if c.get('obligations') == c.get('discharged') else '  <-- obligations != discharged'
        print(f.split('/')[-1], 'ok', d['tier'], c.get('obligations'), c.get('discharged'), flag)
        if flag:
            bad += 1
    except jsonschema.ValidationError as e:
        bad += 1
        print(f, 'INVALID:', e.message[:300])
sys.exit(1 if bad else 0)
