#!/usr/bin/env python3
"""showinj.py <prop>: list the landing points behind refuted obligations (from the replay files)"""
import glob, json, sys
from collections import Counter
for f in sorted(glob.glob(f'/verif/replays/{sys.argv[1]}/*.json')):
    d = json.load(open(f))
    print('==', d['site'], '|', d['text'][:100])
    c = Counter()
    for inj in [d.get('injections')] + (d.get('injections_other_paths') or []):
        for rec in inj or []:
            c[(rec[1].split('.')[-1], rec[2], rec[3][:60], rec[4])] += 1
        if not inj:
            c[('no injection', 0, '', '')] += 1
    for k, n in sorted(c.items(), key=lambda kv: (kv[0][0], kv[0][1])):
        print(f'   {n:3d}x {k}')
