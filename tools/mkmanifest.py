#!/usr/bin/env python3
"""Regenerates /verif/MANIFEST.json from tools/claims.json (one entry per claimed property)."""
import json, os
V = os.path.dirname(os.path.dirname(os.path.abspath(__file__)))
props = [json.loads(l) for l in open(os.path.join(V, 'properties.jsonl'))]
claims = json.load(open(os.path.join(V, 'tools', 'claims.json')))
checks = []
for p in props:
    c = claims['claimed'].get(p['id'])
    if not c:
        continue
    checks.append({
        'property_id': p['id'],
        'quick_cmd': f"./check {p['id']} --tier quick",
        'thorough_cmd': f"./check {p['id']} --tier thorough",
        'evidence_file': f"evidence/{p['id']}.json",
        'replay_cmd_template': f"./check {p['id']} --replay {{path}}",
        'engine': 'pyvc',
        'level_claimed': {'category': 'proof', 'text': c['text'], 'design_ref': c.get('design_ref', 'DESIGN.md section 8')},
        'level_note': c['note'],
        'technique': c.get('technique', 'contract-based deductive verification: VCs generated from the real AST against sidecar contracts, discharged by z3/cvc5'),
    })
na = [{'property_id': p['id'], 'reason': claims['not_applicable'].get(p['id'], 'check under construction in this round; not yet claimed')}
      for p in props if p['id'] not in claims['claimed']]
m = {
    'version': 1,
    'setup_cmd': './setup.sh',
    'hooks': {'guard': 'PYWORKERS_VERIF',
              'enable': 'none needed: no hook is compiled into /repo; replay instrumentation is injected from /verif via PYTHONPATH/sitecustomize',
              'baseline_off_cmd': 'cd /repo && /venv/bin/python -m pytest -ra -q -p no:cacheprovider --timeout=900 --continue-on-collection-errors',
              'source_commits': [], 'add_only': True},
    'engines': [{'name': 'pyvc', 'path': 'pyvc/', 'serves_properties': sorted(claims['claimed']),
                 'kind_free_text': 'verification-condition generator: symbolic execution of the real AST of /repo/pyworkers, function by function against sidecar contracts (props/*.py), one SMT obligation per (function, kind, path); z3 primary, cvc5 second back end; refutations replayed natively on the real code'}],
    'checks': checks,
    'not_applicable': na,
    'notes': claims.get('notes', ''),
}
json.dump(m, open(os.path.join(V, 'MANIFEST.json'), 'w'), indent=1)
print('claimed', len(checks), 'not applicable', len(na))
