#!/bin/bash
# Brittleness sweep (DESIGN.md 12.10): harmless edits of a scratch copy of the package (tools/benign.py), then all twenty quick checks
# against the copy.  Evidence and replay files of these runs go to the scratch directory, not to /verif/evidence.
# A check may answer 2 (undecided) on a reshaped function; exit 1 on a harmless edit would be a false alarm.
# usage: tools/benign_sweep.sh [kind ...]      (kinds: shift log pass tmp; default all)   scratch dir: $BENIGN_WORK or /tmp/benign
cd "$(dirname "$0")/.."
W=${BENIGN_WORK:-/tmp/benign}
REPO=${PYWORKERS_REPO:-/repo}
kinds=${@:-shift log pass tmp}
for kind in $kinds; do
  rm -rf "$W/$kind"; mkdir -p "$W/$kind/ev" "$W/$kind/rp"
  cp -r "$REPO/pyworkers" "$W/$kind/"
  python3 tools/benign.py "$W/$kind" "$kind"
  for p in C01 C02 C03 C04 C05 C06 C07 C08 C09 C10 C11 C12 C13 C14 C15 C16 C17 C18 C19 C20; do
    VERIF_EVIDENCE_DIR="$W/$kind/ev" VERIF_REPLAYS_DIR="$W/$kind/rp" ./check $p --repo "$W/$kind" > "$W/$kind/$p.log" 2>&1
    echo "$kind $p exit=$? $(grep -E '\[quick\]' "$W/$kind/$p.log" | tail -1 | cut -c1-160)"
  done
done
echo BENIGNDONE
