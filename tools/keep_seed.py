#!/usr/bin/env python3
"""keep_seed.py <seed id> <property id> "<what it needs to manifest>" : copy a confirmed seeded change into /verif/seeded/<id>/"""
import json, os, shutil, sys
sid, prop, needs = sys.argv[1:4]
src = f'/tmp/mut/{sid}/OUT'
dst = f'/verif/seeded/{sid}'
os.makedirs(dst, exist_ok=True)
for f in ('patch.diff', 'demo.py', 'notes.md'):
    shutil.copy(os.path.join(src, f), os.path.join(dst, f))
for f in os.listdir(src):
    if f.endswith('.py') and f != 'demo.py':
        shutil.copy(os.path.join(src, f), os.path.join(dst, f))
confirm = open(os.path.join(src, 'confirm.txt')).read() if os.path.exists(os.path.join(src, 'confirm.txt')) else ''
meta = {'id': sid, 'property': prop, 'needs_to_manifest': needs,
        'base_commit_of_patch': 'f947c66 (pinned snapshot of /repo, before any fix: commit)',
        'confirmed_by_me': confirm.splitlines(),
        'what_i_ran': ['tools/confirm_seed.sh <scratch worktree>: demo x2 on the clean tree, compile, demo x2 with the patch, full baseline suite with the patch',
                       'tools/rerun_missing.py <scratch worktree>: differential isolated re-run (clean vs patched) of baseline tests that did not pass in that suite run'],
        'detected_by': []}
json.dump(meta, open(os.path.join(dst, 'meta.json'), 'w'), indent=1)
print('kept', dst)
