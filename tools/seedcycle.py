#!/usr/bin/env python3
"""seedcycle.py <seed id> <property>[,<property>...] [patch file]

Confirm-and-detect cycle for one seeded change against the CURRENT /repo (with all fix: commits):
  1. the patch applies (git apply --check); 2. demo.py passes on the clean tree and fails with the patch (2 runs each);
  3. with the patch in place every listed property check is run (quick tier, with native replay) and its verdict recorded;
  4. the patch is removed again (git checkout -- .).   Result: /verif/seeded/<id>/cycle.json"""
import json, os, re, subprocess, sys, time

sid, props = sys.argv[1], sys.argv[2].split(',')
src = f'/tmp/mut/{sid}/OUT'
dst = f'/verif/seeded/{sid}'
patch = sys.argv[3] if len(sys.argv) > 3 else (os.path.join(dst, 'patch.diff') if os.path.exists(os.path.join(dst, 'patch.diff')) else os.path.join(src, 'patch.diff'))
demo = os.path.join(dst, 'demo.py') if os.path.exists(os.path.join(dst, 'demo.py')) else os.path.join(src, 'demo.py')
out = {'seed': sid, 'patch': patch, 'repo_head': subprocess.run(['git', '-C', '/repo', 'log', '--format=%h', '-1'], capture_output=True, text=True).stdout.strip()}


def sh(cmd, timeout=1800):
    try:
        r = subprocess.run(cmd, shell=True, capture_output=True, text=True, timeout=timeout)
        return r.returncode, r.stdout + r.stderr
    except subprocess.TimeoutExpired:
        return 124, 'timeout'


assert sh('git -C /repo status --porcelain')[1].strip() == '', '/repo is not clean'
rc, msg = sh(f'git -C /repo apply --check {patch}')
out['applies'] = rc == 0
if rc != 0:
    out['apply_error'] = msg[:400]
    json.dump(out, open(os.path.join(dst, 'cycle.json') if os.path.isdir(dst) else f'/tmp/cycle_{sid}.json', 'w'), indent=1)
    print(json.dumps(out, indent=1))
    sys.exit(2)


def run_demo():
    """the demos were written inside a scratch worktree (<root>/OUT/demo.py next to <root>/pyworkers); some of them insist on that layout.
    Rebuild it outside /repo and /verif with pyworkers linked to the tree under test, run there, remove it."""
    import glob, shutil, tempfile
    root = tempfile.mkdtemp(prefix=f'seedrun_{sid}_')
    os.makedirs(os.path.join(root, 'OUT'))
    for f in glob.glob(os.path.join(os.path.dirname(demo), '*.py')):
        shutil.copy(f, os.path.join(root, 'OUT'))
    os.symlink('/repo/pyworkers', os.path.join(root, 'pyworkers'))
    os.symlink('/repo/tests', os.path.join(root, 'tests'))
    res = []
    try:
        for _ in range(2):
            rc, o = sh(f'cd {root} && PYTHONPATH={root} timeout 300 /venv/bin/python {root}/OUT/demo.py', 400)
            res.append(rc)
    finally:
        shutil.rmtree(root, ignore_errors=True)
    return res


out['demo_clean'] = run_demo()
sh(f'git -C /repo apply {patch}')
try:
    out['compiles'] = sh('cd /repo && /venv/bin/python -m compileall -q pyworkers')[0] == 0
    out['demo_patched'] = run_demo()
    out['checks'] = {}
    for p in props:
        t0 = time.time()
        # evidence and replay files of a run against a patched tree must not overwrite the committed ones
        rc, o = sh(f'cd /verif && VERIF_EVIDENCE_DIR=/tmp/seedcycle_ev VERIF_REPLAYS_DIR=/tmp/seedcycle_rp ./check {p}', 3000)
        viol = [l for l in o.splitlines() if l.startswith('VIOLATION')]
        ref = [re.sub(r'\s+', ' ', l)[:260] for l in o.splitlines() if l.strip().startswith('refuted:')]
        out['checks'][p] = {'exit': rc, 'violation_lines': viol, 'refuted': ref[:8], 'natively_replayed': any('no-failing-input-found' not in v for v in viol),
                            'summary': [l for l in o.splitlines() if '[quick]' in l][-1:], 'seconds': round(time.time() - t0)}
finally:
    sh('git -C /repo checkout -- .')
    sh('find /repo -name __pycache__ -prune -exec rm -rf {} +')
os.makedirs(dst, exist_ok=True)
json.dump(out, open(os.path.join(dst, 'cycle.json'), 'w'), indent=1)
print(json.dumps({k: v for k, v in out.items() if k != 'checks'}, indent=0))
for p, c in out.get('checks', {}).items():
    print(p, 'exit', c['exit'], 'replayed' if c['natively_replayed'] else 'not replayed', c['summary'], '\n   ', '\n    '.join(c['refuted'][:3]))
