#!/usr/bin/env python3
"""Harmless edits of a scratch copy of the repository, to measure how brittle the proofs are (DESIGN.md 12.10): a check may become
undecided (exit 2) on a reshaped function, it must never report a violation (exit 1) for one of these.

usage: benign.py <tree> <kind>     kinds:
  shift    a comment line and a blank line in front of every def / class (all line numbers move)
  log      a logger.debug(...) call as first statement of every function of every module that has a module-level `logger`
  pass     a `pass` statement as first statement of every function
  tmp      every `return <expr>` becomes `_benign_ret = <expr>; return _benign_ret`
"""
import ast
import os
import sys


def edit_file(path, kind):
    with open(path, encoding='utf-8', newline='') as f:
        src = f.read()
    nl = '\r\n' if '\r\n' in src else '\n'
    lines = src.split(nl)
    tree = ast.parse(src.replace('\r\n', '\n'))
    has_logger = any(isinstance(st, ast.Assign) and any(isinstance(t, ast.Name) and t.id == 'logger' for t in st.targets) for st in tree.body)
    inserts = []     # (line index (0-based) to insert before, text)
    replaces = {}
    for node in ast.walk(tree):
        if isinstance(node, (ast.FunctionDef, ast.ClassDef)) and kind == 'shift':
            first = min([node.lineno] + [d.lineno for d in node.decorator_list]) - 1
            ind = ' ' * node.col_offset
            inserts.append((first, [ind + '# benign edit: this comment and the blank line below only move line numbers', '']))
        if isinstance(node, ast.FunctionDef) and kind in ('log', 'pass'):
            body = node.body
            first = body[0]
            if isinstance(first, ast.Expr) and isinstance(first.value, ast.Constant) and isinstance(first.value.value, str):
                if len(body) == 1:
                    continue
                first = body[1]
            if first.lineno == node.lineno:
                continue      # one-line def
            if any(isinstance(n, (ast.Global, ast.Nonlocal)) for n in body):
                continue
            ind = ' ' * first.col_offset
            if kind == 'log':
                if not has_logger:
                    continue
                inserts.append((first.lineno - 1, [ind + f"logger.debug('benign edit: entering {node.name}')"]))
            else:
                inserts.append((first.lineno - 1, [ind + 'pass']))
        if isinstance(node, ast.Return) and kind == 'tmp' and node.value is not None and node.lineno == node.end_lineno:
            line = lines[node.lineno - 1]
            if line.strip().startswith('return ') and not line.rstrip().endswith('\\'):
                ind = line[:len(line) - len(line.lstrip())]
                expr = line.strip()[len('return '):]
                replaces[node.lineno - 1] = [ind + '_benign_ret = ' + expr, ind + 'return _benign_ret']
    out = []
    ins = {}
    for i, txt in inserts:
        ins.setdefault(i, []).extend(txt)
    for i, line in enumerate(lines):
        if i in ins:
            out.extend(ins[i])
        if i in replaces:
            out.extend(replaces[i])
        else:
            out.append(line)
    new = nl.join(out)
    ast.parse(new.replace('\r\n', '\n'))
    with open(path, 'w', encoding='utf-8', newline='') as f:
        f.write(new)
    return len(inserts) + len(replaces)


def main():
    root, kind = sys.argv[1], sys.argv[2]
    n = 0
    for dirpath, _d, files in os.walk(os.path.join(root, 'pyworkers')):
        for fn in sorted(files):
            if fn.endswith('.py'):
                n += edit_file(os.path.join(dirpath, fn), kind)
    print(f'{kind}: {n} edits under {root}/pyworkers')


if __name__ == '__main__':
    main()
