#!/usr/bin/env python3
"""table of exit codes from the output of tools/benign_sweep.sh; --write puts it into DESIGN.md between <!-- BENIGN_TABLE --> markers
usage: benign_table.py <sweep output file> [--write]"""
import os
import re
import sys

VERIF = os.path.dirname(os.path.dirname(os.path.abspath(__file__)))


def main():
    rows = {}
    kinds = []
    for line in open(sys.argv[1]):
        m = re.match(r'(\w+) (C\d\d) exit=(\d+)', line)
        if m:
            k, p, rc = m.groups()
            if k not in kinds:
                kinds.append(k)
            rows.setdefault(p, {})[k] = rc
    edits = dict(re.findall(r'^(\w+): (\d+) edits', open(sys.argv[1]).read(), re.M))
    lines = ['| edit (number of edits) | ' + ' | '.join(sorted(rows)) + ' |', '|---|' + '---|' * len(rows)]
    for k in kinds:
        lines.append(f'| {k} ({edits.get(k, "?")}) | ' + ' | '.join(rows[p].get(k, '-') for p in sorted(rows)) + ' |')
    table = '\n'.join(lines)
    print(table)
    if '--write' in sys.argv:
        p = os.path.join(VERIF, 'DESIGN.md')
        t = open(p).read()
        a, b = '<!-- BENIGN_TABLE -->', '<!-- /BENIGN_TABLE -->'
        if a in t and b in t:
            t = t[:t.index(a) + len(a)] + '\n' + table + '\n' + t[t.index(b):]
            open(p, 'w').write(t)


if __name__ == '__main__':
    main()
