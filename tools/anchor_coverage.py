#!/usr/bin/env python3
"""For every property: which functions do its anchors (properties.jsonl: anchors.mechanism[].where = file:lines) fall into, and is each of them
verified against a contract (functions_under_contract) or at least symbolically executed as a callee (functions_inlined) by the property's check?
Reads /verif/evidence/*.json; prints a table; --write puts it into DESIGN.md between <!-- ANCHOR_TABLE --> markers."""
import ast
import json
import os
import re
import sys

VERIF = os.path.dirname(os.path.dirname(os.path.abspath(__file__)))
REPO = os.environ.get('PYWORKERS_REPO', '/repo')


def functions_of(path):
    with open(path, encoding='utf-8') as f:
        src = f.read()
    tree = ast.parse(src)
    mod = os.path.relpath(path, REPO)[:-3].replace(os.sep, '.')
    out = []

    def visit(body, prefix, in_func):
        for st in body:
            if isinstance(st, ast.FunctionDef):
                q = f'{prefix}.<{st.name}>' if in_func else f'{prefix}.{st.name}'
                out.append((st.lineno, st.end_lineno, q))
                visit(st.body, q, True)
            elif isinstance(st, ast.ClassDef):
                visit(st.body, f'{prefix}.{st.name}', False)
            else:
                for fld in ('body', 'orelse', 'finalbody', 'handlers'):
                    sub = getattr(st, fld, None)
                    if isinstance(sub, list):
                        for x in sub:
                            if isinstance(x, ast.ExceptHandler):
                                visit(x.body, prefix, in_func)
                        visit([x for x in sub if isinstance(x, ast.stmt)], prefix, in_func)
    visit(tree.body, mod, False)
    return out


def main():
    rows = []
    cache = {}
    reach = {}      # function -> properties whose check verifies or executes it
    for fn in sorted(os.listdir(os.path.join(VERIF, 'evidence'))):
        if fn.endswith('.json'):
            try:
                cov = json.load(open(os.path.join(VERIF, 'evidence', fn)))['coverage']
            except Exception:
                continue
            for q in list(cov.get('functions_under_contract', {})) + list(cov.get('functions_inlined', [])):
                reach.setdefault(q, []).append(fn[:-5])
    with open(os.path.join(VERIF, 'properties.jsonl')) as f:
        props = [json.loads(l) for l in f if l.strip()]
    for p in props:
        pid = p['id']
        try:
            ev = json.load(open(os.path.join(VERIF, 'evidence', pid + '.json')))['coverage']
        except Exception:
            ev = {}
        under = set(ev.get('functions_under_contract', {}))
        inl = set(ev.get('functions_inlined', []))
        anchored = {}
        for m in p.get('anchors', {}).get('mechanism', []):
            for part in re.split(r';\s*', m.get('where', '')):
                mm = re.match(r'\s*([\w/\.]+\.py):([\d,\s\-]+)', part)
                if not mm:
                    continue
                path = os.path.join(REPO, mm.group(1))
                if not os.path.exists(path):
                    continue
                if path not in cache:
                    cache[path] = functions_of(path)
                for rng in mm.group(2).split(','):
                    rng = rng.strip()
                    if not rng:
                        continue
                    lo, _, hi = rng.partition('-')
                    lo, hi = int(lo), int(hi or lo)
                    for (a, b, q) in cache[path]:
                        if a <= hi and b >= lo:
                            # an enclosing function is reported only if the range touches lines of its own (not only a nested def)
                            nested = [x for x in cache[path] if x[2] != q and x[0] > a and x[1] <= b]
                            own = [ln for ln in range(max(a, lo), min(b, hi) + 1) if not any(x[0] <= ln <= x[1] for x in nested)]
                            if own:
                                anchored.setdefault(q, set()).add(m.get('name', '')[:60])
        # note: line numbers are those of the pinned snapshot; fix: commits moved some of them by a few lines
        c = sorted(q for q in anchored if q in under)
        i = sorted(q for q in anchored if q not in under and q in inl)
        n = sorted(q for q in anchored if q not in under and q not in inl)
        rows.append((pid, c, i, n))
    short = lambda q: q.replace('pyworkers.', '')
    lines = ['| id | anchored functions verified against a contract | symbolically executed as callees | reached only by the check of another property | reached by no check |', '|---|---|---|---|---|']
    for pid, c, i, n in rows:
        other = [f'{short(q)} ({",".join(reach[q][:3])})' for q in n if q in reach]
        none = [short(q) for q in n if q not in reach]
        lines.append(f'| {pid} | {", ".join(map(short, c)) or "-"} | {", ".join(map(short, i)) or "-"} | {", ".join(other) or "-"} | {", ".join(none) or "-"} |')
    table = '\n'.join(lines)
    print(table)
    if '--write' in sys.argv:
        p = os.path.join(VERIF, 'DESIGN.md')
        t = open(p).read()
        a, b = '<!-- ANCHOR_TABLE -->', '<!-- /ANCHOR_TABLE -->'
        if a in t and b in t:
            t = t[:t.index(a) + len(a)] + '\n' + table + '\n' + t[t.index(b):]
            open(p, 'w').write(t)


if __name__ == '__main__':
    main()
