"""placeholder: tools/xcheck.py overrides this module in memory with the programs of xc_gen.generate(seed, n)"""
