"""Corpus of the encoding cross-check: small functions over the Python subset pyvc interprets.

Every function takes one int `k` (0 <= k < K, K = 4 unless the function has a default `K=`) and returns an
int / bool / None / str / (nested) tuple of those, or raises.  tools/xcheck.py runs each function for every k
under CPython (/venv/bin/python, the interpreter the package runs on) and verifies with pyvc, k symbolic, the
contract "for each k the outcome is exactly CPython's".  A disagreement is an unsound (or incomplete) rule of
the symbolic semantics.
"""


class Box:
    kind = 'box'

    def __init__(self, v, tag=None):
        self.v = v
        self.tag = tag

    def get(self):
        return self.v

    def describe(self):
        return (self.kind, self.get())

    @property
    def double(self):
        return self.v * 2

    @classmethod
    def make(cls, v):
        return cls(v, tag='made')

    @staticmethod
    def twice(x):
        return x + x


class SubBox(Box):
    kind = 'sub'

    def __init__(self, v, extra=7):
        super().__init__(v, tag='sub')
        self.extra = extra

    def get(self):
        return super().get() + self.extra


class Left:
    def who(self):
        return ('L',) + self.tail()

    def tail(self):
        return ('l',)


class Right(Left):
    def who(self):
        return ('R',) + super().who()

    def tail(self):
        return ('r',)


class Mid(Left):
    def who(self):
        return ('M',) + super().who()


class Diamond(Mid, Right):
    def who(self):
        return ('D',) + super().who()


class CM:
    def __init__(self, log, swallow=False):
        self.log = log
        self.swallow = swallow

    def __enter__(self):
        self.log.append('enter')
        return 5

    def __exit__(self, et, ev, tb):
        self.log.append('exit' if et is None else 'exit-exc')
        return self.swallow


# ------------------------------------------------------------------------------ arithmetic, comparisons, truthiness
def p_floordiv_mod(k):
    a = k - 2
    return (a // 2, a % 2, (-7) // 2, (-7) % 3, 7 // -2, 7 % -3, a * a - 1)


def p_divmod_zero(k):
    return 10 // (k - 1)


def p_chained_cmp(k):
    return (0 < k < 3, 0 <= k <= 0, k < 2 > 1, 1 == k != 2, k is None, k is not None)


def p_bool_ops_values(k):
    e = []
    f = [1]
    return (k or 'zero', k and 'nonzero', tuple(e or f), () or None, '' or 0, None and 1, not k, not e, not f, bool(k), 0 if e else 1)


def p_truthiness(k):
    vals = (0, 1, '', 'a', (), (0,), None, -1)
    out = []
    for v in vals:
        if v:
            out.append(1)
        else:
            out.append(0)
    d = {}
    if not d:
        out.append(2)
    d[k] = 0
    if d:
        out.append(3)
    return tuple(out)


def p_ifexp_minmax(k):
    return (k if k > 1 else -k, min(k, 2), max(k, 1, 2), min((3, k)), abs(k - 2), max([k, 1]))


def p_aug_assign(k):
    x = k
    x += 2
    x *= 3
    x -= 1
    x //= 2
    l = [1]
    m = l
    l += [k]
    t = (1,)
    u = t
    t += (k,)
    return (x, tuple(m), u, t)


def p_int_bool_mix(k):
    return (True + k, k == True, sum([k, 1, 2]), int(k > 1), len('abc') + k, isinstance(True, int), isinstance(k, bool))


# ------------------------------------------------------------------------------ lists
def p_list_pop(k):
    l = [10, 11, 12, 13]
    a = l.pop()
    b = l.pop(0)
    c = l.pop(k - 2) if k < 3 else None
    return (a, b, c, tuple(l))


def p_list_pop_empty(k):
    l = [1] * k
    l.pop()
    l.pop()
    return tuple(l)


def p_list_insert_extend(k):
    l = [1, 2, 3]
    l.insert(k, 99)
    l.insert(-1, 98)
    l.extend((7, 8))
    l.extend([])
    l.append((k,))
    return tuple(l)


def p_list_insert_far(k):
    l = [1, 2]
    l.insert(10, 5)
    l.insert(-10, 6)
    return tuple(l)


def p_list_remove_index(k):
    l = [3, 1, 3, 2]
    l.remove(3)
    i = l.index(2)
    if k == 3:
        l.remove(42)
    if k == 2:
        return l.index(42)
    return (tuple(l), i, l.count(3), 1 in l, 5 not in l)


def p_slice_read(k):
    l = [0, 1, 2, 3, 4, 5]
    return (tuple(l[k:]), tuple(l[:k]), tuple(l[1:k + 1]), tuple(l[-2:]), tuple(l[:-k]) if k else (), tuple(l[10:]), tuple(l[k:k]), tuple(l[4:2]),
            l[-1], l[k])


def p_slice_assign(k):
    l = [0, 1, 2, 3, 4]
    l[:k] = ['a', 'b']
    m = [0, 1, 2, 3, 4]
    m[k:] = ()
    n = [0, 1, 2]
    n[1:2] = [7, 8, 9]
    o = [0, 1, 2]
    o[len(o):] = [k]
    p = [0, 1, 2]
    p[:] = [k]
    return (tuple(l), tuple(m), tuple(n), tuple(o), tuple(p))


def p_slice_assign_tuple(k):
    t = (1, 2, 3)
    if k == 1:
        t[:1] = (9,)
    return t[:k]


def p_index_errors(k):
    l = [1, 2]
    if k == 0:
        return l[2]
    if k == 1:
        return l[-3]
    if k == 2:
        l[2] = 0
    return l[-2]


def p_list_alias_copy(k):
    a = [1, [2]]
    b = a
    c = a[:]
    d = list(a)
    a.append(k)
    a[1].append(k)
    return (len(b), len(c), len(d), tuple(c[1]), b is a, c is a, c == d, a == c)


def p_list_mul_add(k):
    l = [0] * k + [1, 2]
    return (tuple(l), tuple(l * 2)[:3], len([None] * 3), tuple([k] + []))


def p_del_items(k):
    l = [0, 1, 2, 3]
    del l[k]
    d = {0: 'a', 1: 'b'}
    del d[k]
    return (tuple(l), tuple(d.items()))


def p_list_comprehension(k):
    l = [x * x for x in range(k + 2) if x != 1]
    m = [(i, c) for i, c in enumerate(('a', 'b'))]
    n = [y for x in ((1, 2), (3,)) for y in x]
    return (tuple(l), tuple(m), tuple(n), any(x > 2 for x in l), all(x >= 0 for x in l), all([]), any([]))


def p_sorted_reversed(k):
    l = [3, k, 2]
    s = sorted(l)
    r = list(reversed(l))
    l.sort()
    l.reverse()
    return (tuple(s), tuple(r), tuple(l))


def p_zip_enumerate_range(k):
    out = []
    for i, (a, b) in enumerate(zip((1, 2, 3), 'xy')):
        out.append((i, a, b))
    for j in range(k, 0, -1):
        out.append(j)
    for j in range(1, k):
        out.append(-j)
    return (tuple(out), len(range(k)), tuple(range(2, 2)))


# ------------------------------------------------------------------------------ tuples, unpacking
def p_unpack(k):
    a, b = 1, (2, 3)
    (c, d), e = b, k
    f, *g = (1, 2, 3)
    *h, i = [1, 2, 3]
    j, *m, n = (1, 2)
    a, b = b, a
    return (a, b, c, d, e, f, tuple(g), tuple(h), i, j, tuple(m), n)


def p_unpack_errors(k):
    t = (1, 2, 3)[:k]
    a, b = t
    return (a, b)


def p_unpack_none(k):
    v = None if k == 1 else (1, 2)
    a, b = v
    return a + b


def p_tuple_ops(k):
    t = (1, 2) + (k,)
    return (t, len(t), t[1:], t * 2, t == (1, 2, 2), t < (1, 2, 3), (k,) in (t, (k,)), t.index(2), t.count(k))


def p_star_call(k):
    def f(a, b=10, *rest, c=100, **kw):
        return (a, b, rest, c, tuple(sorted(kw.items())))
    args = (1, 2, 3)[:k]
    kw = {'c': 5, 'z': 6}
    if k == 0:
        return f(0, **kw)
    return (f(*args), f(*args, **kw), f(9, *args, c=k), f(a=1, b=2))


def p_call_errors(k):
    def f(a, b=1):
        return a + b
    if k == 0:
        return f()
    if k == 1:
        return f(1, 2, 3)
    if k == 2:
        return f(1, c=3)
    return f(1, a=2)


def p_default_arg_shared(k):
    def f(x, acc=[]):
        acc.append(x)
        return acc
    f(1)
    f(2)
    r = f(k)
    s = f(0, [])
    return (tuple(r), tuple(s))


# ------------------------------------------------------------------------------ dicts and sets
def p_dict_basic(k):
    d = {'a': 1, 'b': 2}
    d['c'] = k
    d['a'] = 10
    e = d.get('zz')
    f = d.get('zz', 5)
    g = d.pop('b')
    h = d.pop('nope', -1)
    i = d.setdefault('a', 0)
    j = d.setdefault('n', k)
    return (tuple(d.items()), e, f, g, h, i, j, 'a' in d, 'b' in d, len(d), tuple(d), tuple(d.keys()), tuple(d.values()))


def p_dict_object_keys(k):
    """objects of a class without __eq__/__hash__ are keys by identity (lookups and stores)"""
    a, b = Box(1), Box(1)
    d = {}
    d[a] = 'first'
    r0 = d.get(b)
    d[b] = k
    d[a] = 'again'
    cached = d.get(a if k % 2 == 0 else b)
    return (r0, cached, len(d), d.setdefault(b, 'x') == k, a in d)


class _Log:
    def debug(self, *a, **k):
        return None

    info = warning = debug


logger = _Log()


def p_logger_arguments(k):
    """a logging call is a no-op - but an argument that calls something is evaluated, with its effects and its exceptions"""
    seen = []

    def note(x):
        seen.append(x)
        return x
    logger.debug('plain {} {}', k, 'text')
    logger.debug('effect {}', note(k))
    try:
        logger.info('raises {}', {'a': 1}.pop('a' if k else 'b'))        # a call inside the argument: KeyError for k == 0
    except KeyError:
        seen.append('key')
    if k == 3:
        logger.warning('raises {}', {}.pop('missing'))
    return tuple(seen)


def p_dict_errors(k):
    d = {1: 'x'}
    if k == 0:
        return d[0]
    if k == 1:
        return d.pop(5)
    if k == 2:
        del d[7]
    return d[1]


def p_dict_update_order(k):
    d = {'x': 1, 'y': 2}
    d.update({'y': 20, 'w': k})
    d.update(z=3)
    d.update([('q', 1)])
    e = dict(d)
    e['x'] = 0
    f = d.copy()
    f.clear()
    g = {**d, 'x': 5}
    return (tuple(d.items()), e['x'], d['x'], len(f), tuple(g.items()), d == e, dict(a=1) == {'a': 1})


def p_dict_iter_mutation(k):
    d = {0: 'a', 1: 'b', 2: 'c'}
    seen = []
    for key in list(d):
        seen.append(key)
        if key == k:
            del d[key]
    for key, val in d.items():
        seen.append(val)
    return tuple(seen)


def p_dict_comprehension(k):
    d = {i: i * i for i in range(k + 1)}
    inv = {v: key for key, v in d.items()}
    return (tuple(d.items()), tuple(inv.items()), sum(d.values()))


def p_set_ops(k):
    s = set()
    s.add(1)
    s.add(k)
    s.add(1)
    s.discard(9)
    a = len(s)
    b = k in s
    s.discard(1)
    t = {1, 2} | {k}
    u = {1, 2, 3} - {k}
    if k == 3:
        s.remove(77)
    return (a, b, len(s), tuple(sorted(t)), tuple(sorted(u)), {1, 2} == {2, 1}, 1 in {1})


# ------------------------------------------------------------------------------ strings
def p_str_ops(k):
    s = 'abc'
    t = s + 'd' * k
    return (t, len(t), t[0], t[-1], t[1:3], s == 'abc', 'b' in s, 'bd' in s, s.upper(), tuple('x,y'.split(',')), '-'.join(('a', 'b')), s.startswith('ab'),
            s.endswith('bc'), s * 2)


def p_str_format(k):
    n = None
    return (f'k={k}', 'v %d %s' % (k, 'x'), '{} and {}'.format(k, n), f'{k!r}/{n}', str(k) + repr('q'), f'{k:02d}', '%s' % (k,), str(None), str(True),
            str((1, 'a')), repr([k]))


def p_str_compare(k):
    names = ('b', 'a', 'c')
    return (names[k % 3] < 'b', sorted(names)[0], max(names), 'a' < 'B', 'abc' < 'abd', '' < 'a')


# ------------------------------------------------------------------------------ bytes, bytearray, memoryview
def p_bytes_slices(k):
    b = b'abcdef'
    return (len(b[k:]), b[k:k + 2] == b'cd', b[:k] + b[k:] == b, b[1:-1] == b'bcde', len(b[4:2]), b[-2:] == b'ef', len(b''.join([b'ab', b'', b'c'])),
            b''.join((b'x', b'y')) == b'xy')


def p_bytearray_grow(k):
    buf = bytearray()
    alias = buf
    buf += b'ab'
    buf.extend(b'cc')
    if k:
        buf += b'!'
    return (len(buf), len(alias), bytes(alias) == b'abcc' + (b'!' if k else b''), alias is buf, bytes(buf)[:2] == b'ab', bytes(buf)[k:k + 1] == b'abcc!'[k:k + 1])


def p_memoryview_write(k):
    buf = bytearray(b'abcdef')
    view = memoryview(buf)
    view[:2] = b'XY'
    sub = view[2:]
    sub[k:k + 1] = b'Z'
    view[1:][k:][:1] = b'Q'
    return (len(view), len(sub), len(view[k:]), len(view[k:k + 2]), len(view[5:3]), len(view[-2:]), len(view[10:]),
            bytes(buf) == b'XYZdef', bytes(buf) == b'XQcZef', bytes(sub) == bytes(buf)[2:], len(bytes(view[1:3])))


def p_memoryview_size_mismatch(k):
    buf = bytearray(b'abcd')
    view = memoryview(buf)
    if k == 1:
        view[0:2] = b'xyz'
    if k == 2:
        view[3:] = b''
    view[k:k + 1] = b'!'
    return bytes(buf) == b'abc!'


def p_bytearray_prealloc(k):
    buf = bytearray(4)
    view = memoryview(buf)
    received = 0
    for piece in (b'ab', b'c', b'd'):
        view[received:received + len(piece)] = piece
        received += len(piece)
    return (received, len(buf), bytes(buf) == b'abcd', bytes(view[:k]) == b'abcd'[:k])


# ------------------------------------------------------------------------------ classes
def p_class_basic(k):
    b = Box(k)
    s = SubBox(k)
    m = Box.make(3)
    return (b.get(), s.get(), b.describe(), s.describe(), b.double, s.double, m.tag, s.tag, Box.twice(k), s.twice(1), isinstance(s, Box), isinstance(b, SubBox),
            type(s) is SubBox, type(s) is Box, b.kind, SubBox.kind)


def p_class_attr_shadow(k):
    b = Box(1)
    c = Box(2)
    b.kind = 'mine'
    r1 = (b.kind, c.kind, Box.kind)
    Box.kind = 'changed'
    r2 = (b.kind, c.kind, SubBox.kind)
    Box.kind = 'box'
    return (r1, r2)


def p_mro_diamond(k):
    classes = (Left, Right, Mid, Diamond)
    return classes[k]().who()


def p_getattr_hasattr(k):
    b = Box(k)
    r = (getattr(b, 'v'), getattr(b, 'nope', 'dflt'), hasattr(b, 'tag'), hasattr(b, 'nope'), getattr(b, 'kind'), hasattr(b, 'double'))
    setattr(b, 'nope', 4)
    if k == 2:
        return b.missing
    if k == 3:
        return getattr(b, 'missing2')
    return r + (b.nope,)


def p_attr_on_none(k):
    b = Box(k) if k else None
    return b.v


def p_object_identity(k):
    a = Box(1)
    b = Box(1)
    c = a
    l = [a, b]
    return (a is b, a is c, a == b, a == c, a in l, c in [b], l.index(b), a is not None, a != b)


def p_with_statement(k):
    log = []
    try:
        with CM(log, swallow=(k == 1)) as x:
            log.append(x)
            if k >= 1:
                raise ValueError('in with')
            log.append('body-end')
        log.append('after')
    except ValueError:
        log.append('caught')
    return tuple(log)


def p_with_return(k):
    log = []

    def f():
        with CM(log):
            if k == 0:
                return 'early'
            log.append('body')
        return 'late'
    r = f()
    return (r, tuple(log))


# ------------------------------------------------------------------------------ closures, generators, lambdas
def p_closure_nonlocal(k):
    count = 0
    items = []

    def bump(n):
        nonlocal count
        count += n
        items.append(count)
        return count
    bump(1)
    bump(k)
    f = lambda x, y=count: x + y
    count = 100
    return (count, tuple(items), f(1), bump(0))


def p_closure_late_binding(k):
    fs = []
    for i in range(3):
        fs.append(lambda: i)
    gs = [lambda i=i: i for i in range(3)]
    return (fs[k % 3](), gs[k % 3]())


def p_generator(k):
    log = []

    def gen(n):
        log.append('start')
        try:
            for i in range(n):
                yield i
                log.append(('resumed', i))
        finally:
            log.append('fin')
        log.append('end')
    out = []
    for v in gen(k):
        out.append(v)
    return (tuple(out), tuple(log), tuple(gen(2)), sum(gen(3)))


def p_generator_break(k):
    def gen():
        yield 1
        yield 2
        yield 3
    out = []
    for v in gen():
        if v > k:
            break
        out.append(v)
    else:
        out.append('exhausted')
    return tuple(out)


def p_recursion(k):
    def fact(n):
        return 1 if n <= 1 else n * fact(n - 1)
    return fact(k + 2)


# ------------------------------------------------------------------------------ loops
def p_while_else(k):
    i = 0
    out = []
    while i < 3:
        if i == k:
            out.append('break')
            break
        i += 1
    else:
        out.append('else')
    for j in range(3):
        if j == k - 1:
            continue
        out.append(j)
    else:
        out.append('for-else')
    return (i, tuple(out))


def p_nested_break(k):
    out = []
    for i in range(3):
        for j in range(3):
            if j == k:
                break
            if j == 1:
                continue
            out.append((i, j))
        else:
            out.append(('inner-else', i))
            continue
        if i == 1:
            break
    return tuple(out)


def p_loop_var_after(k):
    i = 'unset'
    for i in range(k):
        pass
    return i


def p_loop_modify_list(k):
    l = [1, 2, 3, 4]
    out = []
    for x in l:
        out.append(x)
        if x == k:
            l.remove(x)
    return (tuple(out), tuple(l))


# ------------------------------------------------------------------------------ exceptions
def p_exc_match_order(k):
    excs = (KeyError, IndexError, ConnectionResetError, ZeroDivisionError)
    try:
        raise excs[k]('boom')
    except ArithmeticError:
        return 'arith'
    except KeyError:
        return 'key'
    except LookupError:
        return 'lookup'
    except (BrokenPipeError, ConnectionError):
        return 'conn'
    except OSError:
        return 'os'


def p_exc_args(k):
    try:
        if k == 0:
            raise ValueError('a', 1)
        if k == 1:
            raise ValueError
        if k == 2:
            raise KeyError('key')
        {}['missing']
    except (ValueError, KeyError) as e:
        return (e.args, isinstance(e, ValueError), isinstance(e, LookupError), str(e))


def p_exc_finally_order(k):
    log = []

    def f():
        try:
            log.append('try')
            if k == 0:
                return 'ret-try'
            if k == 1:
                raise ValueError('x')
            log.append('try-end')
        except ValueError:
            log.append('except')
            if k == 1:
                return 'ret-except'
        else:
            log.append('else')
            if k == 2:
                return 'ret-else'
        finally:
            log.append('finally')
        return 'ret-end'
    r = f()
    return (r, tuple(log))


def p_exc_finally_override(k):
    def f():
        try:
            if k == 0:
                raise ValueError('lost')
            return 'try'
        finally:
            if k <= 1:
                return 'finally'
    return f()


def p_exc_in_finally(k):
    log = []
    try:
        try:
            if k >= 1:
                raise KeyError('first')
        finally:
            log.append('inner-finally')
            if k == 2:
                raise IndexError('second')
    except KeyError:
        log.append('key')
    except IndexError as e:
        log.append('index')
        log.append(type(e.__context__) is KeyError)
    return tuple(log)


def p_exc_in_handler(k):
    log = []
    try:
        try:
            raise KeyError('first')
        except KeyError:
            log.append('handler')
            if k == 1:
                raise ValueError('from handler')
            if k == 2:
                raise
        finally:
            log.append('fin')
    except ValueError:
        log.append('value')
    except KeyError:
        log.append('key-again')
    return tuple(log)


def p_exc_raise_from(k):
    try:
        try:
            raise KeyError('inner')
        except KeyError as e:
            if k == 0:
                raise ValueError('outer') from e
            if k == 1:
                raise ValueError('outer2') from None
            raise ValueError('outer3')
    except ValueError as v:
        return (v.args, type(v.__cause__) is KeyError, v.__cause__ is None)


def p_exc_var_unbound(k):
    e = 'before'
    try:
        if k:
            raise ValueError('x')
    except ValueError as e:
        pass
    return e


def p_exc_else_not_covered(k):
    log = []
    try:
        try:
            log.append('try')
        except ValueError:
            log.append('not here')
        else:
            log.append('else')
            if k == 1:
                raise ValueError('from else')
        finally:
            log.append('fin')
    except ValueError:
        log.append('outer')
    return tuple(log)


def p_exc_loop_finally(k):
    log = []
    for i in range(3):
        try:
            if i == k:
                break
            if i == k - 1:
                continue
            log.append(('body', i))
        finally:
            log.append(('fin', i))
    return tuple(log)


def p_exc_bare_and_base(k):
    class Mine(Exception):
        pass

    class Deep(Mine):
        pass
    excs = (Mine, Deep, KeyboardInterrupt, SystemExit)
    try:
        try:
            raise excs[k]()
        except Mine as e:
            return ('mine', type(e) is Deep)
        except Exception:
            return 'exception'
    except BaseException as e:
        return ('base', isinstance(e, KeyboardInterrupt), isinstance(e, Exception))


def p_exc_escapes(k):
    excs = (KeyError, ValueError, OSError, ConnectionResetError)
    try:
        raise excs[k]('out')
    except LookupError:
        raise
    except ConnectionError as e:
        raise RuntimeError('wrapped') from e
    finally:
        pass


def p_none_arith(k):
    x = None if k == 0 else k
    return x + 1


def p_none_call(k):
    f = None if k == 0 else len
    return f('ab')


def p_not_iterable(k):
    x = None if k == 0 else (1,)
    out = []
    for v in x:
        out.append(v)
    return tuple(out)


def p_global_state(k):
    global _COUNTER
    _COUNTER += 1
    a = _COUNTER
    _bump()
    _COUNTER -= 2
    return (a - _COUNTER, _COUNTER)


_COUNTER = 0


def _bump():
    global _COUNTER
    _COUNTER += 1
