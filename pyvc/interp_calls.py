"""Calls: argument evaluation, binding, inlining of repository functions, contract application,
class instantiation, super(), external models."""
import ast

import z3

from . import smt
from .smt import Val, ValList, SeqVal
from .values import *  # noqa
from .core import PathEnd, Undecided, PyRaise, ReturnSig, BreakSig, ContinueSig, Vanish
from .frontend import ClassInfo, FuncInfo

MAX_DEPTH = 12


class VSuper(V):
    def __init__(self, self_v, after, self_cls):
        self.self_v = self_v
        self.after = after
        self.self_cls = self_cls


class CallMixin:
    def e_Call(self, e, fr):
        from .interp import Frame, LOGGER
        ex = self.ex
        # logger.xxx(...): the logging itself is a total no-op and plain formatting arguments are not evaluated - but an argument that CALLS something is
        # evaluated for its effects and exceptions (logger.debug('peer: {}', sock.getpeername()) raises what getpeername() raises); a call the engine has no
        # model for is assumed total, and recorded as such
        if isinstance(e.func, ast.Attribute) and isinstance(e.func.value, ast.Name) and e.func.value.id == 'logger':
            ex.notes_abstracted.add('logger.* calls: no-op, assumed total')
            for a in list(e.args) + [kw.value for kw in e.keywords]:
                if any(isinstance(n, ast.Call) for n in ast.walk(a)):
                    try:
                        self.eval(a.value if isinstance(a, ast.Starred) else a, fr)
                    except Undecided:
                        ex.notes_abstracted.add('logger.* argument that calls a function without a model: assumed total')
            return NONE
        if isinstance(e.func, ast.Name) and e.func.id == 'super' and not e.args:
            if fr.owner is None:
                raise Undecided('super() outside a method')
            selfname = fr.fi.node.args.args[0].arg
            return VSuper(fr.locals[selfname], fr.owner, fr.self_cls)
        f = self.eval(e.func, fr)
        args = []
        for a in e.args:
            if isinstance(a, ast.Starred):
                v = self.eval(a.value, fr)
                items = self.iter_concrete(v)
                if items is not None:
                    args.extend(items)
                else:
                    args.append(VStar(v))
            else:
                args.append(self.eval(a, fr))
        kwargs = {}
        for kw in e.keywords:
            v = self.eval(kw.value, fr)
            if kw.arg is None:
                if isinstance(v, VRef) and isinstance(ex.heap[v.addr], HDict) and \
                        not any(isinstance(k, tuple) for k in ex.heap[v.addr].items):
                    kwargs.update(ex.heap[v.addr].items)
                else:
                    kwargs[('**', len(kwargs))] = v
            else:
                kwargs[kw.arg] = v
        prev = ex.ghost.get('__cur_node__')
        ex.ghost['__cur_node__'] = e
        try:
            return self.call_value(f, args, kwargs, e, fr)
        finally:
            ex.ghost['__cur_node__'] = prev

    def call_value(self, f, args, kwargs, node=None, fr=None):
        ex = self.ex
        if isinstance(f, VModel):
            return f.fn(ex, args, kwargs)
        if isinstance(f, VBound):
            if isinstance(f.func, VModel):
                return f.func.fn(ex, [f.self_v] + list(args), kwargs)
            self_cls = None
            if isinstance(f.self_v, VRef) and isinstance(ex.heap[f.self_v.addr], HObj):
                self_cls = ex.heap[f.self_v.addr].cls
            elif isinstance(f.self_v, VClass):
                self_cls = f.self_v.ci
            return self.call_function(f.func, [f.self_v] + list(args), kwargs, owner=f.owner, self_cls=self_cls, node=node)
        if isinstance(f, VFunc):
            return self.call_function(f, args, kwargs, node=node)
        if isinstance(f, VClass):
            return self.instantiate(f.ci, args, kwargs, node)
        if isinstance(f, VExcClass):
            return self.make_exception(f.name, args, kwargs, node)
        if isinstance(f, VExt):
            if f.name in ex.ext_models:
                return ex.ext_models[f.name](ex, args, kwargs)
            raise Undecided(f'call of external {f.name} without a model (line {getattr(node, "lineno", "?")})')
        if isinstance(f, VSym) or isinstance(f, VAbs):
            h = ex.ghost.get('__opaque_call__')
            if h is None:
                raise Undecided(f'call of opaque value {f!r} without an opaque-call model')
            return h(ex, f, args, kwargs, node)
        if isinstance(f, VRef) and isinstance(ex.heap[f.addr], HObj):
            h = ex.heap[f.addr]
            if isinstance(h.cls, ClassInfo):
                found, owner = ex.repo.lookup_method(h.cls, '__call__')
                if found is not None:
                    return self.call_function(VFunc(found), [f] + list(args), kwargs, owner=owner, self_cls=h.cls, node=node)
        raise Undecided(f'call of {f!r}')

    def make_exception(self, name, args, kwargs, node):
        ex = self.ex
        ci = ex.exc.repo_cls.get(name)
        e = VExc(name, [a for a in args if not isinstance(a, VStar)], {})
        if ci is not None and '__init__' in ci.methods:
            # run the class's own __init__ on a record object to capture fields / super().__init__ args
            rec = ex.alloc(HObj(ci, {}))
            ex.heap[rec.addr].attrs['__exc__'] = e
            self.call_function(VFunc(ci.methods['__init__']), [rec] + list(args), kwargs, owner=ci, self_cls=ci, node=node)
            h = ex.heap[rec.addr]
            e.fields = {k: v for k, v in h.attrs.items() if k not in ('__exc__', '__excargs__')}
            if '__excargs__' in h.attrs:
                e.args = list(h.attrs['__excargs__'])
        return e

    # ------------------------------------------------------------------ binding
    def bind_args(self, fi, args, kwargs, fr):
        ex = self.ex
        a = fi.node.args
        params = [p.arg for p in a.posonlyargs + a.args]
        defaults = a.defaults
        ndef = len(defaults)
        pos = list(args)
        star = None
        if pos and isinstance(pos[-1], VStar):
            star = pos.pop().v
        if any(isinstance(x, VStar) for x in pos):
            raise Undecided('*seq followed by positional arguments')
        kw = dict(kwargs)
        dstar = [v for k, v in kw.items() if isinstance(k, tuple)]
        kw = {k: v for k, v in kw.items() if not isinstance(k, tuple)}
        loc = fr.locals
        for i, p in enumerate(params):
            if i < len(pos):
                if p in kw:
                    self.throw('TypeError', f'multiple values for argument {p}')
                loc[p] = pos[i]
            elif star is not None:
                raise Undecided(f'*seq feeding named parameter {p} of {fi.qualname}')
            elif p in kw:
                loc[p] = kw.pop(p)
            else:
                di = i - (len(params) - ndef)
                if di >= 0:
                    loc[p] = self.eval(defaults[di], Frame_for_defaults(self, fi, fr))
                else:
                    if dstar:
                        raise Undecided(f'parameter {p} possibly supplied by opaque **mapping')
                    self.throw('TypeError', f'missing argument {p}')
        extra = pos[len(params):]
        if a.vararg:
            if star is not None:
                if extra:
                    loc[a.vararg.arg] = VSeq(z3.Concat(self.as_seq(VTuple(extra)), self.as_seq(star)))
                else:
                    loc[a.vararg.arg] = star if isinstance(star, (VSeq,)) else VSeq(self.as_seq(star))
            else:
                loc[a.vararg.arg] = VTuple(extra)
        elif extra or star is not None:
            if star is not None:
                raise Undecided('*seq passed to a function without *args')
            self.throw('TypeError', 'too many positional arguments')
        for p, d in zip(a.kwonlyargs, a.kw_defaults):
            if p.arg in kw:
                loc[p.arg] = kw.pop(p.arg)
            elif d is not None:
                loc[p.arg] = self.eval(d, Frame_for_defaults(self, fi, fr))
            else:
                self.throw('TypeError', f'missing keyword-only argument {p.arg}')
        if a.kwarg:
            items = dict(kw)
            for i, m in enumerate(dstar):
                items[('**', i)] = m
            if len(dstar) == 1 and not kw:
                loc[a.kwarg.arg] = dstar[0]           # pure pass-through of an opaque mapping
            else:
                loc[a.kwarg.arg] = ex.alloc(HDict(items))
        elif kw or dstar:
            if dstar and not kw:
                raise Undecided('opaque **mapping passed to a function without **kwargs')
            self.throw('TypeError', f'unexpected keyword arguments {list(kw)}')

    # ------------------------------------------------------------------ calling repository functions
    def call_function(self, vf, args, kwargs, owner=None, self_cls=None, node=None):
        from .interp import Frame
        ex = self.ex
        fi = vf.fi
        con = ex.contracts.get(fi.qualname)
        if con is not None and fi.qualname in ex.use_contract and not ex.ghost.get('__verifying__') == fi.qualname + '#top':
            ex.funcs_by_contract.add(fi.qualname)
            return ex.apply_contract(con, fi, args, kwargs, node, self_cls=self_cls)
        hook = ex.ghost.get('__call_hooks__', {}).get(fi.qualname) or ex.call_hooks.get(fi.qualname)
        if hook is not None:
            r = hook(self, fi, args, kwargs, node, self_cls)
            if r is not NotImplemented:
                return r
        if len(ex.frames) > MAX_DEPTH:
            raise Undecided(f'inlining depth exceeded at {fi.qualname}')
        if fi.kind in ('contextmanager', 'method_contextmanager'):
            return VCtxMgr(vf, args, kwargs)
        ex.funcs_entered.add(fi.qualname)
        fr = Frame(fi, parent=vf.frame)
        fr.owner = owner if owner is not None else fi.cls
        fr.self_cls = self_cls if self_cls is not None else fi.cls
        fr.inject = bool(ex.inject and fi.qualname in ex.inject.functions)
        self.bind_args(fi, args, kwargs, fr)
        if self.is_generator(fi):
            return self.run_generator(fi, fr)
        ex.frames.append(fr)
        try:
            self.exec_block(fi.node.body, fr)
            return NONE
        except ReturnSig as r:
            return r.value
        finally:
            ex.frames.pop()

    def is_generator(self, fi):
        g = getattr(fi, '_isgen', None)
        if g is None:
            g = False
            for n in ast.walk(fi.node):
                if isinstance(n, (ast.Yield, ast.YieldFrom)):
                    # only yields belonging to this def
                    g = True
            for sub in ast.walk(fi.node):
                if isinstance(sub, ast.FunctionDef) and sub is not fi.node:
                    pass
            fi._isgen = g
        return g

    def run_generator(self, fi, fr):
        """generators are run eagerly; yielded values are collected (sound when the consumer
        drains the generator immediately, which is how the cones use them)"""
        ex = self.ex
        fr.locals['__yield__'] = []
        fr.locals['__yield_sym__'] = None
        ex.frames.append(fr)
        try:
            self.exec_block(fi.node.body, fr)
        except ReturnSig:
            pass
        finally:
            ex.frames.pop()
        if fr.locals['__yield_sym__'] is not None:
            if fr.locals['__yield__']:
                raise Undecided('generator mixing concrete and symbolic yields')
            return fr.locals['__yield_sym__']
        return ex.alloc(HList(fr.locals['__yield__']))

    # ------------------------------------------------------------------ instantiation
    def instantiate(self, ci, args, kwargs, node):
        ex = self.ex
        hook = ex.ghost.get('__new_hooks__', {}).get(ci.qualname)
        if hook is not None:
            return hook(self, ci, args, kwargs, node)
        obj = ex.alloc(HObj(ci, {}))
        if ex.repo.is_subclass(ci, 'dict'):
            if ex.ghost.get('__dict_subclass_symbolic__'):
                ex.heap[obj.addr].attrs['__dictdata__'] = ex.alloc(HSymDict(z3.EmptySet(Val), ex.fresh('dictdata', z3.ArraySort(Val, Val))))
            else:
                ex.heap[obj.addr].attrs['__dictdata__'] = ex.alloc(HDict({}))
        found, owner = ex.repo.lookup_method(ci, '__init__')
        if found is not None:
            self.call_function(VFunc(found), [obj] + list(args), kwargs, owner=owner, self_cls=ci, node=node)
        elif isinstance(owner, str) and owner not in ('object',):
            self.ext_base_init(obj, owner, args, kwargs)
        elif args or kwargs:
            self.throw('TypeError', f'{ci.name}() takes no arguments')
        return obj

    def ext_base_init(self, obj, base, args, kwargs):
        ex = self.ex
        h = ex.heap[obj.addr]
        if base == 'dict':
            d = h.attrs['__dictdata__']
            if isinstance(ex.heap[d.addr], HSymDict):
                if args:
                    src = args[0]
                    if isinstance(src, VRef) and isinstance(ex.heap[src.addr], HSymDict):
                        ex.heap[d.addr].dom = ex.heap[src.addr].dom
                        ex.heap[d.addr].map = ex.heap[src.addr].map
                    else:
                        raise Undecided('dict(x) into a symbolic dict from ' + repr(src))
                return
            if args:
                self.cm_HDict_update(d, args[0])
            for k, v in kwargs.items():
                ex.heap[d.addr].items[k] = v
            return
        m = ex.ext_models.get(base + '.__init__')
        if m is not None:
            m(ex, [obj] + list(args), kwargs)
            return
        raise Undecided(f'__init__ of external base {base}')

    def super_getattr(self, sup, name, node):
        ex = self.ex
        cls = sup.self_cls
        if isinstance(sup.self_v, VClass):
            cls = sup.self_v.ci
        found, owner = ex.repo.lookup_method(cls, name, after=sup.after)
        if found is None:
            base = owner
            if base is None:
                base = 'object'
            return VBound(VModel(f'{base}.{name}', lambda ex_, a, k: self.ext_super_call(base, name, a, k)), sup.self_v)
        if isinstance(found, tuple):
            return self.class_attr_value(owner, name, found[1])
        if found.kind == 'property':
            return self.call_function(VFunc(found), [sup.self_v], {}, owner=owner, self_cls=cls)
        return VBound(VFunc(found), sup.self_v, owner)

    def ext_super_call(self, base, name, a, k):
        ex = self.ex
        self_v = a[0]
        if name == '__init__':
            if isinstance(self_v, VRef) and isinstance(ex.heap[self_v.addr], HObj):
                h = ex.heap[self_v.addr]
                if '__exc__' in h.attrs:
                    h.attrs['__excargs__'] = list(a[1:])
                    return NONE
                if base in ('object',):
                    return NONE
                self.ext_base_init(self_v, base, a[1:], k)
                return NONE
            if isinstance(self_v, VClass):
                return NONE      # type.__init__
        m = ex.ext_models.get(f'{base}.{name}')
        if m is not None:
            return m(ex, a, k)
        if base == 'dict' and isinstance(self_v, VRef):
            d = ex.heap[self_v.addr].attrs.get('__dictdata__')
            if d is not None:
                return self.call_value(self.getattr(d, name), list(a[1:]), k)
        raise Undecided(f'super().{name} resolves to external base {base} without a model')

    def method_model(self, obj, name):
        """model of a method inherited from an external base / of an abstract value"""
        ex = self.ex
        if isinstance(obj, VRef) and isinstance(ex.heap[obj.addr], HObj):
            ci = ex.heap[obj.addr].cls
            if isinstance(ci, ClassInfo):
                for c in ex.repo.mro(ci):
                    if isinstance(c, str):
                        m = ex.ext_models.get(f'{c}.{name}')
                        if m is not None:
                            return m
                        if c == 'dict':
                            d = ex.heap[obj.addr].attrs.get('__dictdata__')
                            if d is not None:
                                bm = self.container_method(d, ex.heap[d.addr], name)
                                if bm is not None:
                                    return lambda ex_, a, k, bm=bm: bm.func.fn(ex_, [d] + list(a[1:]), k)
        if isinstance(obj, VAbs):
            ac = ex.abs_classes.get(obj.cls)
            if ac and name in ac.methods:
                return ac.methods[name]
        return None


def _immutable_default(d):
    if isinstance(d, (ast.Constant, ast.Name, ast.Attribute)):
        return True
    if isinstance(d, ast.Tuple):
        return all(_immutable_default(x) for x in d.elts)
    if isinstance(d, ast.UnaryOp):
        return _immutable_default(d.operand)
    return False


def Frame_for_defaults(interp, fi, fr):
    from .interp import Frame
    # defaults are evaluated here at call time, CPython evaluates them once at definition time: the same thing for immutable defaults only
    a = fi.node.args
    for d in list(a.defaults) + [x for x in a.kw_defaults if x is not None]:
        if not _immutable_default(d):
            raise Undecided(f'mutable / computed default argument `{ast.unparse(d)}` of {fi.qualname} (evaluated once at definition time in CPython)')
    f = Frame(fi, parent=None, module=fi.module)
    return f


class VCtxMgr(V):
    """a @contextmanager generator function called, not yet entered"""
    def __init__(self, vf, args, kwargs):
        self.vf = vf
        self.args = args
        self.kwargs = kwargs
