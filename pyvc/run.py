"""Driver: verify the lemmas of a property, discharge obligations, replay refutations, write evidence."""
import importlib
import json
import re
import multiprocessing as mp
import os
import sys
import time
import traceback

VERIF = os.path.dirname(os.path.dirname(os.path.abspath(__file__)))
# VERIF_EVIDENCE_DIR / VERIF_REPLAYS_DIR redirect the outputs of experimental runs (seed cycles, benign-edit sweeps) away from the committed files
EVID = os.environ.get('VERIF_EVIDENCE_DIR') or os.path.join(VERIF, 'evidence')
REPLAYS = os.environ.get('VERIF_REPLAYS_DIR') or os.path.join(VERIF, 'replays')
KNOWN = os.path.join(VERIF, 'known_findings.json')

TRUSTED_BASE_COMMON = [
    'T1 CPython executes the subset of Python that pyvc interprets as the language reference says; integers are mathematical (exact for Python ints)',
    'T8 z3 / cvc5 answer unsat only for unsatisfiable queries; pyvc itself (symbolic semantics, class-table resolution without monkey-patching) is trusted, mitigated by self-test mutants and the CPython cross-check',
]


def _discharge(ob, tier):
    from . import smt
    import z3
    # budgets sized so that verdicts do not flip when all cores are busy: the slowest obligation of the suite needs about 4 s of z3 on an idle machine
    tmo = int(os.environ.get('VERIF_SOLVER_MS', '30000' if tier == 'quick' else '120000'))
    q = ob.query()
    t0 = time.time()
    # portfolio: z3 briefly, then cvc5 with the full budget, then z3 with the full budget
    fr = smt.check_forked(q, min(tmo, 2500), want_model=True)
    res = {'status': fr['status'], 'backend': 'z3', 'seconds': round(fr['seconds'], 4), 'reason': fr.get('reason', ''),
           'model': fr.get('model')}
    if fr['status'] == 'unknown':
        try:
            c = smt.check_cvc5(q, tmo)
            res['cvc5'] = {'status': c.status, 'seconds': round(c.seconds, 3), 'reason': c.reason[:200]}
        except Exception as e:
            c = None
            res['cvc5'] = {'status': 'error', 'reason': str(e)[:200]}
        if c is not None and c.status in ('sat', 'unsat'):
            res['status'] = c.status
            res['backend'] = 'cvc5'
            res['seconds'] = round(fr['seconds'] + c.seconds, 4)
            if c.status == 'sat':
                fr2 = smt.check_forked(q, tmo, want_model=True)      # try to get a counter-model from z3
                if fr2['status'] == 'sat':
                    res['model'] = fr2.get('model')
        else:
            fr2 = smt.check_forked(q, tmo, want_model=True)
            res['seconds'] = round(time.time() - t0, 4)
            if fr2['status'] in ('sat', 'unsat'):
                res['status'] = fr2['status']
                res['model'] = fr2.get('model')
            res['reason'] = fr2.get('reason', '')
    elif tier == 'thorough' and ob.kind != 'cover':
        try:
            c = smt.check_cvc5(q, tmo)
            res['cvc5'] = {'status': c.status, 'seconds': round(c.seconds, 3)}
        except Exception as e:
            res['cvc5'] = {'status': 'error', 'reason': str(e)[:200]}
    return res


def _seq_bytes(val):
    import z3
    k = val.decl().kind()
    if k == z3.Z3_OP_SEQ_EMPTY:
        return []
    if k == z3.Z3_OP_SEQ_UNIT:
        a = val.arg(0)
        return [a.as_long()] if z3.is_bv_value(a) else None
    if k == z3.Z3_OP_SEQ_CONCAT:
        out = []
        for i in range(val.num_args()):
            r = _seq_bytes(val.arg(i))
            if r is None:
                return None
            out.extend(r)
        return out
    return None


def _verify_lemma(job):
    """runs in a worker process: job = (prop_id, lemma_index, tier, repo_root, overrides)"""
    prop_id, idx, tier, root, overrides = job
    t0 = time.time()
    out = {'lemma': None, 'obligations': [], 'error': None, 'undecided': None, 'stats': {}, 'functions': []}
    try:
        import z3
        from .frontend import Repo
        from .contracts import VExec
        from .core import Undecided
        mod = importlib.import_module(f'props.{prop_id}')
        repo = Repo(root, overrides=overrides)
        ex = VExec(repo, prop_id, tier)
        lemmas = mod.build(ex)
        con, variant = lemmas[idx]
        out['lemma'] = con.name + (f'[{variant[0]}]' if variant else '')
        try:
            fi = repo.func(con.func)
        except KeyError as e:
            out['undecided'] = str(e)
            return out
        out['functions'] = [(con.func, fi.where(), fi.sha)]
        try:
            ex.verify(con, variant)
        except Undecided as u:
            out['undecided'] = f'{out["lemma"]}: {u}'
        out['stats'] = dict(ex.stats, paths=ex.explorer.paths, wall=0)
        out['abstracted'] = sorted(ex.notes_abstracted)
        out['inlined'] = sorted(ex.funcs_entered)
        out['by_contract'] = sorted(ex.funcs_by_contract)
        for oid in ex.ob_order:
            ob = ex.obligations[oid]
            r = _discharge(ob, tier)
            expect = 'sat' if ob.kind == 'cover' else 'unsat'
            ok = r['status'] == expect
            rec = {'id': ob.id, 'site': ob.site, 'kind': ob.kind, 'func': ob.func, 'line': ob.line, 'text': ob.text,
                   'lemma': out['lemma'], 'tag': ob.tag, 'ok': ok, 'status': r['status'], 'backend': r['backend'],
                   'seconds': r['seconds'], 'reason': r.get('reason', ''), 'cvc5': r.get('cvc5'),
                   'trace': ob.info.get('trace', [])[-40:], 'info': {k: v for k, v in ob.info.items() if k != 'trace'}}
            if not ok and r['status'] in ('sat', 'unsat'):
                rec['model'] = r.get('model')
                try:
                    goal_s = ob.goal.sexpr()
                    rec['goal'] = goal_s[:600]
                    rec['hyps'] = [h.sexpr()[:300] for h in ob.pc[-12:]]
                except Exception:
                    pass
            elif ok and len(out['obligations']) < 3:
                try:
                    rec['goal'] = ob.goal.sexpr()[:400]
                    rec['hyps'] = [h.sexpr()[:200] for h in ob.pc[-6:]]
                except Exception:
                    pass
            out['obligations'].append(rec)
        out['stats']['wall'] = round(time.time() - t0, 2)
    except Exception:
        out['error'] = traceback.format_exc()
    return out


def load_known():
    if not os.path.exists(KNOWN):
        return []
    with open(KNOWN) as f:
        return json.load(f).get('findings', [])


def match_known(rec, known, prop_id):
    for k in known:
        if k.get('property') != prop_id or k.get('status', 'open') != 'open':
            continue
        if k.get('site') and k['site'] != rec['site']:
            continue
        if k.get('site_prefix') and not rec['site'].startswith(k['site_prefix']):
            continue
        if k.get('text_contains') and not all(s in rec['text'] for s in k['text_contains']):
            continue
        if k.get('lemma') and k['lemma'] != rec['lemma']:
            continue
        tc = k.get('trace_contains')
        if tc and not all(any(t in s for s in rec['trace']) for t in tc):
            continue
        ic = k.get('injection_contains')
        if ic is not None:
            injs = (rec.get('info') or {}).get('injections') or []
            def hit(s, line):
                # 're:<regex>' entries tolerate a renamed local in the landing line; plain entries are substrings
                return bool(re.search(s[3:], line)) if s.startswith('re:') else s in line
            if not injs or not all(any(hit(s, str(r[3])) for s in ic) for r in injs):
                continue
        tn = k.get('trace_excludes')
        if tn and any(any(t in s for s in rec['trace']) for t in tn):
            continue
        return k
    return None


def main(argv=None):
    argv = argv or sys.argv[1:]
    import argparse
    ap = argparse.ArgumentParser()
    ap.add_argument('prop')
    ap.add_argument('--tier', default=os.environ.get('VERIF_TIER', 'quick'))
    ap.add_argument('--replay', default=None)
    ap.add_argument('--jobs', type=int, default=int(os.environ.get('VERIF_JOBS', '14')))
    ap.add_argument('--repo', default=os.environ.get('PYWORKERS_REPO', '/repo'))
    ap.add_argument('--only', default=None, help='substring filter on lemma names (debugging)')
    ap.add_argument('--no-replay', action='store_true')
    ap.add_argument('--mutants', action='store_true', help='run the self-test mutants also in the quick tier')
    ap.add_argument('--xcheck', action='store_true', help='run the encoding cross-check against CPython also in the quick tier')
    ap.add_argument('-v', action='store_true')
    a = ap.parse_args(argv)
    sys.path.insert(0, VERIF)
    prop_id = a.prop
    seed = int(os.environ.get('VERIF_SEED', '0'))
    t0 = time.time()
    mod = importlib.import_module(f'props.{prop_id}')
    if a.replay:
        return mod.replay_file(a.replay, a.repo)
    # number of lemmas (build once in this process, cheap)
    from .frontend import Repo
    from .contracts import VExec
    try:
        repo = Repo(a.repo)
        ex = VExec(repo, prop_id, a.tier)
        lemmas = mod.build(ex)
    except Exception:
        traceback.print_exc()
        print(f'ENGINE-FAILURE property={prop_id} (building lemmas)')
        return 3
    idxs = [i for i, (c, v) in enumerate(lemmas) if not a.only or a.only in (c.name + (f'[{v[0]}]' if v else ''))]
    jobs = [(prop_id, i, a.tier, a.repo, None) for i in idxs]
    ctx = mp.get_context('fork')
    with ctx.Pool(min(a.jobs, max(1, len(jobs)))) as pool:
        results = pool.map(_verify_lemma, jobs, chunksize=1)
    extra = {}
    if (a.tier == 'thorough' or a.mutants) and hasattr(mod, 'MUTANTS') and not a.only:
        extra['selftest_mutants'] = run_mutants(prop_id, mod, a, ctx, idxs)
    if (a.tier == 'thorough' or a.xcheck) and not a.only:
        extra['encoding_crosscheck'] = run_xcheck(prop_id, seed, a.jobs)
    if (a.tier == 'thorough' or a.xcheck) and not a.only:
        extra['trusted_contract_sampling'] = run_trusted_samples(seed * 100 + (int(prop_id[1:]) if prop_id[1:].isdigit() else 0), a.repo)
    rc, summary = report(prop_id, a.tier, seed, results, mod, a, t0, extra=extra)
    return rc


def run_trusted_samples(seed, repo):
    """the assumed contracts of external primitives against the real primitives (replay/trusted_samples.py); bounded, never counted as
    discharged.  An assumption counts as falsified only if it is falsified twice (the samplers use real time-outs)"""
    import subprocess

    def once(s):
        env = dict(os.environ, PYTHONPATH=repo)
        p = subprocess.run([os.environ.get('XCHECK_PYTHON', '/venv/bin/python'), os.path.join(VERIF, 'replay', 'trusted_samples.py'), str(s)],
                           capture_output=True, text=True, timeout=300, env=env, cwd=os.path.join(VERIF, 'replay'))
        return json.loads(p.stdout.strip().splitlines()[-1])
    try:
        r = once(seed)
        if r['falsified']:
            again = once(seed + 1)
            twice = {x['assumption'] for x in again['falsified']}
            r['falsified_once_only'] = [x for x in r['falsified'] if x['assumption'] not in twice]
            r['falsified'] = [x for x in r['falsified'] if x['assumption'] in twice]
        r['label'] = 'bounded sampling of assumed contracts; not counted as discharged'
        r['results'] = [{k: v for k, v in x.items() if k != 'text'} for x in r['results']]
        return r
    except Exception:
        return {'error': traceback.format_exc()[-1200:], 'falsified': []}


def run_xcheck(prop_id, seed, jobs):
    """encoding cross-check of the symbolic semantics against CPython (tools/xcheck.py): the hand-written corpus plus 40 generated
    control-flow programs whose seed depends on the property, so the twenty thorough runs together cover 800 different programs"""
    import importlib.util
    spec = importlib.util.spec_from_file_location('xcheck_tool', os.path.join(VERIF, 'tools', 'xcheck.py'))
    m = importlib.util.module_from_spec(spec)
    try:
        sys.modules['xcheck_tool'] = m
        spec.loader.exec_module(m)
        s = seed * 100 + int(prop_id[1:]) if prop_id[1:].isdigit() else seed
        summary, mism = m.run(seed=s, ngen=40, jobs=jobs, quiet=True)
        summary['mismatch_details'] = [{'func': r['func'], 'detail': r['detail'], 'pyvc': r.get('pyvc_outcomes')} for r in mism][:5]
        return summary
    except Exception:
        return {'error': traceback.format_exc()[-1500:]}


def run_mutants(prop_id, mod, a, ctx, idxs):
    """in-memory semantic mutations of the real source: each must be refuted (guards the verifier's
    discriminating power); nothing is written to disk"""
    out = {'tried': 0, 'refuted': 0, 'accepted': [], 'not_applicable': [], 'details': []}
    for (rel, old, new, desc) in mod.MUTANTS:
        path = os.path.join(a.repo, rel)
        with open(path, encoding='utf-8', newline='') as f:
            src = f.read()
        src_n = src.replace('\r\n', '\n')
        if src_n.count(old) != 1:
            out['not_applicable'].append(desc)
            continue
        msrc = src_n.replace(old, new)
        tm0 = time.time()
        jobs = [(prop_id, i, 'quick', a.repo, {rel: msrc}) for i in idxs]
        known = load_known()
        results = []
        # the lemmas run in parallel; the first one that refutes the mutant settles it, the others are abandoned
        with ctx.Pool(min(a.jobs, max(1, len(jobs)))) as pool:
            for r in pool.imap_unordered(_verify_lemma, jobs, chunksize=1):
                results.append(r)
                if any(not o['ok'] and o['status'] in ('sat', 'unsat') and match_known(o, known, prop_id) is None for o in r['obligations']):
                    pool.terminate()
                    break
        refuted = [o for r in results for o in r['obligations'] if not o['ok'] and o['status'] in ('sat', 'unsat')
                   and match_known(o, known, prop_id) is None]
        und = [r['undecided'] for r in results if r['undecided']] + [r['error'] for r in results if r['error']]
        unknown = [o['id'] for r in results for o in r['obligations'] if o['status'] not in ('sat', 'unsat')]
        out['tried'] += 1
        if refuted:
            out['refuted'] += 1
            out['details'].append({'mutant': desc, 'refuted_obligation': refuted[0]['id'], 'text': refuted[0]['text'],
                                   'seconds': round(time.time() - tm0, 1)})
        elif unknown:
            # a solver time-out (loaded machine) is not evidence that the verifier lost its discriminating power: recorded, not failed
            out.setdefault('inconclusive', []).append({'mutant': desc, 'unknown_obligations': unknown[:5]})
        else:
            out['accepted'].append({'mutant': desc, 'undecided': [str(u)[-300:] for u in und]})
    return out


def report(prop_id, tier, seed, results, mod, a, t0, write=True, extra=None):
    known = load_known()
    all_obs = []
    errors = [r['error'] for r in results if r['error']]
    undecided = [r['undecided'] for r in results if r['undecided']]
    functions = {}
    abstracted = set()
    inlined, by_contract = set(), set()
    stats_paths = 0
    for r in results:
        all_obs.extend(r['obligations'])
        for f in r.get('functions', []):
            functions[f[0]] = {'where': f[1], 'sha': f[2]}
        abstracted.update(r.get('abstracted', []))
        inlined.update(r.get('inlined', []))
        by_contract.update(r.get('by_contract', []))
        stats_paths += r.get('stats', {}).get('paths', 0)
    vacuous = [o for o in all_obs if not o['ok'] and o['status'] in ('sat', 'unsat') and o['kind'] == 'cover']
    refuted = [o for o in all_obs if not o['ok'] and o['status'] in ('sat', 'unsat') and o['kind'] != 'cover']
    unknown = [o for o in all_obs if o['status'] not in ('sat', 'unsat')]
    disagreements = [o for o in all_obs if o.get('cvc5') and o['cvc5'].get('status') in ('sat', 'unsat')
                     and o['backend'] == 'z3' and o['status'] in ('sat', 'unsat') and o['cvc5']['status'] != o['status']]
    kf_hits = {}
    violations = []
    for o in refuted:
        k = match_known(o, known, prop_id)
        if k is not None:
            kf_hits.setdefault(k['id'], (k, []))[1].append(o)
        else:
            violations.append(o)
    for r in results:
        if a.v:
            print(f"  lemma {r['lemma']}: {len(r['obligations'])} obligations, stats {r.get('stats')}")
    discharged = [o for o in all_obs if o['ok']]
    by_backend = {}
    for o in discharged:
        by_backend[o['backend']] = by_backend.get(o['backend'], 0) + 1
    solver_time = round(sum(o['seconds'] for o in all_obs), 3)
    floor = getattr(mod, 'MIN_OBLIGATIONS', 1)
    rc = 0
    lines = []
    # ---- group violations by site, replay one representative per site
    by_site = {}
    for o in violations:
        by_site.setdefault(o['site'], []).append(o)
    replay_paths = []
    for site, obs in sorted(by_site.items()):
        o = obs[0]
        path = os.path.join(REPLAYS, prop_id, o['id'].replace('/', '__') + '.json')
        os.makedirs(os.path.dirname(path), exist_ok=True)
        rep = {'property': prop_id, 'obligation': o['id'], 'site': site, 'kind': o['kind'], 'function': o['func'],
               'line': o['line'], 'text': o['text'], 'lemma': o['lemma'], 'solver': o['backend'], 'status': o['status'],
               'model': o.get('model'), 'goal': o.get('goal'), 'hypotheses_tail': o.get('hyps'), 'trace': o['trace'],
               'other_paths_same_site': [x['id'] for x in obs[1:20]], 'repo': a.repo,
               'injections': o.get('info', {}).get('injections'),
               'injections_other_paths': [x.get('info', {}).get('injections') for x in obs[1:40]]}
        reproduced = None
        if not a.no_replay and hasattr(mod, 'replay'):
            try:
                reproduced, detail = mod.replay(o, a.repo)
                rep['replay'] = detail
            except Exception:
                rep['replay'] = {'error': traceback.format_exc()[-1500:]}
                reproduced = None
        rep['reproduced_on_real_code'] = reproduced
        with open(path, 'w') as f:
            json.dump(rep, f, indent=1, default=str)
        suffix = '' if reproduced else ' no-failing-input-found'
        lines.append(f'VIOLATION property={prop_id} replay={path}{suffix}')
        print(f'  refuted: {o["id"]} [{o["kind"]}] {o["text"]} (line {o["line"]}; {len(obs)} path(s))')
        replay_paths.append(path)
    for kid, (k, obs) in sorted(kf_hits.items()):
        print(f'KNOWN-FINDING: property={prop_id} {k["text"]} [{kid}; {len(obs)} obligation(s)]')
    if errors:
        rc = 3
        for e in errors:
            print(e)
        print(f'ENGINE-FAILURE property={prop_id}')
    elif vacuous:
        rc = 3
        for o in vacuous[:10]:
            print(f'ENGINE-FAILURE property={prop_id}: vacuity: {o["id"]}: {o["text"]} - NOT satisfiable (a case is excluded: the lemma would hold vacuously for it)')
    elif disagreements:
        rc = 3
        for o in disagreements:
            print(f'SOLVER-DISAGREEMENT {o["id"]}: z3={o["status"]} cvc5={o["cvc5"]["status"]}')
    elif violations:
        rc = 1
        for u in undecided:
            print(f'UNDECIDED (in addition) property={prop_id}: {u}')
        for l in lines:
            print(l)
    elif undecided or unknown:
        rc = 2
        for u in undecided:
            print(f'UNDECIDED property={prop_id}: {u}')
        for o in unknown[:10]:
            print(f'UNDECIDED property={prop_id}: solver gave {o["status"]} ({o.get("reason", "")}) for {o["id"]} {o["text"]}')
    elif extra and extra.get('selftest_mutants', {}).get('accepted'):
        rc = 3
        for m in extra['selftest_mutants']['accepted']:
            print(f'ENGINE-FAILURE property={prop_id}: self-test mutant accepted (verifier lost discriminating power): {m}')
    elif extra and (extra.get('encoding_crosscheck', {}).get('mismatch') or extra.get('encoding_crosscheck', {}).get('error')):
        rc = 3
        xc = extra['encoding_crosscheck']
        print(f'ENGINE-FAILURE property={prop_id}: the symbolic semantics disagrees with CPython on {xc.get("mismatch")} {xc.get("error", "")} '
              f'(python3-vt tools/xcheck.py --seed {xc.get("seed")} shows the details)')
    elif extra and extra.get('trusted_contract_sampling', {}).get('falsified'):
        rc = 3
        for x in extra['trusted_contract_sampling']['falsified']:
            print(f'ENGINE-FAILURE property={prop_id}: an assumed contract of an external primitive is FALSIFIED on the real primitive: '
                  f'{x["assumption"]}: {x["falsified"]}')
    elif len(all_obs) < floor:
        rc = 3
        print(f'ENGINE-FAILURE property={prop_id}: only {len(all_obs)} obligations generated, floor is {floor}')
    wall = round(time.time() - t0, 2)
    n_claim = len(all_obs) - sum(len(v[1]) for v in kf_hits.values())
    samples = []
    for o in all_obs:
        if o.get('goal') and len(samples) < 4:
            samples.append({'id': o['id'], 'kind': o['kind'], 'text': o['text'], 'hypotheses_tail': o.get('hyps'),
                            'goal': o['goal'], 'status': o['status'], 'backend': o['backend']})
    if not samples and all_obs:
        samples = [{'id': o['id'], 'kind': o['kind'], 'text': o['text'], 'status': o['status']} for o in all_obs[:3]]
    ev = {
        'property_id': prop_id, 'tier': tier, 'seed': seed, 'level': 'proof',
        'coverage': {
            'obligations': n_claim,
            'discharged': len(discharged),
            'checker_cmd': f'./check {prop_id} --tier {tier}',
            'trusted_base': TRUSTED_BASE_COMMON + list(getattr(mod, 'TRUSTED', [])),
            'by_backend': by_backend,
            'by_kind': {k: sum(1 for o in all_obs if o['kind'] == k) for k in sorted(set(o['kind'] for o in all_obs))},
            'solver_time_s': solver_time,
            'slowest': [[o['id'], o['seconds'], o['backend']] for o in sorted(all_obs, key=lambda o: -o['seconds'])[:5]],
            'refuted': len(refuted),
            'known_finding_matches': {kid: len(v[1]) for kid, v in kf_hits.items()},
            'undecided': len(unknown) + len(undecided),
            'undecided_reasons': undecided[:10],
            'lemmas': [{'name': r['lemma'], 'obligations': len(r['obligations']), 'paths': r.get('stats', {}).get('paths')}
                       for r in results],
            'paths_explored': stats_paths,
            'functions_under_contract': functions,
            'functions_inlined': sorted(inlined - set(functions)),
            'functions_called_through_their_contract': sorted(by_contract),
            'dropped_or_abstracted': sorted(abstracted) + list(getattr(mod, 'ABSTRACTED', [])),
            'bounded_parts': list(getattr(mod, 'BOUNDED', [])),
            'samples': samples,
            'exit_code': rc,
            **(extra or {}),
        },
        'assumptions': list(getattr(mod, 'ASSUMPTIONS', [])),
        'wall_s': wall,
        'violations': len(by_site),
    }
    if write:
        os.makedirs(EVID, exist_ok=True)
        with open(os.path.join(EVID, f'{prop_id}.json'), 'w') as f:
            json.dump(ev, f, indent=1, default=str)
    print(f'{prop_id} [{tier}]: {len(all_obs)} obligations, {len(discharged)} discharged, {len(refuted)} refuted '
          f'({sum(len(v[1]) for v in kf_hits.values())} known), {len(unknown)} unknown, {len(undecided)} undecided lemmas; '
          f'{stats_paths} paths; solver {solver_time}s; wall {wall}s; exit {rc}')
    return rc, ev


if __name__ == '__main__':
    sys.exit(main())
