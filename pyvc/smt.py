"""SMT layer of pyvc: sorts, the universal value datatype, helpers, solver drivers."""
import os
import subprocess
import tempfile
import time

import z3

U = z3.DeclareSort('U')                       # opaque user values
BV8 = z3.BitVecSort(8)
Bytes = z3.SeqSort(BV8)

_Val = z3.Datatype('Val')
_VL = z3.Datatype('ValList')
_Val.declare('v_none')
_Val.declare('v_bool', ('vb', z3.BoolSort()))
_Val.declare('v_int', ('vi', z3.IntSort()))
_Val.declare('v_real', ('vr', z3.RealSort()))
_Val.declare('v_str', ('vs', z3.IntSort()))           # interned string code
_Val.declare('v_tup', ('vitems', _VL))
_Val.declare('v_opq', ('vu', U))
_Val.declare('v_ref', ('vaddr', z3.IntSort()))         # concrete heap address
_Val.declare('v_abs', ('vacls', z3.IntSort()), ('vakey', _Val))   # abstract object (class code, identity)
_Val.declare('v_exc', ('vecls', z3.IntSort()), ('veargs', _Val))
_VL.declare('vl_nil')
_VL.declare('vl_cons', ('vl_hd', _Val), ('vl_tl', _VL))
Val, ValList = z3.CreateDatatypes(_Val, _VL)
SeqVal = z3.SeqSort(Val)

Int = z3.IntSort()
Bool = z3.BoolSort()
Real = z3.RealSort()

# uninterpreted helpers shared by all cones
u_truthy = z3.Function('u_truthy', Val, Bool)          # truthiness of values whose shape is unknown
seq_of = z3.Function('seq_of', Val, SeqVal)            # content of a sequence-like Val
mk_seq = z3.Function('mk_seq', SeqVal, Val)            # a tuple/list value with that content
bytes_of = z3.Function('bytes_of', Val, Bytes)
mk_bytes = z3.Function('mk_bytes', Bytes, Val)

_str_codes = {}


def str_code(s):
    if s not in _str_codes:
        _str_codes[s] = len(_str_codes) + 1
    return _str_codes[s]


def str_of_code(c):
    for s, k in _str_codes.items():
        if k == c:
            return s
    return f'<str#{c}>'


_cls_codes = {}


def cls_code(name):
    if name not in _cls_codes:
        _cls_codes[name] = len(_cls_codes) + 1
    return _cls_codes[name]


def cls_of_code(c):
    for s, k in _cls_codes.items():
        if k == c:
            return s
    return f'<cls#{c}>'


def mk_list(terms):
    r = ValList.vl_nil
    for t in reversed(terms):
        r = ValList.vl_cons(t, r)
    return r


def truthy_term(t):
    """Python truthiness of a Val term."""
    V = Val
    return z3.If(V.is_v_none(t), False,
           z3.If(V.is_v_bool(t), V.vb(t),
           z3.If(V.is_v_int(t), V.vi(t) != 0,
           z3.If(V.is_v_real(t), V.vr(t) != 0,
           z3.If(V.is_v_tup(t), ValList.is_vl_cons(V.vitems(t)),
           z3.If(V.is_v_abs(t), True,
           z3.If(V.is_v_exc(t), True,
                 u_truthy(t))))))))


def simp(e):
    return z3.simplify(e)


def is_true(e):
    return z3.is_true(e) or (isinstance(e, bool) and e)


def is_false(e):
    return z3.is_false(e) or (isinstance(e, bool) and not e)


# ----------------------------------------------------------------------------- solving

class Verdict:
    def __init__(self, status, backend, seconds, model=None, reason=''):
        self.status = status        # 'unsat' | 'sat' | 'unknown'
        self.backend = backend
        self.seconds = seconds
        self.model = model          # dict name -> str  (for sat)
        self.reason = reason


def _model_dict(m):
    out = {}
    for d in m.decls():
        try:
            out[d.name()] = str(m[d])
        except Exception:
            pass
    return out


def check_z3(assertions, timeout_ms, want_model=True):
    s = z3.Solver()
    s.set('timeout', int(timeout_ms))
    for a in assertions:
        s.add(a)
    t0 = time.time()
    r = s.check()
    dt = time.time() - t0
    if r == z3.unsat:
        return Verdict('unsat', 'z3', dt), s
    if r == z3.sat:
        md = None
        if want_model:
            md = s.model()
        return Verdict('sat', 'z3', dt, md), s
    return Verdict('unknown', 'z3', dt, reason=s.reason_unknown()), s


def to_smt2(assertions):
    s = z3.Solver()
    for a in assertions:
        s.add(a)
    txt = s.to_smt2()
    # z3's simplifier splits seq.nth into internal in-range / out-of-range symbols; both are seq.nth for other solvers
    txt = txt.replace('seq.nth_i', 'seq.nth').replace('seq.nth_u', 'seq.nth')
    return '(set-logic ALL)\n' + txt


def check_cvc5(assertions, timeout_ms):
    txt = to_smt2(assertions)
    t0 = time.time()
    fd, path = tempfile.mkstemp(suffix='.smt2', prefix='pyvc_')
    try:
        with os.fdopen(fd, 'w') as f:
            f.write(txt)
        try:
            p = subprocess.run(['/usr/bin/cvc5', '--strings-exp', f'--tlimit={int(timeout_ms)}', path],
                               capture_output=True, text=True, timeout=timeout_ms / 1000.0 + 5)
        except subprocess.TimeoutExpired:
            return Verdict('unknown', 'cvc5', time.time() - t0, reason='timeout')
        out = (p.stdout or '').strip().splitlines()
        st = out[0].strip() if out else ''
        if st in ('unsat', 'sat'):
            return Verdict(st, 'cvc5', time.time() - t0)
        return Verdict('unknown', 'cvc5', time.time() - t0, reason=(p.stdout + p.stderr)[:300])
    finally:
        try:
            os.unlink(path)
        except OSError:
            pass


# ----------------------------------------------------------------------------- hard-timeout solving in a forked child
def seq_bytes(val):
    k = val.decl().kind()
    if k == z3.Z3_OP_SEQ_EMPTY:
        return []
    if k == z3.Z3_OP_SEQ_UNIT:
        a = val.arg(0)
        return [a.as_long()] if z3.is_bv_value(a) else None
    if k == z3.Z3_OP_SEQ_CONCAT:
        out = []
        for i in range(val.num_args()):
            r = seq_bytes(val.arg(i))
            if r is None:
                return None
            out.extend(r)
        return out
    return None


def model_dict(m):
    md = {}
    for d in m.decls():
        try:
            if d.arity() == 0:
                val = m[d]
                if val.sort() == Bytes:
                    bs = seq_bytes(val)
                    md[d.name()] = {'bytes_hex': bytes(bs).hex(), 'len': len(bs)} if bs is not None else str(val)[:200]
                    continue
                if z3.is_int_value(val):
                    md[d.name()] = val.as_long()
                    continue
                if z3.is_true(val) or z3.is_false(val):
                    md[d.name()] = z3.is_true(val)
                    continue
            md[d.name()] = str(m[d])[:400]
        except Exception:
            pass
    return md


def check_forked(assertions, timeout_ms, want_model=False):
    """z3 check in a forked child that is killed at the deadline (z3's own timeout is not always
    honoured inside the sequence solver).  Returns dict(status, seconds, model, reason)."""
    import json
    import select
    import signal
    r, w = os.pipe()
    t0 = time.time()
    pid = os.fork()
    if pid == 0:
        try:
            os.close(r)
            s = z3.Solver()
            s.set('timeout', int(timeout_ms))
            for a in assertions:
                s.add(a)
            res = s.check()
            out = {'status': str(res), 'reason': s.reason_unknown() if res == z3.unknown else ''}
            if res == z3.sat and want_model:
                out['model'] = model_dict(s.model())
            os.write(w, json.dumps(out).encode())
        except BaseException as e:      # noqa
            try:
                os.write(w, json.dumps({'status': 'unknown', 'reason': 'exception: ' + str(e)[:200]}).encode())
            except Exception:
                pass
        finally:
            os._exit(0)
    os.close(w)
    deadline = t0 + timeout_ms / 1000.0 + 2.0
    buf = b''
    out = None
    while True:
        left = deadline - time.time()
        if left <= 0:
            break
        rl, _, _ = select.select([r], [], [], left)
        if not rl:
            break
        chunk = os.read(r, 1 << 16)
        if not chunk:
            break
        buf += chunk
    os.close(r)
    if buf:
        try:
            out = json.loads(buf.decode())
        except ValueError:
            out = None
    if out is None:
        try:
            os.kill(pid, signal.SIGKILL)
        except OSError:
            pass
        out = {'status': 'unknown', 'reason': 'hard timeout (solver killed)'}
    try:
        os.waitpid(pid, 0)
    except OSError:
        pass
    out['seconds'] = time.time() - t0
    return out
