"""Assumed contracts of primitives outside /repo/pyworkers (the trusted=True sidecar entries of
DESIGN.md appendix A), written as executable models over the symbolic state."""
import z3

from . import smt
from .smt import Val, ValList, SeqVal, Bytes
from .values import *  # noqa
from .core import Undecided, PyRaise, PathEnd, Vanish
from .contracts import AbsClass

be32 = z3.Function('be32', smt.Int, Bytes)
be32dec = z3.Function('be32dec', Bytes, smt.Int)
pickle_b = z3.Function('pickle', Val, Bytes)          # remote_pickle.dumps
unpickle = z3.Function('unpickle', Bytes, Val)        # remote_pickle.loads / pickle.loads
TWO32 = 2 ** 32

TEXT = {}


def raise_(cls, *args):
    raise PyRaise(VExc(cls, list(args)))


# ------------------------------------------------------------------------------ struct
def struct_pack(ex, a, k):
    fmt = a[0]
    if not (isinstance(fmt, VStr) and fmt.s == '!I'):
        raise Undecided(f'struct.pack format {fmt!r}')
    n = ex.interp.as_int(a[1], None, 'struct.pack argument')
    if not ex.branch(z3.And(n >= 0, n < TWO32), 'pack:inrange'):
        raise_('struct.error')
    b = be32(n)
    ex.assume(z3.Length(b) == 4)
    ex.assume(be32dec(b) == n)
    return VBytes(b)


def struct_unpack(ex, a, k):
    fmt, b = a
    if not (isinstance(fmt, VStr) and fmt.s == '!I'):
        raise Undecided(f'struct.unpack format {fmt!r}')
    if not isinstance(b, VBytes):
        raise Undecided('struct.unpack of non-bytes')
    if not ex.branch(z3.Length(b.e) == 4, 'unpack:len4'):
        raise_('struct.error')
    n = be32dec(b.e)
    ex.assume(z3.And(n >= 0, n < TWO32))
    ex.assume(be32(n) == b.e)
    return VTuple([VInt(n)])


TEXT['struct'] = "struct.pack('!I', n): 4 bytes be32(n) for 0 <= n < 2**32, else struct.error; struct.unpack('!I', b): (n,) with be32(n) == b if len(b) == 4, else struct.error"


# ------------------------------------------------------------------------------ pickle (T6)
def rp_dumps(ex, a, k):
    alts = ex.ghost.get('dumps_raises', [])
    if alts:
        d = ex.choose(1 + len(alts), 'dumps:outcome')
        if d > 0:
            ex.note(f'dumps:raises({alts[d - 1]})')
            raise_(alts[d - 1])
    t = lower(a[0], ex)
    b = pickle_b(t)
    ex.assume(unpickle(b) == t)
    ex.assume(z3.Length(b) >= 1)
    return VBytes(b)


def rp_loads(ex, a, k):
    b = a[0]
    alts = ex.ghost.get('loads_raises', ['AnyException'])
    if alts:
        d = ex.choose(1 + len(alts), 'loads:outcome')
        if d > 0:
            ex.note(f'loads:raises({alts[d - 1]})')
            raise_(alts[d - 1])
    if isinstance(b, VBytes):
        return VSym(unpickle(b.e))
    if isinstance(b, VSym):
        return VSym(unpickle(smt.bytes_of(b.t)))
    raise Undecided('loads of ' + repr(b))


TEXT['pickle'] = 'T6: loads(dumps(x)) == x for picklable values; dumps/loads may raise (unpicklable object, class that cannot be rebuilt)'


# ------------------------------------------------------------------------------ sockets (T2)
def _sock():
    def recv(ex, a, k):
        s, n = a[0], a[1]
        ac = ex.abs_classes['Socket']
        nn = ex.interp.as_int(n, None, 'recv size')
        errs = ex.ghost.get('sock_errors', ['ConnectionResetError'])
        if errs:
            d = ex.choose(1 + len(errs), 'recv:outcome')
            if d > 0:
                ac.set(ex, s, 'err', z3.BoolVal(True))
                ex.note(f'recv:raises({errs[d - 1]})')
                raise_(errs[d - 1])
        unread = ac.get(ex, s, 'unread')
        c = ex.fresh('chunk', Bytes)
        rest = ex.fresh('rest', Bytes)
        ex.assume(unread == z3.Concat(c, rest))
        ex.assume(z3.Length(c) <= nn)
        if len(a) > 2 and isinstance(a[2], VExt) and a[2].name.endswith('MSG_WAITALL'):
            # MSG_WAITALL: blocks until n bytes or end of stream
            ex.assume(z3.Length(c) == z3.If(z3.Length(unread) < nn, z3.Length(unread), z3.If(nn < 0, 0, nn)))
        ex.assume((z3.Length(c) == 0) == z3.Or(nn <= 0, z3.Length(unread) == 0))
        ac.set(ex, s, 'consumed', z3.Concat(ac.get(ex, s, 'consumed'), c))
        ac.set(ex, s, 'unread', rest)
        ac.set(ex, s, 'reads', ac.get(ex, s, 'reads') + 1)
        return VBytes(c)

    def recv_into(ex, a, k):
        """sock.recv_into(buffer[, nbytes]): like recv, but the bytes are written at the start of the given writable buffer (a bytearray or a
        memoryview slice of one) and their number is returned; at most len(buffer) (and nbytes, if given and non-zero) bytes"""
        I = ex.interp
        s, target = a[0], a[1]
        ac = ex.abs_classes['Socket']
        if isinstance(target, VRef) and isinstance(ex.heap[target.addr], HBuf):
            target = VView(target.addr, z3.IntVal(0), z3.Length(ex.heap[target.addr].seq))
        if not isinstance(target, VView):
            raise Undecided(f'recv_into({target!r})')
        cap = target.hi - target.lo
        if len(a) > 2 and a[2] is not NONE:
            nb = I.as_int(a[2], None, 'recv_into nbytes')
            cap = z3.If(z3.And(nb > 0, nb < cap), nb, cap)
        errs = ex.ghost.get('sock_errors', ['ConnectionResetError'])
        if errs:
            d = ex.choose(1 + len(errs), 'recv:outcome')
            if d > 0:
                ac.set(ex, s, 'err', z3.BoolVal(True))
                ex.note(f'recv_into:raises({errs[d - 1]})')
                raise_(errs[d - 1])
        unread = ac.get(ex, s, 'unread')
        c = ex.fresh('chunk', Bytes)
        rest = ex.fresh('rest', Bytes)
        ex.assume(unread == z3.Concat(c, rest))
        ex.assume(z3.Length(c) <= cap)
        ex.assume((z3.Length(c) == 0) == z3.Or(cap <= 0, z3.Length(unread) == 0))
        ac.set(ex, s, 'consumed', z3.Concat(ac.get(ex, s, 'consumed'), c))
        ac.set(ex, s, 'unread', rest)
        ac.set(ex, s, 'reads', ac.get(ex, s, 'reads') + 1)
        I.buf_write(target.addr, target.lo, c)
        return VInt(z3.Length(c))

    def sendall(ex, a, k):
        s, b = a[0], a[1]
        ac = ex.abs_classes['Socket']
        errs = ex.ghost.get('send_errors', ['BrokenPipeError', 'OSError'])
        if errs:
            d = ex.choose(1 + len(errs), 'sendall:outcome')
            if d > 0:
                ex.note(f'sendall:raises({errs[d - 1]})')
                raise_(errs[d - 1])
        ac.set(ex, s, 'sent', z3.Concat(ac.get(ex, s, 'sent'), b.e))
        return NONE

    def _partial(ex, s, data, what):
        """send / sendmsg: the kernel accepts a non-empty PREFIX of the data (all of it, or less: full send buffer, a signal, a time-out) and returns its length"""
        ac = ex.abs_classes['Socket']
        errs = ex.ghost.get('send_errors', ['BrokenPipeError', 'OSError'])
        if errs:
            d = ex.choose(1 + len(errs), f'{what}:outcome')
            if d > 0:
                ex.note(f'{what}:raises({errs[d - 1]})')
                raise_(errs[d - 1])
        c = ex.fresh('accepted', Bytes)
        rest = ex.fresh('not_sent', Bytes)
        ex.assume(data == z3.Concat(c, rest))
        ex.assume(z3.Implies(z3.Length(data) > 0, z3.Length(c) >= 1))
        ac.set(ex, s, 'sent', z3.Concat(ac.get(ex, s, 'sent'), c))
        return VInt(z3.Length(c))

    def send(ex, a, k):
        return _partial(ex, a[0], a[1].e, 'send')

    def sendmsg(ex, a, k):
        items = ex.interp.iter_concrete(a[1])
        if items is None or not all(isinstance(x, VBytes) for x in items):
            raise Undecided('sendmsg of ' + repr(a[1]))
        data = z3.Concat(*[x.e for x in items]) if len(items) > 1 else (items[0].e if items else z3.Empty(Bytes))
        return _partial(ex, a[0], data, 'sendmsg')

    def noop(ex, a, k):
        return NONE

    return AbsClass('Socket',
                    fields={'consumed': Bytes, 'unread': Bytes, 'sent': Bytes, 'err': smt.Bool, 'reads': smt.Int},
                    methods={'recv': recv, 'recv_into': recv_into, 'sendall': sendall, 'send': send, 'sendmsg': sendmsg, 'setsockopt': noop},
                    text='T2 socket.recv(n): returns a prefix c of the unread stream with len(c) <= n, empty iff n <= 0 or the '
                         'stream has ended; may raise ConnectionResetError/OSError; sendall(b) appends b to what the peer will '
                         'read or raises BrokenPipeError/OSError; send(b) / sendmsg(buffers) append a non-empty PREFIX of the data '
                         'and return its length (a short write is always possible)')


# ------------------------------------------------------------------------------ copy
def copy_copy(ex, a, k):
    v = a[0]
    if isinstance(v, VRef):
        h = ex.heap[v.addr]
        if isinstance(h, (HList, HSymList, HDict)):
            r = ex.alloc(h.clone())
            if isinstance(h, HSymList):
                ex.heap[r.addr].shares = [v.addr] + list(getattr(h, 'shares', []))
            if hasattr(h, 'elem_hint'):
                ex.heap[r.addr].elem_hint = h.elem_hint
            return r
    if type(v).__name__ == 'VDictView':
        return ex.alloc(HDict(dict(ex.heap[v.ref.addr].attrs)))
    if isinstance(v, (VTuple, VSeq, VInt, VBool, VStr, VSym)) or v is NONE:
        return v
    raise Undecided(f'copy.copy({v!r})')


def copy_deepcopy(ex, a, k):
    v = a[0]
    if isinstance(v, VRef):
        h = ex.heap[v.addr]
        if isinstance(h, HSymList):
            return ex.alloc(HSymList(h.seq))          # fresh list object, equal contents (elements are values)
        if isinstance(h, HList):
            return ex.alloc(HList([copy_deepcopy(ex, [x], {}) for x in h.items]))
        if isinstance(h, HDict):
            return ex.alloc(HDict({kk: copy_deepcopy(ex, [x], {}) for kk, x in h.items.items()}))
        if isinstance(h, HSymDict):
            # a fresh dictionary with the same keys whose values are COPIES: deepcopy_of is uninterpreted - for a value that is an object the copy is
            # another object (shared references into the original are not preserved), and nothing is assumed about it beyond being a function of the
            # original.  Over-approximate: clauses about the identity of the values cannot be proved of a deep copy, only refuted (and replayed).
            dc = z3.Function('deepcopy_of', Val, Val)
            return ex.alloc(HSymDict(h.dom, z3.Map(dc, h.map), h.vkind))
    if isinstance(v, VTuple):
        return VTuple([copy_deepcopy(ex, [x], {}) for x in v.items])
    if isinstance(v, (VSeq, VInt, VBool, VStr, VSym, VReal, VBytes)) or v is NONE:
        return v          # immutable mathematical values: a deep copy is an equal value
    raise Undecided(f'copy.deepcopy({v!r})')


TEXT['copy'] = 'copy.copy(list) / copy.deepcopy(x): a fresh object equal to x that shares nothing mutable with it; user __deepcopy__ hooks do not raise (T7)'


# ------------------------------------------------------------------------------ locks
def _lock():
    def enter(ex, a, k):
        ac = ex.abs_classes['Lock']
        ex.require('lock', z3.Not(ac.get(ex, a[0], 'held')), 'lock is not already held by this thread (no self-deadlock)',
                   ex.ghost.get('__cur_node__'))
        ac.set(ex, a[0], 'held', z3.BoolVal(True))
        hook = ex.ghost.get('__on_acquire__')
        if hook is not None:
            hook(ex, a[0])          # rely condition: what other threads may have done while the lock was free
        return a[0]

    def exit_(ex, a, k):
        ac = ex.abs_classes['Lock']
        ac.set(ex, a[0], 'held', z3.BoolVal(False))
        return VBool(False)
    return AbsClass('Lock', fields={'held': smt.Bool},
                    methods={'__enter__': enter, '__exit__': exit_, 'acquire': enter, 'release': exit_},
                    text='threading.Lock: with-statement acquires and always releases; held is a ghost flag')


def new_deque(ex, a, k):
    """collections.deque([iterable]): modelled as a list (maxlen is not modelled)"""
    if k.get('maxlen') is not None and k.get('maxlen') is not NONE or len(a) > 1:
        raise Undecided('collections.deque with maxlen')
    if not a:
        return ex.alloc(HList([]))
    items = ex.interp.iter_concrete(a[0])
    if items is not None:
        return ex.alloc(HList(list(items)))
    return ex.alloc(HSymList(ex.interp.as_seq(a[0])))


def itertools_islice(ex, a, k):
    """itertools.islice(it, stop): the first `stop` items of it (all of them if stop is None); start/step are not modelled"""
    from .interp_data import VLazy
    if len(a) != 2 or k:
        raise Undecided('itertools.islice with start/step')
    if a[1] is not NONE:
        n = ex.interp.as_int(a[1], None, 'islice stop')
        if not ex.branch(n >= 0, 'islice:stop>=0'):
            raise_('ValueError')
    return VLazy('islice', (a[0], a[1]))


def install_common(ex):
    ex.ext_models['itertools.islice'] = itertools_islice
    ex.ext_models['collections.deque'] = new_deque
    ex.abs_classes['Lock'] = _lock()
    ex.ext_models['copy.copy'] = copy_copy
    ex.ext_models['copy.deepcopy'] = copy_deepcopy
    ex.abs_classes['Socket'] = _sock()
    ex.ext_models['struct.pack'] = struct_pack
    ex.ext_models['struct.unpack'] = struct_unpack
    ex.ext_models['mod:pyworkers.remote_pickle.dumps'] = rp_dumps
    ex.ext_models['mod:pyworkers.remote_pickle.loads'] = rp_loads
