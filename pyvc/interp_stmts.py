"""Statements: blocks, assignment, control flow, exceptions, loops with contracts, with, injection."""
import ast

import z3

from . import smt
from .smt import Val, ValList, SeqVal
from .values import *  # noqa
from .core import PathEnd, Undecided, PyRaise, ReturnSig, BreakSig, ContinueSig, Vanish
from .frontend import ClassInfo
from .interp_data import VIterView, VListAt, EMPTYSET
from .interp_calls import VCtxMgr, VSuper

UNROLL_LIMIT = 12


class StmtMixin:
    # ------------------------------------------------------------------ blocks
    def exec_block(self, stmts, fr):
        for st in stmts:
            self.exec_stmt(st, fr)

    def exec_stmt(self, st, fr):
        ex = self.ex
        if fr.inject:
            self.injection_point(st, fr)
        m = getattr(self, 's_' + type(st).__name__, None)
        if m is None:
            raise Undecided(f'unsupported statement {type(st).__name__} at line {st.lineno}')
        prev = ex.ghost.get('__cur_node__')
        ex.ghost['__cur_node__'] = st
        try:
            m(st, fr)
        finally:
            ex.ghost['__cur_node__'] = prev

    def injection_point(self, st, fr, phase='before'):
        ex = self.ex
        cfg = ex.inject
        if cfg is None:
            return
        if isinstance(st, (ast.FunctionDef, ast.Pass)):
            return
        if cfg.at_point is not None and phase == 'before':
            cfg.at_point(self, st, fr)
        if ex.injected >= cfg.budget or not cfg.kinds:
            return
        if cfg.region is not None and not cfg.region(self, st, fr):
            return
        kinds = ['none'] + list(cfg.kinds)
        d = ex.choose(len(kinds), f'inject@{fr.fi.name}:L{st.lineno}')
        k = kinds[d]
        if k == 'none':
            return
        ex.injected += 1
        where = f'{fr.fi.qualname}:L{st.lineno}:{phase}'
        txt = ast.unparse(st).split('\n')[0][:70]
        ex.note(f'{k}@{fr.fi.name}:L{st.lineno}')
        ex.ghost.setdefault('__injections__', []).append((k, fr.fi.qualname, st.lineno, txt, phase))
        if cfg.on_inject:
            cfg.on_inject(self, k, st, fr)
        if k == 'wte':
            raise PyRaise(VExc('WorkerTerminatedError', [VStr('terminate called')]))
        if k == 'kill':
            raise Vanish(where)
        raise Undecided('unknown injection kind ' + k)

    # ------------------------------------------------------------------ simple statements
    def s_Expr(self, st, fr):
        if isinstance(st.value, ast.Yield):
            return self.do_yield(st.value, fr)
        if isinstance(st.value, ast.Constant):
            return          # docstring
        self.eval(st.value, fr)

    def do_yield(self, y, fr):
        v = self.eval(y.value, fr) if y.value is not None else NONE
        f = fr
        while f is not None:
            if '__on_yield__' in f.locals:
                return f.locals['__on_yield__'](v)
            if '__yield__' in f.locals:
                f.locals['__yield__'].append(v)
                return NONE
            f = f.parent if f.parent is not None and f.parent.fi is f.fi else None
        raise Undecided('yield outside a modelled generator')

    def s_Pass(self, st, fr):
        pass

    def s_Return(self, st, fr):
        v = self.eval(st.value, fr) if st.value is not None else NONE
        raise ReturnSig(v)

    def s_Break(self, st, fr):
        raise BreakSig()

    def s_Continue(self, st, fr):
        raise ContinueSig()

    def s_Import(self, st, fr):
        for a in st.names:
            fr.locals[a.asname or a.name.split('.')[0]] = VExt(a.name if a.asname else a.name.split('.')[0])

    def s_ImportFrom(self, st, fr):
        mi = fr.module
        base = st.module or ''
        if st.level:
            parts = mi.name.split('.')
            if not mi.relpath.endswith('__init__.py'):
                parts = parts[:-1]
            if st.level > 1:
                parts = parts[:-(st.level - 1)]
            base = '.'.join(parts + ([st.module] if st.module else []))
        for a in st.names:
            nm = a.asname or a.name
            if base in self.ex.repo.modules:
                r = self.ex.repo.resolve_name(self.ex.repo.modules[base], a.name)
                if r is None:
                    raise Undecided(f'from {base} import {a.name}')
                fr.locals[nm] = self.from_resolution(r, a.name)
            elif f'{base}.{a.name}' in self.ex.repo.modules:
                fr.locals[nm] = VExt('mod:' + f'{base}.{a.name}')
            else:
                fr.locals[nm] = VExt(f'{base}.{a.name}')

    def s_FunctionDef(self, st, fr):
        fi = None
        parent = fr.fi
        qn = f'{parent.qualname}.<{st.name}>' if parent is not None else None
        if qn in self.ex.repo.funcs:
            fi = self.ex.repo.funcs[qn]
        else:
            raise Undecided(f'nested function {qn} not indexed')
        fr.locals[st.name] = VFunc(fi, fr)

    def s_Assert(self, st, fr):
        ex = self.ex
        mode = ex.ghost.get('assert_mode', 'oblige')
        src = ast.unparse(st.test)
        for pat in ex.ghost.get('assert_assume', ()):
            if pat in src:
                # an assertion about the environment (interpreter / pickle protocol) that the lemma takes as given: listed in the evidence
                ex.notes_abstracted.add(f'assumed repository assert: {src[:90]}')
                return
        c = self.eval(st.test, fr)
        t = self.truth(c)
        if mode == 'fork':
            if not ex.branch(t if not isinstance(t, bool) else z3.BoolVal(t), f'L{st.lineno}:assert'):
                raise PyRaise(VExc('AssertionError', []))
            return
        ex.require('assert', t, 'repository assert: ' + ast.unparse(st.test)[:80], st)

    def s_Delete(self, st, fr):
        for t in st.targets:
            if isinstance(t, ast.Name):
                if t.id in fr.locals:
                    fr.locals[t.id] = None
                else:
                    raise Undecided('del of non-local name')
            elif isinstance(t, ast.Attribute):
                self.delattr(self.eval(t.value, fr), t.attr, st)
            elif isinstance(t, ast.Subscript):
                obj = self.eval(t.value, fr)
                if isinstance(t.slice, ast.Slice):
                    raise Undecided('del slice')
                self.delitem(obj, self.eval(t.slice, fr), st)
            else:
                raise Undecided('del target')

    def s_Global(self, st, fr):
        raise Undecided('global')

    def s_Nonlocal(self, st, fr):
        raise Undecided('nonlocal')

    # ------------------------------------------------------------------ assignment
    def s_Assign(self, st, fr):
        v = self.eval(st.value, fr)
        if fr.inject and self.ex.inject and self.ex.inject.split_store and isinstance(st.value, ast.Call):
            self.injection_point(st, fr, phase='store')
        for t in st.targets:
            self.assign(t, v, fr, st)

    def s_AnnAssign(self, st, fr):
        if st.value is not None:
            self.assign(st.target, self.eval(st.value, fr), fr, st)

    def augop(self, op, cur, rhs, st):
        """x op= y: in place for mutable containers (list += iterable is list.extend on the same object), a new value otherwise"""
        if isinstance(cur, VRef) and isinstance(self.ex.heap[cur.addr], (HList, HSymList)):
            if not isinstance(op, ast.Add):
                raise Undecided(f'in-place operator {type(op).__name__} on a list')
            if isinstance(self.ex.heap[cur.addr], HList):
                self.cm_HList_extend(cur, rhs)
            else:
                self.cm_HSymList_extend(cur, rhs)
            return cur
        if isinstance(cur, VRef) and isinstance(self.ex.heap[cur.addr], HBuf):
            if not isinstance(op, ast.Add):
                raise Undecided(f'in-place operator {type(op).__name__} on a bytearray')
            self.cm_HBuf_extend(cur, rhs)
            return cur
        if isinstance(cur, VRef) and not isinstance(self.ex.heap[cur.addr], HObj):
            raise Undecided(f'in-place operator {type(op).__name__} on a mutable container')
        return self.binop(op, cur, rhs, st)

    def s_AugAssign(self, st, fr):
        t = st.target
        if isinstance(t, ast.Name):
            cur = self.lookup(t.id, fr, t)
            new = self.augop(st.op, cur, self.eval(st.value, fr), st)
            self.assign(t, new, fr, st)
        elif isinstance(t, ast.Attribute):
            obj = self.eval(t.value, fr)
            cur = self.getattr(obj, t.attr, t, fr)
            new = self.augop(st.op, cur, self.eval(st.value, fr), st)
            if fr.inject and self.ex.inject and self.ex.inject.split_store:
                self.injection_point(st, fr, phase='store')
            self.setattr(obj, t.attr, new, st, fr)
        elif isinstance(t, ast.Subscript):
            obj = self.eval(t.value, fr)
            idx = self.eval(t.slice, fr)
            cur = self.getitem(obj, idx, t)
            new = self.augop(st.op, cur, self.eval(st.value, fr), st)
            self.setitem(obj, idx, new, st)
        else:
            raise Undecided('augmented assignment target')

    def assign(self, t, v, fr, node=None):
        ex = self.ex
        if isinstance(t, ast.Name):
            f = fr
            # comprehension sub-frames write to their own locals; closures never rebind outer names (no nonlocal)
            v = self.coerce_kind(v, ex.ghost.get('__local_kinds__', {}).get((fr.fi.qualname if fr.fi else None, t.id)))
            f.locals[t.id] = v
        elif isinstance(t, ast.Attribute):
            self.setattr(self.eval(t.value, fr), t.attr, v, node or t, fr)
        elif isinstance(t, ast.Subscript):
            obj = self.eval(t.value, fr)
            if isinstance(t.slice, ast.Slice):
                lo = self.eval(t.slice.lower, fr) if t.slice.lower else None
                hi = self.eval(t.slice.upper, fr) if t.slice.upper else None
                self.setslice(obj, lo, hi, v, node or t)
            else:
                self.setitem(obj, self.eval(t.slice, fr), v, node or t)
        elif isinstance(t, (ast.Tuple, ast.List)):
            stars = [i for i, sub in enumerate(t.elts) if isinstance(sub, ast.Starred)]
            if stars:
                # a, *b, c = concrete sequence
                if isinstance(v, VTuple):
                    items = list(v.items)
                elif isinstance(v, VRef) and isinstance(self.ex.heap[v.addr], HList):
                    items = list(self.ex.heap[v.addr].items)
                else:
                    raise Undecided('starred assignment target with a non-concrete right-hand side')
                si = stars[0]
                after = len(t.elts) - si - 1
                if len(stars) > 1:
                    raise Undecided('several starred assignment targets')
                if len(items) < si + after:
                    self.throw('ValueError', f'not enough values to unpack (expected at least {si + after}, got {len(items)})')
                for sub, pv in zip(t.elts[:si], items[:si]):
                    self.assign(sub, pv, fr, node)
                self.assign(t.elts[si].value, self.ex.alloc(HList(items[si:len(items) - after])), fr, node)
                for sub, pv in zip(t.elts[si + 1:], items[len(items) - after:]):
                    self.assign(sub, pv, fr, node)
                return
            parts = self.unpack(v, len(t.elts), node or t)
            for sub, pv in zip(t.elts, parts):
                self.assign(sub, pv, fr, node)
        else:
            raise Undecided('assignment target ' + type(t).__name__)

    def coerce_kind(self, v, kind):
        """a declared symbolic container kind for a location that the code initialises with a literal"""
        ex = self.ex
        if kind == 'symlist' and isinstance(v, VRef) and isinstance(ex.heap[v.addr], HList):
            seq = self.as_seq(VTuple(ex.heap[v.addr].items))
            for e in self.tracked():
                self.fact_part(e, seq)
            ex.heap[v.addr] = HSymList(seq)
        if kind is not None and (kind == 'symdict' or (isinstance(kind, tuple) and kind[0] == 'symdict')) \
                and isinstance(v, VRef) and isinstance(ex.heap[v.addr], HDict):
            if ex.heap[v.addr].items:
                raise Undecided('coercion of a non-empty dict literal to a symbolic dict')
            vk = kind[1] if isinstance(kind, tuple) else 'any'
            ex.heap[v.addr] = HSymDict(z3.EmptySet(Val), ex.fresh('dictlit_map', z3.ArraySort(Val, Val)), vkind=vk)
        return v

    def unpack(self, v, n, node):
        ex = self.ex
        if isinstance(v, VTuple):
            if len(v.items) != n:
                self.throw('ValueError', f'unpack: expected {n} values, got {len(v.items)}')
            return list(v.items)
        if isinstance(v, VRef) and isinstance(ex.heap[v.addr], HList):
            items = ex.heap[v.addr].items
            if len(items) != n:
                self.throw('ValueError', f'unpack: expected {n} values, got {len(items)}')
            return list(items)
        if isinstance(v, VSym):
            if v is not NONE:
                pass
            lst = Val.vitems(v.t)
            conds = [Val.is_v_tup(v.t)]
            parts = []
            for _ in range(n):
                conds.append(ValList.is_vl_cons(lst))
                parts.append(VSym(ValList.vl_hd(lst)))
                lst = ValList.vl_tl(lst)
            conds.append(ValList.is_vl_nil(lst))
            good = z3.And(*conds)
            if ex.ghost.get('unpack_forks'):
                if not ex.branch(good, f'L{getattr(node, "lineno", 0)}:unpack'):
                    raise PyRaise(VExc('TypeError', [VStr('cannot unpack')]))
            else:
                ex.require('safe', good, f'value unpacks into {n} items', node)
            return parts
        if isinstance(v, VSeq):
            ex.require('safe', z3.Length(v.e) == n, f'sequence unpacks into {n} items', node)
            return [VSym(v.e[i]) for i in range(n)]
        if v is NONE:
            self.throw('TypeError', 'cannot unpack non-iterable NoneType object')
        raise Undecided(f'unpacking {v!r}')

    # ------------------------------------------------------------------ control flow
    def s_If(self, st, fr):
        c = self.eval(st.test, fr)
        if self.cond(c, f'L{st.lineno}'):
            self.exec_block(st.body, fr)
        else:
            self.exec_block(st.orelse, fr)

    def s_Raise(self, st, fr):
        if st.exc is None:
            f = fr
            while f is not None and f.cur_exc is None:
                f = f.parent
            if f is None or f.cur_exc is None:
                # re-raise inside a nested helper: look through the interpreter frame stack
                for g in reversed(self.ex.frames):
                    if g.cur_exc is not None:
                        raise PyRaise(g.cur_exc)
                self.throw('RuntimeError', 'No active exception to reraise')
            raise PyRaise(f.cur_exc)
        e = self.eval(st.exc, fr)
        if isinstance(e, VExcClass):
            e = self.make_exception(e.name, [], {}, st)
        if not isinstance(e, VExc):
            raise Undecided(f'raise of {e!r}')
        if st.cause is not None:
            e.cause = self.eval(st.cause, fr)
        raise PyRaise(e)

    def handler_matches(self, h, exc, fr):
        if h.type is None:
            return True
        t = self.eval(h.type, fr)
        names = []
        if isinstance(t, VTuple):
            for x in t.items:
                if not isinstance(x, VExcClass):
                    raise Undecided(f'except clause with {x!r}')
                names.append(x.name)
        elif isinstance(t, VExcClass):
            names.append(t.name)
        else:
            raise Undecided(f'except clause with {t!r}')
        return any(self.ex.exc.is_sub(exc.cls, n) for n in names)

    def s_Try(self, st, fr):
        ex = self.ex
        pending = None          # python-level signal to re-raise after finally
        try:
            try:
                self.exec_block(st.body, fr)
            except PyRaise as pr:
                handled = False
                for h in st.handlers:
                    if self.handler_matches(h, pr.exc, fr):
                        handled = True
                        if h.name:
                            fr.locals[h.name] = pr.exc
                        saved = fr.cur_exc
                        fr.cur_exc = pr.exc
                        ex.note(f'L{h.lineno}:except({pr.exc.cls})')
                        try:
                            self.exec_block(h.body, fr)
                        finally:
                            fr.cur_exc = saved
                            if h.name:
                                fr.locals[h.name] = None      # `except E as e` unbinds e when the handler is left
                        break
                if not handled:
                    raise
            else:
                self.exec_block(st.orelse, fr)
        except (PathEnd, Vanish, Undecided):
            raise                   # meta signals: no finally
        except (PyRaise, ReturnSig, BreakSig, ContinueSig) as sig:
            pending = sig
        if st.finalbody:
            self.exec_block(st.finalbody, fr)
        if pending is not None:
            raise pending

    def s_With(self, st, fr):
        self.with_items(st, st.items, fr)

    def with_items(self, st, items, fr):
        ex = self.ex
        if not items:
            return self.exec_block(st.body, fr)
        item = items[0]
        cm = self.eval(item.context_expr, fr)
        rest = items[1:]

        def body(v=NONE):
            if item.optional_vars is not None:
                self.assign(item.optional_vars, v, fr, st)
            self.with_items(st, rest, fr)
            return NONE

        if isinstance(cm, VCtxMgr):
            from .interp import Frame
            fi = cm.vf.fi
            gfr = Frame(fi, parent=cm.vf.frame)
            gfr.owner, gfr.self_cls = fi.cls, (fr.self_cls if fi.cls is not None and fr.self_cls is not None else fi.cls)
            self.bind_args(fi, cm.args, cm.kwargs, gfr)
            gfr.locals['__on_yield__'] = body
            ex.frames.append(gfr)
            try:
                self.exec_block(fi.node.body, gfr)
            except ReturnSig as r:
                if r.__dict__.get('from_with_body'):
                    raise
            finally:
                ex.frames.pop()
            return
        enter = self.getattr(cm, '__enter__', st, fr)
        v = self.call_value(enter, [], {}, st, fr)
        try:
            body(v)
        except PyRaise as pr:
            exit_ = self.getattr(cm, '__exit__', st, fr)
            r = self.call_value(exit_, [VExcClass(pr.exc.cls), pr.exc, VStr('<traceback>')], {}, st, fr)
            if self.cond(r, f'L{st.lineno}:with-suppress'):
                return
            raise
        except (ReturnSig, BreakSig, ContinueSig):
            exit_ = self.getattr(cm, '__exit__', st, fr)
            self.call_value(exit_, [NONE, NONE, NONE], {}, st, fr)
            raise
        exit_ = self.getattr(cm, '__exit__', st, fr)
        self.call_value(exit_, [NONE, NONE, NONE], {}, st, fr)

    # ------------------------------------------------------------------ loops
    def loop_ordinal(self, st, fr):
        n = 0
        for node in ast.walk(fr.fi.node):
            if isinstance(node, (ast.While, ast.For)):
                # skip loops that belong to nested defs
                pass
        # ordinal in source order among loops of this def (nested defs excluded)
        loops = []

        def visit(stmts):
            for s in stmts:
                if isinstance(s, ast.FunctionDef):
                    continue
                if isinstance(s, (ast.While, ast.For)):
                    loops.append(s)
                for fld in ('body', 'orelse', 'finalbody'):
                    if hasattr(s, fld):
                        visit(getattr(s, fld))
                if isinstance(s, ast.Try):
                    for h in s.handlers:
                        visit(h.body)
        visit(fr.fi.node.body)
        for i, s in enumerate(loops):
            if s is st:
                return i
        return -1

    def loop_header(self, st):
        try:
            if isinstance(st, ast.While):
                return 'while ' + ast.unparse(st.test)
            return 'for ' + ast.unparse(st.target) + ' in ' + ast.unparse(st.iter)
        except Exception:
            return ''

    def count_loops(self, qualname):
        try:
            fi = self.ex.repo.func(qualname)
        except KeyError:
            return None
        n = 0

        def visit(stmts):
            nonlocal n
            for s in stmts:
                if isinstance(s, ast.FunctionDef):
                    continue
                if isinstance(s, (ast.While, ast.For)):
                    n += 1
                for fld in ('body', 'orelse', 'finalbody'):
                    if hasattr(s, fld):
                        visit(getattr(s, fld))
                if isinstance(s, ast.Try):
                    for h in s.handlers:
                        visit(h.body)
        visit(fi.node.body)
        return n

    def loop_contract(self, st, fr):
        """the loop contract for this loop: by position (ordinal among the loops of its function), checked against the contract's header fingerprint if
        it has one; a loop that has moved (other position, or into a helper without a contract of its own) is followed by fingerprint, or - when the
        lemma has exactly one loop contract and its function has no loop left - by elimination.  The invariant is checked in every case."""
        o = self.loop_ordinal(st, fr)
        lem = self.ex.lemma
        hdr = self.loop_header(st)

        def fits(lc):
            return lc.header is None or lc.header in hdr
        if lem is not None:
            own = fr.fi.qualname == lem.func
            ints = {k: v for k, v in lem.loops.items() if isinstance(k, int)}
            if own and o in ints and fits(ints[o]):
                return ints[o]
            if (fr.fi.qualname, o) in lem.loops and fits(lem.loops[(fr.fi.qualname, o)]):
                return lem.loops[(fr.fi.qualname, o)]
            by_header = [v for v in lem.loops.values() if v.header and v.header in hdr]
            if own and o in ints:
                # the contract at this position is about another loop
                if len(by_header) == 1:
                    return by_header[0]
                raise Undecided(f'the loop contract at position {o} of {lem.func} is about a loop `{ints[o].header}`, this one is `{hdr}`')
            if own and len(by_header) == 1 and not any(isinstance(k, tuple) and k[0] == fr.fi.qualname for k in lem.loops):
                # loops were added to the function in front of this one: its position is free, its header names exactly one contract
                return by_header[0]
            helper = (not own) and self.ex.contracts.get(fr.fi.qualname) is None and fr.fi.module is not None
            if helper:
                if len(by_header) == 1:
                    return by_header[0]
                # the lemma's only loop contract, and the function it was written for has no loop any more: the loop was extracted into this helper
                keyed = list(lem.loops.items())
                if len(keyed) == 1 and keyed[0][1].header is None:
                    k = keyed[0][0]
                    home = lem.func if isinstance(k, int) else k[0]
                    try:
                        same_module = self.ex.repo.func(home).module is fr.fi.module
                    except KeyError:
                        same_module = False
                    if same_module and self.count_loops(home) == 0:
                        return keyed[0][1]
        con = self.ex.contracts.get(fr.fi.qualname)
        if con is None:
            return None
        return con.loops.get(o)

    def s_While(self, st, fr):
        try:
            lc = self.loop_contract(st, fr)
        except Undecided:
            # the contract written for this position is about another loop (the loop was rewritten): no contract applies - one iteration is explored for
            # refutations (while_unrolled), then the path is given up as undecided
            lc = None
        if lc is None:
            return self.while_unrolled(st, fr)
        self.loop_with_contract(st, fr, lc, kind='while')

    def while_unrolled(self, st, fr):
        ex = self.ex
        for _ in range(UNROLL_LIMIT):
            c = self.eval(st.test, fr)
            t = self.truth(c)
            ts = t if isinstance(t, bool) else smt.simp(t)
            if not (isinstance(ts, bool) or z3.is_true(ts) or z3.is_false(ts)):
                # No contract: nothing can be PROVED about this loop.  But the state it is entered in is the real one, so one iteration from here is a genuine
                # execution prefix: obligations met in it (callee preconditions, at-all-points clauses, blocking) are real, and a refutation there is reported.
                # The path is then given up as undecided; the path on which the loop is not entered at all goes on normally.
                if _ == 0 and ex.branch(ts, f'L{st.lineno}:while-entered'):
                    ex.note(f'L{st.lineno}: loop without contract - one iteration explored for refutations, then undecided')
                    try:
                        self.exec_block(st.body, fr)
                    except (BreakSig, ContinueSig):
                        pass
                    raise Undecided(f'while loop at line {st.lineno} of {fr.fi.qualname} has a symbolic condition and no loop contract (first iteration explored)')
                elif _ == 0:
                    self.exec_block(st.orelse, fr)
                    return
                raise Undecided(f'while loop at line {st.lineno} of {fr.fi.qualname} has a symbolic condition and no loop contract')
            if not (ts if isinstance(ts, bool) else z3.is_true(ts)):
                self.exec_block(st.orelse, fr)
                return
            try:
                self.exec_block(st.body, fr)
            except BreakSig:
                return
            except ContinueSig:
                continue
        raise Undecided(f'while loop at line {st.lineno} not finished after {UNROLL_LIMIT} concrete iterations and no loop contract')

    def assigned_names(self, stmts):
        out = []

        def tgt(t):
            if isinstance(t, ast.Name):
                if t.id not in out:
                    out.append(t.id)
            elif isinstance(t, (ast.Tuple, ast.List)):
                for x in t.elts:
                    tgt(x)

        def visit(ss):
            for s in ss:
                if isinstance(s, ast.FunctionDef):
                    continue
                if isinstance(s, ast.Assign):
                    for t in s.targets:
                        tgt(t)
                elif isinstance(s, (ast.AugAssign, ast.AnnAssign)):
                    tgt(s.target)
                elif isinstance(s, ast.For):
                    tgt(s.target)
                elif isinstance(s, ast.With):
                    for it in s.items:
                        if it.optional_vars is not None:
                            tgt(it.optional_vars)
                for fld in ('body', 'orelse', 'finalbody'):
                    if hasattr(s, fld):
                        visit(getattr(s, fld))
                if isinstance(s, ast.Try):
                    for h in s.handlers:
                        if h.name and h.name not in out:
                            out.append(h.name)
                        visit(h.body)
        visit(stmts)
        return out

    def havoc_like(self, v, name, kind=None):
        ex = self.ex
        if kind is not None:
            return self.sym(name, kind)
        if v is None:
            return None
        if isinstance(v, VInt):
            return VInt(ex.fresh(name, smt.Int))
        if isinstance(v, VBool):
            return VBool(ex.fresh(name, smt.Bool))
        if isinstance(v, VReal):
            return VReal(ex.fresh(name, smt.Real))
        if isinstance(v, VBytes):
            return VBytes(ex.fresh(name, smt.Bytes))
        if isinstance(v, VSeq):
            return VSeq(ex.fresh(name, SeqVal))
        if isinstance(v, VSym):
            return VSym(ex.fresh(name, Val), hint=v.hint)
        if isinstance(v, VAbs):
            return VAbs(v.cls, ex.fresh(name, Val))
        if isinstance(v, VRef):
            h = ex.heap[v.addr]
            if isinstance(h, HSymList):
                h.seq = ex.fresh(name, SeqVal)
                for e in self.tracked():
                    self.fact_part(e, h.seq)
                return v
            if isinstance(h, HBuf):
                h.seq = ex.fresh(name, smt.Bytes)
                return v
        raise Undecided(f'cannot havoc loop variable {name} = {v!r}: declare its kind in the loop contract')

    def loop_with_contract(self, st, fr, lc, kind, iter_setup=None):
        """Hoare rule for loops.  iter_setup (for `for` loops) = (init, guard, bind, step)."""
        ex = self.ex
        lab = f'loop{self.loop_ordinal(st, fr)}@L{st.lineno}'
        env = SpecEnvProxy(self, fr)
        if iter_setup:
            iter_setup['init']()
        # 1. invariant on entry
        for i, inv in enumerate(lc.invariant):
            ex.oblige('inv-init', ex.spec_bool(inv, fr), f'{lab} invariant[{i}] holds on entry: {spec_text(inv)}',
                      st, key=(lab, 'init', i))
        # 2. havoc
        names = self.assigned_names(st.body + st.orelse)
        if isinstance(st, ast.For):
            names = [n for n in names if n not in self.assigned_names_target(st.target)]
        for n in names:
            if n in fr.locals or n in lc.locals:
                fr.locals[n] = self.havoc_like(fr.locals.get(n), n, lc.locals.get(n))
        for n, k in lc.locals.items():
            if n not in names and n not in fr.locals:
                fr.locals[n] = self.sym(n, k)
        for hv in lc.modifies:
            ex.havoc_location(hv, fr)
        if iter_setup:
            iter_setup['havoc']()
        frame_snap = ex.snapshot_locations(fr)
        # 3. assume invariant
        for inv in lc.invariant:
            ex.assume(ex.spec_bool(inv, fr, mode='assume'))
        if not ex.feasible():
            raise PathEnd('loop invariant contradicts path')
        v0 = ex.spec_term(lc.variant, fr) if lc.variant is not None else None
        # 4. guard
        if iter_setup:
            go = iter_setup['guard']()
        else:
            go = self.cond(self.eval(st.test, fr), f'{lab}:guard')
        if not go:
            ex.note(f'{lab}:exit')
            self.exec_block(st.orelse, fr)
            return
        ex.note(f'{lab}:iter')
        ex.oblige('cover', z3.BoolVal(True), f'{lab} body reachable', st, key=(lab, 'cover'))
        if iter_setup:
            iter_setup['bind']()
            if lc.on_bind:
                lc.on_bind(ex, fr)
        try:
            self.exec_block(st.body, fr)
        except BreakSig:
            ex.note(f'{lab}:break')
            return
        except ContinueSig:
            pass
        if iter_setup:
            iter_setup['step']()
        # 5. back edge
        for i, inv in enumerate(lc.invariant):
            ex.oblige('inv-keep', ex.spec_bool(inv, fr), f'{lab} invariant[{i}] preserved: {spec_text(inv)}',
                      st, key=(lab, 'keep', i))
        if v0 is not None:
            v1 = ex.spec_term(lc.variant, fr)
            ex.oblige('var-dec', v1 < v0, f'{lab} variant decreases: {spec_text(lc.variant)}', st, key=(lab, 'dec'))
            ex.oblige('var-bound', v0 >= 0, f'{lab} variant bounded below', st, key=(lab, 'bound'))
        for i, sc in enumerate(getattr(lc, 'step', [])):
            ex.ghost['__iter_start__'] = frame_snap
            ex.oblige('step', ex.spec_bool(sc, fr), f'{lab} step[{i}]: {spec_text(sc)}', st, key=(lab, 'step', i))
        for i, pg in enumerate(lc.progress):
            ex.ghost['__iter_start__'] = frame_snap
            ex.oblige('var-dec', ex.spec_bool(pg, fr), f'{lab} progress[{i}]: {spec_text(pg)}', st, key=(lab, 'progress', i))
        ex.check_frame(frame_snap, lc.modifies, fr, st, lab)
        raise PathEnd('loop back edge')

    def assigned_names_target(self, t):
        out = []
        if isinstance(t, ast.Name):
            out.append(t.id)
        elif isinstance(t, (ast.Tuple, ast.List)):
            for x in t.elts:
                out.extend(self.assigned_names_target(x))
        return out

    def s_For(self, st, fr):
        ex = self.ex
        it = self.eval(st.iter, fr)
        if isinstance(it, VIterView) and it.kind == 'iter':
            it = it.base
        items = self.iter_concrete(it)
        try:
            lc = self.loop_contract(st, fr)
        except Undecided:
            lc = None       # the contract written for this position is about another loop (as in s_While)
        if items is not None and lc is None:
            for x in items:
                self.assign(st.target, x, fr, st)
                try:
                    self.exec_block(st.body, fr)
                except BreakSig:
                    return
                except ContinueSig:
                    continue
            self.exec_block(st.orelse, fr)
            return
        # generator pass-through: `for x in S: yield x`
        if lc is None and len(st.body) == 1 and isinstance(st.body[0], ast.Expr) and isinstance(st.body[0].value, ast.Yield) \
                and isinstance(st.body[0].value.value, ast.Name) and isinstance(st.target, ast.Name) \
                and st.body[0].value.value.id == st.target.id:
            f = fr
            while f is not None and '__yield__' not in f.locals:
                f = f.parent
            if f is not None and f.locals.get('__yield_sym__') is None:
                f.locals['__yield_sym__'] = it
                return
        # generator filter: `for x in S: if P(x): yield x` yields what `[x for x in S if P(x)]` holds (the generator is run eagerly, see section 3.3)
        if lc is None and len(st.body) == 1 and isinstance(st.body[0], ast.If) and not st.body[0].orelse and len(st.body[0].body) == 1 \
                and isinstance(st.body[0].body[0], ast.Expr) and isinstance(st.body[0].body[0].value, ast.Yield) \
                and isinstance(st.body[0].body[0].value.value, ast.Name) and isinstance(st.target, ast.Name) \
                and st.body[0].body[0].value.value.id == st.target.id and not st.orelse and (self.is_symlist(it) or isinstance(it, VSeq)):
            f = fr
            while f is not None and '__yield__' not in f.locals:
                f = f.parent
            if f is not None and f.locals.get('__yield_sym__') is None and not f.locals['__yield__']:
                comp = ast.ListComp(elt=ast.Name(id=st.target.id, ctx=ast.Load()),
                                    generators=[ast.comprehension(target=st.target, iter=st.iter, ifs=[st.body[0].test], is_async=0)])
                ast.copy_location(comp, st)
                ast.fix_missing_locations(comp)
                f.locals['__yield_sym__'] = self.filter_comprehension(comp, comp.generators[0], it, fr)
                return
        if lc is None:
            # No contract: nothing can be PROVED about this loop.  As for `while` (while_unrolled): the state it is reached in is the real one, so the
            # path on which the collection is empty goes on normally and one iteration over a non-empty collection is a genuine execution prefix -
            # refutations met there are reported; then the path is given up as undecided.
            seqterm = None
            if isinstance(it, VSeq):
                seqterm = it.e
            elif self.is_symlist(it):
                seqterm = self.seq_get(it)
            if seqterm is None:
                raise Undecided(f'for loop at line {st.lineno} of {fr.fi.qualname} over a symbolic collection has no loop contract')
            if not ex.branch(z3.Length(seqterm) > 0, f'L{st.lineno}:for-entered'):
                self.exec_block(st.orelse, fr)
                return
            ex.note(f'L{st.lineno}: for loop without contract - one iteration explored for refutations, then undecided')
            hint = getattr(ex.heap[it.addr], 'elem_hint', None) if isinstance(it, VRef) else None
            self.assign(st.target, VSym(seqterm[0], hint=hint), fr, st)
            try:
                self.exec_block(st.body, fr)
            except (BreakSig, ContinueSig):
                pass
            raise Undecided(f'for loop at line {st.lineno} of {fr.fi.qualname} over a symbolic collection has no loop contract (first iteration explored)')
        self.for_with_contract(st, fr, lc, it, items)

    def for_with_contract(self, st, fr, lc, it, items):
        ex = self.ex
        interp = self
        st_ = {}
        if items is not None:
            it = VSeq(self.as_seq(VTuple(items)))
        seqterm = None
        rng = None
        if isinstance(it, VSeq):
            seqterm = it.e
        elif self.is_symlist(it):
            seqterm = self.seq_get(it)
        elif isinstance(it, VModelRange):
            rng = it.n
        if seqterm is not None or rng is not None:
            n = z3.Length(seqterm) if seqterm is not None else rng

            if seqterm is not None:
                fr.locals['__seq__'] = VSeq(seqterm)
                ex.ghost['__last_iter_seq__'] = seqterm

            def init():
                fr.locals['__i__'] = VInt(0)
                fr.locals['__n__'] = VInt(n)

            def havoc():
                i = ex.fresh('__i__', smt.Int)
                ex.assume(z3.And(i >= 0, i <= n))
                fr.locals['__i__'] = VInt(i)

            def guard():
                return ex.branch(fr.locals['__i__'].e < n, f'for@L{st.lineno}:more')

            def bind():
                i = fr.locals['__i__'].e
                if seqterm is not None:
                    hint = None
                    fact = None
                    if isinstance(it, VRef):
                        hint = getattr(ex.heap[it.addr], 'elem_hint', None)
                        fact = getattr(ex.heap[it.addr], 'elem_fact', None)
                    if fact is not None:
                        fact(ex, seqterm[i])
                    interp.assign(st.target, VSym(seqterm[i], hint=hint), fr, st)
                else:
                    interp.assign(st.target, VInt(i), fr, st)

            def step():
                fr.locals['__i__'] = VInt(fr.locals['__i__'].e + 1)
            return self.loop_with_contract(st, fr, lc, 'for', dict(init=init, havoc=havoc, guard=guard, bind=bind, step=step))
        # dict / set views: visited-set schema
        if isinstance(it, VIterView) or (isinstance(it, VRef) and isinstance(ex.heap[it.addr], (HSymDict, HSymSet))):
            kind = it.kind if isinstance(it, VIterView) else 'keys'
            base = it.base if isinstance(it, VIterView) else it
            h = ex.heap[base.addr]
            dom0 = h.dom          # iteration over the collection as it is at loop entry

            def init():
                fr.locals['__visited__'] = VSetTerm(EMPTYSET)

            def havoc():
                vis = ex.fresh('__visited__', z3.ArraySort(Val, smt.Bool))
                ex.assume(z3.IsSubset(vis, dom0))
                fr.locals['__visited__'] = VSetTerm(vis)

            def guard():
                return ex.branch(fr.locals['__visited__'].t != dom0, f'for@L{st.lineno}:more')

            def bind():
                k = ex.fresh('__k__', Val)
                ex.assume(z3.Select(dom0, k))
                ex.assume(z3.Not(z3.Select(fr.locals['__visited__'].t, k)))
                fr.locals['__k__'] = VSym(k)
                hh = ex.heap[base.addr]
                if kind == 'keys':
                    interp.assign(st.target, VSym(k), fr, st)
                elif kind == 'values':
                    interp.assign(st.target, interp.symdict_value(base.addr, hh, k), fr, st)
                else:
                    interp.assign(st.target, VTuple([VSym(k), interp.symdict_value(base.addr, hh, k)]), fr, st)

            def step():
                fr.locals['__visited__'] = VSetTerm(z3.Store(fr.locals['__visited__'].t, fr.locals['__k__'].t, z3.BoolVal(True)))
            return self.loop_with_contract(st, fr, lc, 'for', dict(init=init, havoc=havoc, guard=guard, bind=bind, step=step))
        raise Undecided(f'for loop over {it!r}')


class VSetTerm(V):
    def __init__(self, t):
        self.t = t


class VModelRange(V):
    def __init__(self, n):
        self.n = n


class SpecEnvProxy:
    def __init__(self, interp, fr):
        self.interp = interp
        self.fr = fr


def spec_text(s):
    if isinstance(s, str):
        return s
    return getattr(s, '__doc__', None) or getattr(s, '__name__', repr(s))
