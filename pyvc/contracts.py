"""Contracts (sidecar objects), specification evaluation, contract application at call sites,
verification of a function body against its contract."""
import ast
import copy

import z3

from . import smt
from .smt import Val, ValList, SeqVal
from .values import *  # noqa
from .core import (Exec, PathEnd, Undecided, PyRaise, ReturnSig, BreakSig, ContinueSig, Vanish)
from .frontend import ClassInfo
from .interp_data import cnt_f, VListAt, VIterView, EMPTYSET
from .interp_stmts import VSetTerm, spec_text


class Loop:
    def __init__(self, invariant=(), variant=None, modifies=(), locals=None, on_bind=None, progress=(), header=None):
        self.on_bind = on_bind
        # optional fingerprint of the loop this contract is about: a substring of its header (`while <test>` / `for <target> in <iter>`).  A contract
        # with a fingerprint is never applied to a loop whose header does not contain it (undecided instead), and follows its loop when the loop
        # moves - to another position in the function, or into a helper the function calls
        self.header = header
        self.progress = list(progress)     # clauses over (iteration start, back edge): a well-founded measure decreased
        self.step = []                     # clauses relating iteration start and back edge (transition relation), kind 'step'
        self.invariant = list(invariant)
        self.variant = variant
        self.modifies = list(modifies)
        self.locals = dict(locals or {})


class Contract:
    def __init__(self, func, params=None, self_class=None, requires=(), ensures=(), raises=None,
                 raises_only=None, modifies=None, loops=None, returns='any', setup=None,
                 all_exits=(), variants=None, ghost=None, on_vanish=None, terminates=False,
                 closure_env=None, inject=None, options=None, name=None, trusted=False, text='', lid=None):
        self.func = func                    # qualified name in the repository
        self.name = name or func            # lemma name (several contracts may target one function)
        self.lid = lid or (name or func).split(' ')[0]
        self.params = dict(params or {})    # param -> kind
        self.self_class = self_class        # concrete class whose MRO resolves self.* (qualname)
        self.requires = list(requires)
        self.ensures = list(ensures)
        self.raises = dict(raises or {})    # exception class -> condition spec (on old state) or None
        self.raises_only = raises_only      # None: anything listed in raises; list: allowed classes
        self.modifies = modifies            # None = unchecked; list of location specs
        self.loops = dict(loops or {})
        self.returns = returns
        self.setup = setup                  # callable(ex, env) run after parameters are created
        self.all_exits = list(all_exits)
        self.variants = variants            # list of (name, callable(ex, env)) setup variants
        self.ghost = dict(ghost or {})
        self.on_vanish = on_vanish
        self.terminates = terminates
        self.closure_env = closure_env      # for nested defs: callable(ex) -> dict of free variables
        self.inject = inject
        self.options = dict(options or {})
        self.trusted = trusted
        self.text = text


class InjectCfg:
    def __init__(self, functions, budget=1, kinds=('wte',), split_store=False, region=None, on_inject=None, at_point=None):
        self.at_point = at_point           # callable(interp, stmt, frame): obligations that must hold at EVERY statement boundary
        self.functions = set(functions)
        self.budget = budget
        self.kinds = tuple(kinds)
        self.split_store = split_store
        self.region = region
        self.on_inject = on_inject


class AbsClass:
    """A modelled class: ghost fields (name -> sort) kept in arrays keyed by object identity,
    methods as model functions fn(ex, args, kwargs)."""
    def __init__(self, name, fields=None, methods=None, attrs=None, text=''):
        self.name = name
        self.fields = dict(fields or {})
        self.methods = dict(methods or {})
        self.attrs = dict(attrs or {})      # attribute name -> fn(interp, obj) -> V
        self.text = text

    def arr(self, ex, field):
        key = (self.name, field)
        if key not in ex.absfields:
            ex.absfields[key] = ex.fresh(f'{self.name}.{field}', z3.ArraySort(Val, self.fields[field]))
        return ex.absfields[key]

    def get(self, ex, obj, field):
        return z3.Select(self.arr(ex, field), obj.key)

    def set(self, ex, obj, field, term):
        ex.absfields[(self.name, field)] = z3.Store(self.arr(ex, field), obj.key, term)

    def getattr(self, interp, obj, name, node):
        if name in self.methods:
            return VBound(VModel(f'{self.name}.{name}', self.methods[name]), obj)
        if name in self.attrs:
            return self.attrs[name](interp, obj)
        if name in self.fields:
            return from_sort(self.get(interp.ex, obj, name))
        raise Undecided(f'abstract class {self.name} has no model for attribute {name}')

    def hasattr(self, interp, obj, name):
        if name in self.methods or name in self.attrs or name in self.fields:
            return True
        if name in getattr(self, 'absent', ()):
            return False
        # a model is partial: a name it does not mention is not thereby absent from the real object (hasattr(sock, 'sendmsg') on the socket model once
        # answered False and sent the verification down the fall-back branch only)
        raise Undecided(f'hasattr(abstract {self.name}, {name!r}): the model does not say whether the real object has it (declare it in methods/attrs or in .absent)')

    def setattr(self, interp, obj, name, value, node):
        if name in self.fields:
            srt = self.fields[name]
            if srt == Val:
                t = lower(value, interp.ex)
            else:
                t = value.e
            self.set(interp.ex, obj, name, t)
            return
        raise Undecided(f'store to attribute {name} of abstract {self.name}')

    def delattr(self, interp, obj, name, node):
        raise Undecided(f'del attribute {name} of abstract {self.name}')


# =============================================================================== spec evaluation

class SpecEval:
    """Pure evaluator for specification expressions (python syntax).  No forks, no obligations."""

    def __init__(self, ex, env, old_env=None, use_old=False):
        self.ex = ex
        self.I = ex.interp
        self.env = env
        self.old_env = old_env if old_env is not None else env
        self.use_old = use_old

    # heap access honours old()
    def heap(self):
        return self.ex.old['heap'] if self.use_old else self.ex.heap

    def absfield(self, cls, field):
        ac = self.ex.abs_classes[cls]
        if self.use_old:
            k = (cls, field)
            if k in self.ex.old['absfields']:
                return self.ex.old['absfields'][k]
        return ac.arr(self.ex, field)

    def ev(self, e):
        m = getattr(self, 'v_' + type(e).__name__, None)
        if m is None:
            raise Undecided(f'spec: unsupported {type(e).__name__}: {ast.unparse(e)}')
        return m(e)

    def boolean(self, e):
        v = self.ev(e)
        return self.tobool(v)

    def tobool(self, v):
        if isinstance(v, bool):
            return z3.BoolVal(v)
        if isinstance(v, z3.ExprRef):
            return v
        t = self.I.truth(self.deref(v)) if not isinstance(v, VRef) else self.truth_ref(v)
        return t if isinstance(t, z3.ExprRef) else z3.BoolVal(bool(t))

    def truth_ref(self, v):
        h = self.heap()[v.addr]
        if isinstance(h, HSymList):
            return z3.Length(h.seq) > 0
        if isinstance(h, HList):
            return bool(h.items)
        if isinstance(h, (HSymSet, HSymDict)):
            return h.dom != EMPTYSET
        if isinstance(h, HDict):
            return bool(h.items)
        return True

    def deref(self, v):
        return v

    def v_Constant(self, e):
        return self.I.const(e.value)

    def v_Name(self, e):
        env = self.old_env if self.use_old else self.env
        if e.id in env:
            v = env[e.id]
            if v is None:
                raise Undecided(f'spec: {e.id} is unbound here')
            return v
        if e.id in self.ex.ghost:
            g = self.ex.old['ghost'][e.id] if self.use_old and e.id in self.ex.old['ghost'] else self.ex.ghost[e.id]
            return g if isinstance(g, V) else from_sort(g)
        if e.id in ('True', 'False', 'None'):
            return {'True': VBool(True), 'False': VBool(False), 'None': NONE}[e.id]
        if self.ex.exc.known(e.id):
            return VExcClass(e.id)
        raise Undecided(f'spec: unknown name {e.id}')

    def v_Attribute(self, e):
        o = self.ev(e.value)
        return self.attr(o, e.attr)

    def attr(self, o, name):
        if isinstance(o, VRef):
            h = self.heap().get(o.addr)
            if h is None:
                raise Undecided(f'spec: object {o} does not exist in the {"old" if self.use_old else "current"} state')
            if isinstance(h, HObj):
                if name in h.attrs:
                    v = h.attrs[name]
                    if hasattr(v, 'present'):
                        return v.value
                    return v
                raise Undecided(f'spec: attribute {name} not set on object of {getattr(h.cls, "name", h.cls)}')
            if isinstance(h, (HSymDict, HSymSet)) and name in ('sumlen', 'dom', 'size'):
                if name == 'dom':
                    return VSetTerm(h.dom)
                return VInt(h.__dict__.get('extra', {})[name])
        if isinstance(o, VAbs):
            ac = self.ex.abs_classes[o.cls]
            if name in ac.fields:
                return from_sort(z3.Select(self.absfield(o.cls, name), o.key))
            if name == 'id':
                return VSym(o.key)
        if isinstance(o, VSym) and o.hint and o.hint[0] == 'abs':
            return self.attr(VAbs(o.hint[1], Val.vakey(o.t)), name)
        if isinstance(o, VExc):
            if name == 'cls':
                return VStr(o.cls)
            if name == 'args':
                return VTuple(o.args)
            if name in o.fields:
                return o.fields[name]
        if isinstance(o, VClass):
            key = None
            found, owner = self.ex.repo.lookup_method(o.ci, name)
            if isinstance(found, tuple):
                key = (owner.qualname, name)
            src = self.ex.old['class_attrs'] if self.use_old else self.ex.class_attrs
            if key in src:
                return src[key]
        raise Undecided(f'spec: attribute {name} of {o!r}')

    def v_Subscript(self, e):
        o = self.ev(e.value)
        if isinstance(e.slice, ast.Slice):
            raise Undecided('spec: slices are written with spec functions (take/drop)')
        i = self.ev(e.slice)
        return self.item(o, i)

    def item(self, o, i):
        if isinstance(o, VTuple):
            return o.items[smt.simp(i.e).as_long()]
        if isinstance(o, VSym) and isinstance(i, VInt) and z3.is_int_value(smt.simp(i.e)):
            lst = Val.vitems(o.t)
            for _ in range(smt.simp(i.e).as_long()):
                lst = ValList.vl_tl(lst)
            return VSym(ValList.vl_hd(lst))
        if isinstance(o, VSeq):
            return VSym(o.e[i.e])
        if isinstance(o, VRef):
            h = self.heap()[o.addr]
            if isinstance(h, HSymDict):
                k = lower(i, self.ex)
                t = z3.Select(h.map, k)
                if h.vkind == 'symlist':
                    return VSeq(t)
                return VSym(t, hint=h.vkind if isinstance(h.vkind, tuple) else None)
            if isinstance(h, HSymList):
                return VSym(h.seq[i.e])
            if isinstance(h, HList):
                return h.items[smt.simp(i.e).as_long()]
            if isinstance(h, HDict):
                return h.items[self.I.pykey(i)]
        raise Undecided(f'spec: subscript of {o!r}')

    def v_Tuple(self, e):
        return VTuple([self.ev(x) for x in e.elts])

    def v_BoolOp(self, e):
        bs = [self.boolean(x) for x in e.values]
        return VBool(z3.And(*bs) if isinstance(e.op, ast.And) else z3.Or(*bs))

    def v_UnaryOp(self, e):
        if isinstance(e.op, ast.Not):
            return VBool(z3.Not(self.boolean(e.operand)))
        v = self.ev(e.operand)
        if isinstance(e.op, ast.USub):
            return type(v)(-v.e)
        raise Undecided('spec: unary op')

    def v_BinOp(self, e):
        a, b = self.ev(e.left), self.ev(e.right)
        a, b = self.seqify(a), self.seqify(b)
        if isinstance(e.op, ast.Add) and isinstance(a, (VSeq, VTuple)) and isinstance(b, (VSeq, VTuple)):
            return VSeq(z3.Concat(self.I.as_seq(a), self.I.as_seq(b)))
        return self.I.binop(e.op, a, b, e)

    def seqify(self, v):
        if isinstance(v, VRef):
            h = self.heap()[v.addr]
            if isinstance(h, HSymList):
                return VSeq(h.seq)
            if isinstance(h, HList):
                return VTuple(h.items)
        return v

    def v_Compare(self, e):
        left = self.seqify(self.ev(e.left))
        res = []
        for op, rn in zip(e.ops, e.comparators):
            right = self.seqify(self.ev(rn))
            if isinstance(op, (ast.In, ast.NotIn)):
                c = self.member(left, right)
                c = c if isinstance(op, ast.In) else z3.Not(c)
            elif isinstance(left, VSetTerm) or isinstance(right, VSetTerm):
                c = left.t == right.t
                if isinstance(op, ast.NotEq):
                    c = z3.Not(c)
            else:
                c = self.I.compare(op, left, right, e)
            res.append(c if isinstance(c, z3.ExprRef) else z3.BoolVal(bool(c)))
            left = right
        return VBool(z3.And(*res) if len(res) > 1 else res[0])

    def member(self, item, cont):
        if isinstance(cont, VSetTerm):
            return z3.Select(cont.t, lower(item, self.ex))
        if isinstance(cont, VRef):
            h = self.heap()[cont.addr]
            if isinstance(h, (HSymSet, HSymDict)):
                return z3.Select(h.dom, lower(item, self.ex))
        if isinstance(cont, VSeq):
            return z3.Contains(cont.e, z3.Unit(lower(item, self.ex)))
        if isinstance(cont, VTuple):
            cs = [self.I.eq(item, x) for x in cont.items]
            cs = [c if isinstance(c, z3.ExprRef) else z3.BoolVal(bool(c)) for c in cs]
            return z3.Or(*cs) if cs else z3.BoolVal(False)
        raise Undecided(f'spec: membership in {cont!r}')

    def v_IfExp(self, e):
        c = self.boolean(e.test)
        a, b = self.ev(e.body), self.ev(e.orelse)
        if isinstance(a, VInt) and isinstance(b, VInt):
            return VInt(z3.If(c, a.e, b.e))
        if isinstance(a, VBool) and isinstance(b, VBool):
            return VBool(z3.If(c, a.e, b.e))
        return VSym(z3.If(c, lower(a, self.ex), lower(b, self.ex)))

    def v_Call(self, e):
        fn = e.func.id if isinstance(e.func, ast.Name) else None
        if fn == 'old':
            sub = SpecEval(self.ex, self.env, self.old_env, use_old=True)
            return sub.seqify(sub.ev(e.args[0]))
        if fn == 'implies':
            return VBool(z3.Implies(self.boolean(e.args[0]), self.boolean(e.args[1])))
        if fn == 'iff':
            return VBool(self.boolean(e.args[0]) == self.boolean(e.args[1]))
        if fn == 'len':
            v = self.seqify(self.ev(e.args[0]))
            if isinstance(v, VRef) and type(self.heap()[v.addr]).__name__ == 'HBuf':
                return VInt(z3.Length(self.heap()[v.addr].seq))
            if isinstance(v, VRef):
                raise Undecided('spec: len of ' + repr(self.heap()[v.addr]))
            return self.I.length(v)
        if fn == 'cnt':
            el = self.ev(e.args[0])
            s = self.seqify(self.ev(e.args[1]))
            return VInt(cnt_f(lower(el, self.ex), self.I.as_seq(s)))
        if fn == 'is_none':
            v = self.ev(e.args[0])
            r = self.I.eq(v, NONE)
            return VBool(r if isinstance(r, z3.ExprRef) else z3.BoolVal(bool(r)))
        if fn == 'truthy':
            return VBool(self.tobool(self.ev(e.args[0])))
        if fn == 'val':
            return VSym(lower(self.seqify(self.ev(e.args[0])), self.ex))
        if fn == 'isexc':
            v = self.ev(e.args[0])
            name = e.args[1].value if isinstance(e.args[1], ast.Constant) else ast.unparse(e.args[1])
            return VBool(isinstance(v, VExc) and self.ex.exc.is_sub(v.cls, name))
        f = self.ex.spec_functions.get(fn) if fn else None
        if f is not None:
            args = [self.ev(a) for a in e.args]
            r = f(self, *args)
            return r if isinstance(r, V) else from_sort(r)
        raise Undecided(f'spec: unknown function {ast.unparse(e.func)}')


class SpecCtx:
    """context handed to callable spec clauses"""
    def __init__(self, ex, env, old_env):
        self.ex = ex
        self.env = env
        self.old_env = old_env
        self.I = ex.interp

    def ev(self, src, old=False):
        tree = ast.parse(src, mode='eval').body
        return SpecEval(self.ex, self.env, self.old_env, use_old=old).ev(tree)

    def b(self, src, old=False):
        tree = ast.parse(src, mode='eval').body
        return SpecEval(self.ex, self.env, self.old_env, use_old=old).boolean(tree)

    def __getitem__(self, name):
        return self.env[name]


_parse_cache = {}


def _parse(src):
    if src not in _parse_cache:
        _parse_cache[src] = ast.parse(src.strip(), mode='eval').body
    return _parse_cache[src]


# =============================================================================== Exec extensions

class VExec(Exec):
    def __init__(self, repo, prop_id='C00', tier='quick'):
        super().__init__(repo, prop_id, tier)
        self.spec_functions = {}
        self.spec_env_stack = []
        self.lemma = None

    # ---------------------------------------------------------- snapshots
    def snapshot(self):
        for ac in self.abs_classes.values():
            for f in ac.fields:
                ac.arr(self, f)
        return {
            'heap': {a: h.clone() if not hasattr(h, 'extra') else self._clone_extra(h) for a, h in self.heap.items()},
            'absfields': dict(self.absfields),
            'class_attrs': dict(self.class_attrs),
            'ghost': {k: (list(v) if isinstance(v, list) else dict(v) if isinstance(v, dict) else v) for k, v in self.ghost.items()},
        }

    def _clone_extra(self, h):
        c = h.clone()
        ex = dict(h.extra)
        if 'sumcnt' in ex:
            ex['sumcnt'] = list(ex['sumcnt'])
        c.extra = ex
        return c

    # ---------------------------------------------------------- spec evaluation
    def cur_env(self, fr=None):
        env = {}
        if self.spec_env_stack:
            env.update(self.spec_env_stack[-1][0])
        if fr is not None:
            f = fr
            chain = []
            while f is not None:
                chain.append(f)
                f = f.parent
            for f in reversed(chain):
                env.update({k: v for k, v in f.locals.items() if isinstance(v, V)})
        return env

    def old_env(self):
        return self.spec_env_stack[-1][1] if self.spec_env_stack else {}

    def spec_bool(self, clause, fr=None, extra=None, mode='assert'):
        """mode 'assert': the clause is a goal; 'assume': a hypothesis.  Clauses universally quantified over a
        Skolem constant (attribute .forall) are proved for the Skolem constant only and, when assumed, instantiated
        at every relevant term the clause's .forall(ctx) returns."""
        env = self.cur_env(fr)
        if extra:
            env.update(extra)
        if callable(clause):
            ctx = SpecCtx(self, env, self.old_env())
            fa = getattr(clause, 'forall', None)
            try:
                if fa is not None:
                    keys = fa(ctx, mode)
                    rs = [clause(ctx, k) for k in keys]
                    rs = [r if isinstance(r, z3.ExprRef) else z3.BoolVal(bool(r)) for r in rs]
                    return z3.And(*rs) if len(rs) != 1 else rs[0]
                r = clause(ctx)
            except (KeyError, AttributeError, IndexError) as e:
                # the clause talks about a local / loop schema / attribute that the code (as it is now) does not have: the proof does not
                # carry over to this shape of the function - undecided, never a violation and never an engine failure
                raise Undecided(f'spec clause {getattr(clause, "__name__", "?")} cannot be evaluated on this shape of the code: {type(e).__name__} {e}')
            return r if isinstance(r, z3.ExprRef) else z3.BoolVal(bool(r))
        return SpecEval(self, env, self.old_env()).boolean(_parse(clause))

    def spec_term(self, clause, fr=None, extra=None):
        env = self.cur_env(fr)
        if extra:
            env.update(extra)
        if callable(clause):
            return clause(SpecCtx(self, env, self.old_env()))
        v = SpecEval(self, env, self.old_env()).ev(_parse(clause))
        return v.e

    def spec_value(self, clause, env):
        return SpecEval(self, env, self.old_env()).ev(_parse(clause))

    # ---------------------------------------------------------- locations (modifies / havoc / frame)
    def resolve_location(self, loc, fr=None, env=None):
        """loc: 'self._x' | 'ghost:name' | 'abs:Cls.field' | 'class:Qual.name' -> descriptor"""
        if callable(loc):
            return loc(self, fr, env if env is not None else self.cur_env(fr))
        if loc.startswith('ghost:'):
            return ('ghost', loc[6:])
        if loc.startswith('abs:'):
            c, f = loc[4:].split('.')
            return ('abs', c, f)
        if loc.startswith('class:'):
            q, n = loc[6:].rsplit('.', 1)
            return ('class', q, n)
        env = env if env is not None else self.cur_env(fr)
        tree = _parse(loc)
        if isinstance(tree, ast.Attribute):
            o = SpecEval(self, env, self.old_env()).ev(tree.value)
            if isinstance(o, VRef):
                return ('attr', o.addr, tree.attr)
            if isinstance(o, VAbs):
                return ('absobj', o, tree.attr)
        if isinstance(tree, ast.Name):
            if tree.id not in env:
                # the contract names a local that this shape of the function does not have: undecided, never an engine failure
                raise Undecided(f'location {loc}: the function has no local of that name (any more)')
            v = env[tree.id]
            if isinstance(v, VRef):
                return ('obj', v.addr)
        raise Undecided(f'location {loc}')

    def havoc_location(self, loc, fr=None, env=None):
        I = self.interp
        kind = None
        if isinstance(loc, tuple):
            loc, kind = loc
        d = self.resolve_location(loc, fr, env)
        if kind is not None and d[0] == 'attr':
            self.heap[d[1]].attrs[d[2]] = I.sym(d[2], kind)
            return
        if d[0] == 'ghost':
            g = self.ghost[d[1]]
            if isinstance(g, V):
                self.ghost[d[1]] = I.havoc_like(g, d[1])
            else:
                self.ghost[d[1]] = self.fresh(d[1], g.sort())
        elif d[0] == 'abs':
            k = (d[1], d[2])
            self.absfields.pop(k, None)
            ac = self.abs_classes[d[1]]
            self.absfields[k] = self.fresh(f'{d[1]}.{d[2]}', z3.ArraySort(Val, ac.fields[d[2]]))
        elif d[0] == 'absobj':
            ac = self.abs_classes[d[1].cls]
            ac.set(self, d[1], d[2], self.fresh(f'{d[1].cls}.{d[2]}', ac.fields[d[2]]))
        elif d[0] == 'class':
            k = (d[1], d[2])
            self.class_attrs[k] = self.havoc_value(self.class_attrs[k], d[2])
        elif d[0] == 'attr':
            h = self.heap[d[1]]
            h.attrs[d[2]] = self.havoc_value(h.attrs.get(d[2]), d[2])
        elif d[0] == 'obj':
            self.havoc_value(VRef(d[1]), loc if isinstance(loc, str) else getattr(loc, '__name__', 'loc'))

    def havoc_value(self, v, name):
        I = self.interp
        if isinstance(v, VRef):
            h = self.heap[v.addr]
            if isinstance(h, HSymList):
                h.seq = self.fresh(name, SeqVal)
                for e in I.tracked():
                    I.fact_part(e, h.seq)
                return v
            if isinstance(h, HSymSet):
                h.dom = self.fresh(name, z3.ArraySort(Val, smt.Bool))
                return v
            if isinstance(h, HBuf):
                h.seq = self.fresh(name, smt.Bytes)
                return v
            if isinstance(h, HSymDict):
                h.dom = self.fresh(name + '_dom', h.dom.sort())
                if not getattr(h, 'fixed_map', False):
                    h.map = self.fresh(name + '_map', h.map.sort())
                ex = h.__dict__.get('extra')
                if ex:
                    if 'sumlen' in ex:
                        ex['sumlen'] = self.fresh(name + '_sumlen', smt.Int)
                        self.assume(ex['sumlen'] >= 0)
                    if 'sumcnt' in ex:
                        ex['sumcnt'] = [self.fresh(name + f'_sumcnt{i}', smt.Int) for i in range(len(ex['sumcnt']))]
                        for t in ex['sumcnt']:
                            self.assume(t >= 0)
                return v
            raise Undecided(f'havoc of {type(h).__name__} ({name})')
        return I.havoc_like(v, name)

    def snapshot_locations(self, fr):
        return self.snapshot()

    def check_frame(self, snap, modifies, fr, node, lab, env=None):
        """everything not listed in modifies is unchanged w.r.t. snap (syntactic fast path, else obligation)"""
        allowed = set()
        for loc in modifies:
            if isinstance(loc, tuple):
                loc = loc[0]
            d = self.resolve_location(loc, fr, env)
            allowed.add(d if d[0] != 'absobj' else ('abs', d[1].cls, d[2]))
        I = self.interp

        def same(a, b):
            if a is b:
                return True
            if isinstance(a, z3.ExprRef) and isinstance(b, z3.ExprRef):
                return a.eq(b)
            if type(a) is not type(b):
                return False
            if isinstance(a, (VInt, VBool, VReal, VBytes, VSeq)):
                return a.e.eq(b.e)
            if isinstance(a, VSym):
                return a.t.eq(b.t)
            if isinstance(a, VStr):
                return a.s == b.s
            if isinstance(a, VRef):
                return a.addr == b.addr
            if isinstance(a, VTuple):
                return len(a.items) == len(b.items) and all(same(x, y) for x, y in zip(a.items, b.items))
            if isinstance(a, VAbs):
                return a.cls == b.cls and a.key.eq(b.key)
            return a is b

        def obl(what, a, b):
            try:
                c = I.eq(a, b)
            except Undecided:
                c = False
            self.oblige('frame', c if isinstance(c, z3.ExprRef) else z3.BoolVal(bool(c)),
                        f'{lab}: {what} is not modified', node, key=(lab, 'frame', what))

        for addr, h0 in snap['heap'].items():
            h1 = self.heap.get(addr)
            if h1 is None:
                continue
            if ('obj', addr) in allowed:
                continue
            if isinstance(h0, HObj):
                for k in set(h0.attrs) | set(h1.attrs):
                    if ('attr', addr, k) in allowed:
                        continue
                    a, b = h0.attrs.get(k), h1.attrs.get(k)
                    if a is None or b is None or hasattr(a, 'present') or hasattr(b, 'present'):
                        if a is not b and not (hasattr(a, 'present') and hasattr(b, 'present') and same(a.value, b.value)):
                            if isinstance(a, type(None)) or isinstance(b, type(None)):
                                self.oblige('frame', z3.BoolVal(False), f'{lab}: attribute {k} is neither created nor deleted',
                                            node, key=(lab, 'frame', f'attr {k}'))
                        continue
                    if not same(a, b):
                        obl(f'attribute {k}', a, b)
            elif isinstance(h0, HSymList):
                if not h0.seq.eq(h1.seq):
                    owner = self._owner_of(addr)
                    if owner and ('attr',) + owner in allowed:
                        continue
                    self.oblige('frame', h0.seq == h1.seq, f'{lab}: list@{owner or addr} is not modified', node,
                                key=(lab, 'frame', f'list {owner or addr}'))
            elif isinstance(h0, (HSymSet, HSymDict)):
                if not h0.dom.eq(h1.dom) or (isinstance(h0, HSymDict) and not h0.map.eq(h1.map)):
                    owner = self._owner_of(addr)
                    if owner and ('attr',) + owner in allowed:
                        continue
                    c = h0.dom == h1.dom
                    if isinstance(h0, HSymDict):
                        c = z3.And(c, h0.map == h1.map)
                    self.oblige('frame', c, f'{lab}: container@{owner or addr} is not modified', node,
                                key=(lab, 'frame', f'container {owner or addr}'))
            elif isinstance(h0, HList):
                if len(h0.items) != len(h1.items) or not all(same(x, y) for x, y in zip(h0.items, h1.items)):
                    owner = self._owner_of(addr)
                    if owner and ('attr',) + owner in allowed:
                        continue
                    self.oblige('frame', z3.BoolVal(False), f'{lab}: list@{owner or addr} is not modified', node,
                                key=(lab, 'frame', f'list {owner or addr}'))
        for k, a0 in snap['absfields'].items():
            a1 = self.absfields.get(k)
            if ('abs',) + k in allowed:
                continue
            if a1 is not None and not a0.eq(a1):
                self.oblige('frame', a0 == a1, f'{lab}: ghost field {k[0]}.{k[1]} is not modified', node,
                            key=(lab, 'frame', f'abs {k}'))
        for k, g0 in snap['ghost'].items():
            if k.startswith('__') or ('ghost', k) in allowed:
                continue
            g1 = self.ghost.get(k)
            if isinstance(g0, z3.ExprRef) and isinstance(g1, z3.ExprRef) and not g0.eq(g1):
                self.oblige('frame', g0 == g1, f'{lab}: ghost {k} is not modified', node, key=(lab, 'frame', f'ghost {k}'))
        for k, c0 in snap['class_attrs'].items():
            if ('class',) + k in allowed:
                continue
            c1 = self.class_attrs.get(k)
            if not same(c0, c1):
                obl(f'class attribute {k[0]}.{k[1]}', c0, c1)

    def _owner_of(self, addr):
        for a, h in self.heap.items():
            if isinstance(h, HObj):
                for k, v in h.attrs.items():
                    if isinstance(v, VRef) and v.addr == addr:
                        return (a, k)
        return None

    # ---------------------------------------------------------- objects from field declarations
    def new_object(self, cls_qual, name='self', overrides=None):
        ci = self.repo.cls(cls_qual)
        attrs = {}
        decl = {}
        for c in reversed(self.repo.mro(ci)):
            q = c.qualname if isinstance(c, ClassInfo) else c
            decl.update(self.class_fields.get(q, {}))
        decl.update(overrides or {})
        ref = self.alloc(HObj(ci, attrs))
        for k, kind in decl.items():
            from .interp import ABSENT, _Maybe
            if kind == 'absent':
                continue
            if isinstance(kind, tuple) and kind[0] == 'maybe':
                attrs[k] = _Maybe(self.fresh(f'has_{k}', smt.Bool), self.interp.sym(f'{name}.{k}', kind[1]))
            else:
                attrs[k] = self.interp.sym(f'{name}.{k}', kind)
        return ref

    # ---------------------------------------------------------- contract application (call sites)
    def apply_contract(self, con, fi, args, kwargs, node, self_cls=None):
        from .interp import Frame
        I = self.interp
        tmp = Frame(fi, parent=None)
        I.bind_args(fi, args, kwargs, tmp)
        env = dict(self.ghost.get('__specenv__', {}))
        if self.frames:
            # the caller's visible locals (closures share the frame of the function that defines them)
            env.update({k: v for k, v in self.cur_env(self.frames[-1]).items() if k not in env})
        env.update(tmp.locals)
        self.note(f'call:{fi.name}')
        self.spec_env_stack.append((env, dict(env)))
        saved_old = self.old
        try:
            for i, r in enumerate(con.requires):
                self.require('pre', self.spec_bool(r), f'precondition[{i}] of {con.name}: {spec_text(r)}', node,
                             key=('pre', con.name, i, getattr(node, 'lineno', 0)))
            self.old = self.snapshot()
            for loc in (con.modifies or []):
                self.havoc_location(loc, None, env)
            alts = ['return'] + list(con.raises.keys())
            d = self.choose(len(alts), f'{fi.name}:outcome') if len(alts) > 1 else 0
            if d == 0:
                res = I.sym(f'{fi.name}_result', con.returns)
                env['result'] = res
                for r, cnd in con.raises.items():
                    pass
                for e in con.ensures:
                    self.assume(self.spec_bool(e, mode='assume'))
                if not self.feasible():
                    raise PathEnd('callee postcondition contradicts path')
                return res
            name = alts[d]
            cnd = con.raises[name]
            self.note(f'{fi.name}:raises({name})')
            exc = VExc(name, [])
            env['raised'] = exc
            if cnd is not None:
                self.assume(self.spec_bool(cnd))
            if not self.feasible():
                raise PathEnd('callee exceptional condition contradicts path')
            raise PyRaise(exc)
        finally:
            self.old = saved_old
            self.spec_env_stack.pop()

    # ---------------------------------------------------------- verification of a body against its contract
    def verify(self, con, variant=None):
        """explore all paths of con.func under contract con; obligations accumulate in self.obligations"""
        fi = self.repo.func(con.func)
        self.lemma = con
        self.site_ord = {}
        if getattr(con, 'pre_verify', None) is not None:
            con.pre_verify(self)        # a lemma borrowed from another property's cone is verified with that cone's model tables

        def run_once():
            self.reset_path()
            self.cur_func = con.lid + ':' + con.func.replace('pyworkers.', '')
            try:
                self._run_path(con, fi, variant)
            except PathEnd:
                pass
            self.stats['paths'] += 1

        self.explorer = type(self.explorer)()
        self.explorer.explore(run_once)

    def _run_path(self, con, fi, variant):
        from .interp import Frame
        I = self.interp
        self.inject = con.inject
        for k, v in con.options.items():
            self.ghost[k] = v
        for g, kind in con.ghost.items():
            v = I.sym(g, kind)
            self.ghost[g] = v
        env = {}
        self_cls = None
        if con.self_class:
            self_cls = self.repo.cls(con.self_class)
        closure_frame = None
        if con.closure_env is not None:
            parent_fi = fi.parent
            closure_frame = Frame(parent_fi, parent=None)
            closure_frame.owner = parent_fi.cls
            closure_frame.self_cls = self_cls or parent_fi.cls
            closure_frame.locals.update(con.closure_env(self, closure_frame))
        a = fi.node.args
        pnames = [p.arg for p in a.posonlyargs + a.args] + ([a.vararg.arg] if a.vararg else []) + \
                 [p.arg for p in a.kwonlyargs] + ([a.kwarg.arg] if a.kwarg else [])
        for p in pnames:
            kind = con.params.get(p, 'any')
            if p == pnames[0] and fi.cls is not None and fi.kind not in ('staticmethod',) and p in ('self', 'cls', 'obj') \
                    and p not in con.params:
                if fi.kind in ('classmethod', 'classproperty') or p == 'cls':
                    env[p] = VClass(self_cls or fi.cls)
                else:
                    env[p] = self.new_object((self_cls or fi.cls).qualname, 'self')
            else:
                env[p] = I.sym(p, kind)
        self.setup_bools = []
        if con.setup:
            con.setup(self, env)
        if variant is not None:
            variant[1](self, env)
            self.note(f'variant:{variant[0]}')
        setup_bools, self.setup_bools = self.setup_bools, None
        self.spec_env_stack = [(env, dict(env))]
        for r in con.requires:
            self.assume(self.spec_bool(r, mode='assume'))
        if not self.feasible():
            self.oblige('cover', z3.BoolVal(False), f'precondition of {con.name} is satisfiable', fi.node, key=('precover',))
            raise PathEnd('requires unsat')
        self.oblige('cover', z3.BoolVal(True), f'precondition of {con.name} is satisfiable', fi.node, key=('precover',))
        # vacuity guard: every Boolean unknown the set-up introduces (worker closed?, dead?, started?, ...) must still be able to take both values
        # once the set-up's assumptions and the preconditions are in force - a case silently excluded there is a case the lemma does not cover
        exempt = con.options.get('fixed_by_setup', ())
        for b in setup_bools:
            nm = str(b)
            if any(nm == e or nm.startswith(e + '!') for e in exempt):
                continue
            for val in (True, False):
                self.oblige('cover', b if val else z3.Not(b), f'set-up of {con.name}: the case {nm} == {val} is not excluded by the set-up (vacuity guard)',
                            fi.node, key=('setup-cover', nm, val))
        self.old = self.snapshot()
        self.spec_env_stack = [(env, dict(env))]
        fr = Frame(fi, parent=closure_frame)
        fr.owner = fi.cls
        fr.self_cls = self_cls or fi.cls
        fr.inject = bool(self.inject and fi.qualname in self.inject.functions)
        for p in pnames:
            fr.locals[p] = env[p]
        self.ghost['__verifying__'] = fi.qualname + '#top'
        self.frames.append(fr)
        outcome = None
        try:
            try:
                if I.is_generator(fi):
                    fr.locals['__yield__'] = []
                    fr.locals['__yield_sym__'] = None
                    if con.options.get('symbolic_yield'):
                        # the yielded values as a symbolic sequence that loop contracts can talk about (`__yielded__`)
                        from .smt import SeqVal as _SV
                        ys_ref = self.alloc(HSymList(z3.Empty(_SV)))
                        fr.locals['__yielded__'] = ys_ref
                        fr.locals['__on_yield__'] = lambda v, r=ys_ref: I.cm_HSymList_append(r, v)
                if fi.kind == 'contextmanager':
                    # the with-body runs at the yield: it returns normally or raises (every listed outcome is explored)
                    outs = self.ghost.get('__body_outcomes__', ['AnyException'])

                    def on_yield(v, outs=outs):
                        d = self.choose(1 + len(outs), 'with-body')
                        if d > 0:
                            self.note(f'with-body:raises({outs[d - 1]})')
                            raise PyRaise(VExc(outs[d - 1], []))
                        self.note('with-body:normal')
                        return NONE
                    fr.locals['__on_yield__'] = on_yield
                I.exec_block(fi.node.body, fr)
                outcome = ('return', NONE)
                if I.is_generator(fi):
                    ys = fr.locals['__yield_sym__']
                    outcome = ('return', fr.locals['__yielded__'] if '__yielded__' in fr.locals else
                               ys if ys is not None else self.alloc(HList(fr.locals['__yield__'])))
            except ReturnSig as r:
                rv = r.value
                if type(rv).__name__ == 'VLazy':
                    # the function hands a lazy iterator to its caller: what the caller gets out of it is the function's result (bounded, refutations only)
                    try:
                        rv = I.drain_lazy(rv)
                    except PyRaise as pr2:
                        rv = None
                        outcome = ('raise', pr2.exc)
                if outcome is None:
                    outcome = ('return', fr.locals['__yielded__'] if '__yielded__' in fr.locals else rv)
            except PyRaise as pr:
                outcome = ('raise', pr.exc)
            except Vanish as v:
                outcome = ('vanish', v.where)
        finally:
            self.frames.pop()
        self.finish(con, fi, env, outcome)

    def finish(self, con, fi, env, outcome):
        node = fi.node
        kind = outcome[0]
        self.note(f'exit:{kind}' + (f'({outcome[1].cls})' if kind == 'raise' else ''))
        if kind == 'vanish':
            if con.on_vanish is not None:
                for i, c in enumerate(con.on_vanish):
                    self.oblige('at-kill', self.spec_bool(c), f'{con.name}: holds at the kill point: {spec_text(c)}', node,
                                key=('kill', i))
            return
        for i, c in enumerate(con.all_exits):
            e2 = dict(env)
            self.spec_env_stack[-1] = (dict(env, result=outcome[1] if kind == 'return' else NONE,
                                            raised=outcome[1] if kind == 'raise' else NONE,
                                            exit_kind=VStr(kind)), self.spec_env_stack[-1][1])
            self.oblige('all-exits', self.spec_bool(c), f'{con.name}: on every exit: {spec_text(c)}', node, key=('allexits', i))
        if kind == 'return':
            self.spec_env_stack[-1] = (dict(env, result=outcome[1]), self.spec_env_stack[-1][1])
            for i, c in enumerate(con.ensures):
                self.oblige('post', self.spec_bool(c), f'{con.name}: ensures[{i}]: {spec_text(c)}', node, key=('post', i))
            if con.modifies is not None:
                self.check_frame(self.old, con.modifies, None, node, con.name, env=env)
        else:
            exc = outcome[1]
            allowed = con.raises_only if con.raises_only is not None else list(con.raises.keys())
            ok = any(self.exc.is_sub(exc.cls, a) for a in allowed)
            inj = self.ghost.get('__injections__')
            self.oblige('xpost', z3.BoolVal(ok),
                        f'{con.name}: exception {exc.cls} may escape only if allowed ({", ".join(allowed) or "none"})',
                        node, key=('xpost-allowed', exc.cls), info={'exception': exc.cls, 'args': [repr(a) for a in exc.args]})
            self.spec_env_stack[-1] = (dict(env, raised=exc), self.spec_env_stack[-1][1])
            for name, cnd in con.raises.items():
                if cnd is not None and self.exc.is_sub(exc.cls, name):
                    self.oblige('xpost', self.spec_bool(cnd), f'{con.name}: raises {name} only when: {spec_text(cnd)}', node,
                                key=('xpost-cond', name))
