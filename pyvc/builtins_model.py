"""Models of Python builtins used by the cones."""
import z3

from . import smt
from .smt import Val, ValList, SeqVal
from .values import *  # noqa
from .core import Undecided, PyRaise, PathEnd
from .frontend import ClassInfo


def install(I):
    B = I.builtin_fns

    def reg(name):
        def deco(fn):
            B[name] = VModel(name, fn)
            return fn
        return deco

    @reg('len')
    def _len(ex, a, k):
        return I.length(a[0], ex.ghost.get('__cur_node__'))

    @reg('bool')
    def _bool(ex, a, k):
        if not a:
            return VBool(False)
        t = I.truth(a[0])
        return VBool(t)

    @reg('callable')
    def _callable(ex, a, k):
        v = a[0]
        if isinstance(v, (VFunc, VBound, VModel, VClass, VExcClass)):
            return VBool(True)
        if v is NONE or isinstance(v, (VBool, VInt, VStr, VTuple, VReal)):
            return VBool(False)
        if isinstance(v, VSym):
            f = ex.ghost.get('__callable_pred__')
            if f is None:
                f = z3.Function('is_callable', Val, smt.Bool)
                ex.ghost['__callable_pred__'] = f
            ex.assume(z3.Implies(f(v.t), z3.And(v.t != Val.v_none, z3.Not(Val.is_v_bool(v.t)), z3.Not(Val.is_v_int(v.t)))))
            return VBool(f(v.t))
        if isinstance(v, VExt):
            return VBool(True)
        raise Undecided(f'callable({v!r})')

    @reg('isinstance')
    def _isinstance(ex, a, k):
        v, t = a
        names = t.items if isinstance(t, VTuple) else [t]
        res = False
        for n in names:
            r = _isinst1(ex, v, n)
            if r is True:
                return VBool(True)
            if r is not False:
                res = r if res is False else z3.Or(res, r)
        return VBool(res)

    def _isinst1(ex, v, t):
        if isinstance(t, VModel):
            tn = t.name
            if tn == 'dict':
                if isinstance(v, VRef):
                    h = ex.heap[v.addr]
                    if isinstance(h, (HDict, HSymDict)):
                        return True
                    if isinstance(h, HObj) and isinstance(h.cls, ClassInfo):
                        return ex.repo.is_subclass(h.cls, 'dict')
                    return False
                if isinstance(v, VSym):
                    f = ex.ghost.setdefault('__isdict_pred__', z3.Function('is_dict', Val, smt.Bool))
                    return f(v.t)
                return False
            if tn == 'tuple':
                if isinstance(v, (VTuple, VSeq)):
                    return True
                if isinstance(v, VSym):
                    f = ex.ghost.setdefault('__istuple_pred__', z3.Function('is_tuple', Val, smt.Bool))
                    return f(v.t)
                return False
            if tn == 'list':
                if isinstance(v, VRef):
                    return isinstance(ex.heap[v.addr], (HList, HSymList))
                if isinstance(v, VSym):
                    f = ex.ghost.setdefault('__islist_pred__', z3.Function('is_list', Val, smt.Bool))
                    return f(v.t)
                return False
            if tn == 'bool':
                if isinstance(v, VBool):
                    return True
                if isinstance(v, VSym):
                    return Val.is_v_bool(v.t)
                return False
            if tn == 'str':
                if isinstance(v, VStr):
                    return True
                if isinstance(v, VSym):
                    return Val.is_v_str(v.t)
                return False
            if tn == 'type':
                if isinstance(v, (VClass, VExcClass)):
                    return True
                if isinstance(v, VSym):
                    f = ex.ghost.setdefault('__istype_pred__', z3.Function('is_type', Val, smt.Bool))
                    return f(v.t)
                return False
            if tn == 'int':
                if isinstance(v, (VInt, VBool)):
                    return True
                if isinstance(v, VSym):
                    return z3.Or(Val.is_v_int(v.t), Val.is_v_bool(v.t))
                return False
        if isinstance(t, VClass):
            if isinstance(v, VRef) and isinstance(ex.heap[v.addr], HObj) and isinstance(ex.heap[v.addr].cls, ClassInfo):
                return ex.repo.is_subclass(ex.heap[v.addr].cls, t.ci)
            if isinstance(v, VAbs):
                h = ex.ghost.get('__abs_isinstance__', {}).get((v.cls, t.ci.qualname))
                if h is not None:
                    return h
                raise Undecided(f'isinstance({v.cls} abstract object, {t.ci.name})')
            if isinstance(v, VSym):
                h = ex.ghost.get('__sym_isinstance__')
                if h is not None:
                    return h(ex, v, t.ci)
                raise Undecided(f'isinstance(symbolic, {t.ci.name})')
            return False
        if isinstance(t, VExcClass):
            if isinstance(v, VExc):
                return ex.exc.is_sub(v.cls, t.name)
            return False
        if isinstance(t, VExt):
            h = ex.ghost.get('__ext_isinstance__', {}).get(t.name)
            if h is not None:
                return h(ex, v)
            raise Undecided(f'isinstance(_, {t.name})')
        raise Undecided(f'isinstance(_, {t!r})')

    @reg('issubclass')
    def _issubclass(ex, a, k):
        c, t = a
        h = ex.ghost.get('__issubclass__')
        if h is not None:
            return h(ex, c, t)
        if isinstance(c, VClass) and isinstance(t, VClass):
            return VBool(ex.repo.is_subclass(c.ci, t.ci))
        raise Undecided(f'issubclass({c!r}, {t!r})')

    @reg('hasattr')
    def _hasattr(ex, a, k):
        r = I.hasattr(a[0], a[1].s)
        return VBool(r)

    @reg('getattr')
    def _getattr(ex, a, k):
        try:
            return I.getattr(a[0], a[1].s, ex.ghost.get('__cur_node__'))
        except PyRaise as pr:
            if pr.exc.cls == 'AttributeError' and len(a) > 2:
                return a[2]
            raise

    @reg('setattr')
    def _setattr(ex, a, k):
        I.setattr(a[0], a[1].s, a[2], ex.ghost.get('__cur_node__'))
        return NONE

    @reg('type')
    def _type(ex, a, k):
        v = a[0]
        if isinstance(v, VRef) and isinstance(ex.heap[v.addr], HObj):
            c = ex.heap[v.addr].cls
            return VClass(c) if isinstance(c, ClassInfo) else VExt(c)
        if isinstance(v, VExc):
            return VExcClass(v.cls)
        h = ex.ghost.get('__typeof__')
        if h is not None:
            return h(ex, v)
        raise Undecided(f'type({v!r})')

    @reg('tuple')
    def _tuple(ex, a, k):
        if not a:
            return VTuple([])
        v = a[0]
        items = I.iter_concrete(v)
        if items is not None:
            return VTuple(items)
        return VSeq(I.as_seq(v))

    @reg('list')
    def _list(ex, a, k):
        if not a:
            return ex.alloc(HList([]))
        v = a[0]
        if hasattr(v, 'kind') and hasattr(v, 'base'):       # VIterView
            hook = ex.ghost.get('__list_of_view__')
            if hook is not None:
                return hook(ex, v)
            hd = ex.heap.get(v.base.addr) if isinstance(v.base, VRef) else None
            if isinstance(hd, HSymDict) and v.kind in ('values', 'keys'):
                # list(d.values()) / list(d.keys()) of a symbolic dict: a symbolic list each of whose elements is a value (key) of d as d was then; order and
                # multiplicities are not modelled (the fact is attached to the list and assumed when an element is taken out of it)
                R = ex.fresh('listed', SeqVal)
                res = ex.alloc(HSymList(R))
                hobj = ex.heap[res.addr]
                hint = hd.vkind if isinstance(hd.vkind, tuple) else None
                hobj.elem_hint = hint if v.kind == 'values' else None
                dom0, map0, kind0 = hd.dom, hd.map, v.kind

                def elem_fact(ex_, term, kind=kind0):
                    if kind == 'values':
                        kq = ex_.fresh('key_of_listed', Val)
                        ex_.assume(z3.And(z3.Select(dom0, kq), z3.Select(map0, kq) == term))
                    else:
                        ex_.assume(z3.Select(dom0, term))
                hobj.elem_fact = elem_fact
                return res
            raise Undecided('list() of a symbolic dict view')
        items = I.iter_concrete(v)
        if items is not None:
            return ex.alloc(HList(items))
        m = I.method_model(v, '__list__')
        if m is not None:
            return m(ex, [v], {})          # a modelled iterable says what list(it) is
        r = ex.alloc(HSymList(I.as_seq(v)))
        if isinstance(v, VRef) and isinstance(ex.heap[v.addr], HSymList):
            # list(x) is a shallow copy: the element objects are shared with x
            ex.heap[r.addr].shares = [v.addr] + list(getattr(ex.heap[v.addr], 'shares', []))
        return r

    @reg('dict')
    def _dict(ex, a, k):
        if not a:
            return ex.alloc(HDict(dict(k)))
        src = a[0]
        if isinstance(src, VRef) and isinstance(ex.heap[src.addr], (HSymDict, HDict)):
            return ex.alloc(ex.heap[src.addr].clone())
        raise Undecided('dict(x)')

    @reg('set')
    def _set(ex, a, k):
        if not a:
            return ex.alloc(HSymSet(z3.EmptySet(Val)))
        v = a[0]
        if isinstance(v, VRef) and isinstance(ex.heap[v.addr], HSymSet):
            return ex.alloc(HSymSet(ex.heap[v.addr].dom))
        try:
            return ex.alloc(HSymSet(I.set_dom(v)))
        except Undecided:
            pass
        if isinstance(v, VRef) and isinstance(ex.heap[v.addr], HList):
            dom = z3.EmptySet(Val)
            for x in ex.heap[v.addr].items:
                dom = z3.Store(dom, lower(x, ex), z3.BoolVal(True))
            return ex.alloc(HSymSet(dom))
        raise Undecided(f'set({v!r})')

    @reg('bytes')
    def _bytes(ex, a, k):
        if not a:
            return VBytes(z3.Empty(smt.Bytes))
        if len(a) == 1 and isinstance(a[0], VBytes):
            return a[0]          # bytes(b) of a bytes value is an equal bytes value
        if len(a) == 1 and isinstance(a[0], VRef) and isinstance(ex.heap[a[0].addr], HBuf):
            return VBytes(ex.heap[a[0].addr].seq)
        if len(a) == 1 and isinstance(a[0], VView):
            return VBytes(I.view_bytes(a[0]))
        raise Undecided('bytes(x)')

    @reg('bytearray')
    def _bytearray(ex, a, k):
        if not a:
            return ex.alloc(HBuf(z3.Empty(smt.Bytes)))
        v = a[0]
        if isinstance(v, VBytes):
            return ex.alloc(HBuf(v.e))
        if isinstance(v, (VInt, VBool)):
            n = I.as_int(v, None, 'bytearray size')
            if not ex.branch(n >= 0, 'bytearray:size>=0'):
                raise PyRaise(I.mkexc('ValueError', 'negative count'))
            z = ex.fresh('zeros', smt.Bytes)         # n zero bytes: only the length matters to the callers modelled
            ex.assume(z3.Length(z) == n)
            return ex.alloc(HBuf(z))
        raise Undecided(f'bytearray({v!r})')

    @reg('memoryview')
    def _memoryview(ex, a, k):
        v = a[0]
        if isinstance(v, VRef) and isinstance(ex.heap[v.addr], HBuf):
            return VView(v.addr, z3.IntVal(0), z3.Length(ex.heap[v.addr].seq))
        if isinstance(v, VView):
            return v
        raise Undecided(f'memoryview({v!r})')

    @reg('str')
    def _str(ex, a, k):
        return VStr('<str>')

    @reg('repr')
    def _repr(ex, a, k):
        return VStr('<str>')

    @reg('int')
    def _int(ex, a, k):
        v = a[0]
        if isinstance(v, VInt):
            return v
        if isinstance(v, VBool):
            return VInt(z3.If(v.e, 1, 0))
        if isinstance(v, VReal):
            return VInt(z3.ToInt(v.e))
        raise Undecided(f'int({v!r})')

    def _minmax(is_min):
        def f(ex, a, k):
            xs = a if len(a) > 1 else I.iter_concrete(a[0])
            cur, cur_real = I.as_num(xs[0], None)
            for x in xs[1:]:
                t, r = I.as_num(x, None)
                if r != cur_real:
                    cur = cur if cur_real else z3.ToReal(cur)
                    t = t if r else z3.ToReal(t)
                    cur_real = True
                cur = z3.If(t < cur, t, cur) if is_min else z3.If(t > cur, t, cur)
            return VReal(cur) if cur_real else VInt(cur)
        return f
    B['min'] = VModel('min', _minmax(True))
    B['max'] = VModel('max', _minmax(False))

    @reg('range')
    def _range(ex, a, k):
        from .interp_stmts import VModelRange
        if len(a) != 1:
            raise Undecided('range with start/step')
        n = a[0]
        ne = smt.simp(I.as_int(n, None))
        if z3.is_int_value(ne):
            return ex.alloc(HList([VInt(i) for i in range(ne.as_long())]))
        return VModelRange(z3.If(ne < 0, 0, ne))

    @reg('iter')
    def _iter(ex, a, k):
        from .interp_data import VIterView, VLazy
        if len(a) == 2:
            return VLazy('callsentinel', (a[0], a[1]))
        return VIterView('iter', a[0])

    @reg('next')
    def _next(ex, a, k):
        from .interp_data import VIterView
        it = a[0]
        h = ex.ghost.get('__next_hook__')
        if h is not None:
            r = h(ex, it, a[1:])
            if r is not NotImplemented:
                return r
        if isinstance(it, VIterView) and it.kind == 'iter':
            base = it.base
            if isinstance(base, VRef) and isinstance(ex.heap[base.addr], HSymSet):
                hs = ex.heap[base.addr]
                nonempty = hs.dom != z3.EmptySet(Val)
                if not ex.branch(nonempty, 'next:nonempty'):
                    raise PyRaise(VExc('StopIteration', []))
                w = ex.fresh('elem', Val)
                ex.assume(z3.Select(hs.dom, w))
                return VSym(w)
        raise Undecided(f'next({it!r})')

    @reg('print')
    def _print(ex, a, k):
        return NONE

    @reg('id')
    def _id(ex, a, k):
        raise Undecided('id()')

    @reg('sum')
    def _sum(ex, a, k):
        raise Undecided('sum()')

    for tn in ('object',):
        B[tn] = VModel(tn, lambda ex, a, k: (_ for _ in ()).throw(Undecided('object()')))
