"""AST interpreter over abstract values (the symbolic semantics of the Python subset)."""
import ast

import z3

from . import smt
from .smt import Val, ValList, SeqVal
from .values import *  # noqa
from .core import (PathEnd, Undecided, PyRaise, ReturnSig, BreakSig, ContinueSig, Vanish)
from .frontend import ClassInfo, FuncInfo


def _fold_int(e):
    """value of a module-level constant written as integer arithmetic (1 << 16, 64 * 1024, -1): None if it is anything else"""
    try:
        if isinstance(e, ast.Constant):
            return e.value if isinstance(e.value, int) and not isinstance(e.value, bool) else None
        if isinstance(e, ast.UnaryOp) and isinstance(e.op, ast.USub):
            v = _fold_int(e.operand)
            return None if v is None else -v
        if isinstance(e, ast.BinOp):
            a, b = _fold_int(e.left), _fold_int(e.right)
            if a is None or b is None:
                return None
            ops = {ast.Add: lambda: a + b, ast.Sub: lambda: a - b, ast.Mult: lambda: a * b, ast.LShift: lambda: a << b if 0 <= b < 64 else None,
                   ast.Pow: lambda: a ** b if 0 <= b < 64 else None, ast.FloorDiv: lambda: a // b if b else None}
            f = ops.get(type(e.op))
            return f() if f else None
    except Exception:
        return None
    return None


class Frame:
    def __init__(self, fi, parent=None, module=None):
        self.fi = fi
        self.locals = {}
        self.parent = parent
        self.module = module or (fi.module if fi else None)
        self.self_cls = None        # concrete class of self for MRO resolution
        self.owner = None           # class that defines the running method (for super())
        self.inject = False
        self.cur_exc = None


LOG_METHODS = {'debug', 'info', 'warning', 'error', 'exception', 'critical', 'log', 'status',
               'details', 'abusive'}


class VLogger(V):
    pass


LOGGER = VLogger()


class InterpBase:
    def __init__(self, ex):
        self.ex = ex
        self.builtin_fns = {}
        from . import builtins_model
        builtins_model.install(self)

    # ================================================================== helpers
    def mkexc(self, cls, *args):
        return VExc(cls, [a if isinstance(a, V) else VStr(str(a)) for a in args])

    def throw(self, cls, *args):
        raise PyRaise(self.mkexc(cls, *args))

    def truth(self, v):
        """z3 Bool (or python bool) for truthiness of v"""
        ex = self.ex
        if v is NONE:
            return False
        if isinstance(v, VBool):
            return v.e
        if isinstance(v, VInt):
            return v.e != 0
        if isinstance(v, VReal):
            return v.e != 0
        if isinstance(v, VStr):
            return bool(v.s)
        if isinstance(v, VBytes):
            return z3.Length(v.e) > 0
        if isinstance(v, VTuple):
            return bool(v.items)
        if isinstance(v, VSeq):
            return z3.Length(v.e) > 0
        if isinstance(v, VSym):
            return smt.truthy_term(v.t)
        if type(v).__name__ == 'VListAt':
            return z3.Length(self.seq_get(v)) > 0
        if isinstance(v, VRef):
            h = ex.heap[v.addr]
            if isinstance(h, HList):
                return bool(h.items)
            if isinstance(h, HSymList):
                return z3.Length(h.seq) > 0
            if isinstance(h, HDict):
                return bool(h.items)
            if isinstance(h, HSymDict) or isinstance(h, HSymSet):
                return h.dom != z3.EmptySet(Val)
            if isinstance(h, HBuf):
                return z3.Length(h.seq) > 0
            if isinstance(h, HObj):
                ci = h.cls
                if isinstance(ci, ClassInfo):
                    if self.ex.repo.is_subclass(ci, 'dict'):
                        d = h.attrs.get('__dictdata__')
                        if d is not None:
                            return self.truth(d)
                        raise Undecided('truthiness of dict subclass instance')
                return True
        if isinstance(v, (VAbs, VFunc, VBound, VModel, VClass, VExcClass, VExt, VExc)):
            return True
        raise Undecided(f'truthiness of {v!r}')

    def cond(self, v, label):
        return self.ex.branch(self.truth(v), label)

    def eq(self, a, b):
        """z3 Bool / python bool for a == b (structural, mathematical equality)"""
        if a is b:
            return True
        if a is NONE or b is NONE:
            o = b if a is NONE else a
            if o is NONE:
                return True
            if isinstance(o, VSym):
                return o.t == Val.v_none
            return False
        if isinstance(a, VStr) and isinstance(b, VStr):
            if is_opaque_str(a) or is_opaque_str(b):
                # formatted strings are abstracted to one opaque constant: their value is unknown, so nothing may be concluded from comparing them
                raise Undecided(f'comparison involving a formatted (opaque) string: {a!r} == {b!r}')
            return a.s == b.s
        if isinstance(a, (VInt, VReal)) and isinstance(b, (VInt, VReal)):
            ae = z3.ToReal(a.e) if isinstance(a, VInt) and isinstance(b, VReal) else a.e
            be = z3.ToReal(b.e) if isinstance(b, VInt) and isinstance(a, VReal) else b.e
            return ae == be
        if isinstance(a, VBool) and isinstance(b, VBool):
            return a.e == b.e
        if isinstance(a, VBool) and isinstance(b, VInt):
            return z3.If(a.e, 1, 0) == b.e
        if isinstance(a, VInt) and isinstance(b, VBool):
            return self.eq(b, a)
        if isinstance(a, VBytes) and isinstance(b, VBytes):
            return a.e == b.e
        if isinstance(a, VSeq) and isinstance(b, VSeq):
            return a.e == b.e
        if isinstance(a, VTuple) and isinstance(b, VTuple):
            if len(a.items) != len(b.items):
                return False
            cs = [self.eq(x, y) for x, y in zip(a.items, b.items)]
            if any(c is False for c in cs):
                return False
            cs = [c for c in cs if c is not True]
            return z3.And(*cs) if cs else True
        if isinstance(a, VRef) and isinstance(b, VRef):
            if a.addr == b.addr:
                return True
            ha, hb = self.ex.heap[a.addr], self.ex.heap[b.addr]
            if isinstance(ha, HSymList) and isinstance(hb, HSymList):
                return ha.seq == hb.seq
            if isinstance(ha, HList) and isinstance(hb, HList):
                return self.eq(VTuple(ha.items), VTuple(hb.items))
            return False
        if isinstance(a, VAbs) and isinstance(b, VAbs):
            if a.cls != b.cls:
                return False
            return a.key == b.key
        if isinstance(a, (VExcClass,)) and isinstance(b, VExcClass):
            return a.name == b.name
        if isinstance(a, VClass) and isinstance(b, VClass):
            return a.ci is b.ci
        try:
            return lower(a, self.ex) == lower(b, self.ex)
        except TypeError:
            raise Undecided(f'equality of {a!r} and {b!r}')

    def identical(self, a, b):
        """a is b"""
        if a is NONE or b is NONE:
            return self.eq(a, b)
        if isinstance(a, VRef) and isinstance(b, VRef):
            return a.addr == b.addr
        if isinstance(a, VBool) and isinstance(b, VBool):
            return a.e == b.e
        if isinstance(a, VSym) and isinstance(b, VBool):
            return a.t == Val.v_bool(b.e)
        if isinstance(b, VSym) and isinstance(a, VBool):
            return b.t == Val.v_bool(a.e)
        if isinstance(a, VAbs) or isinstance(b, VAbs) or isinstance(a, VSym) or isinstance(b, VSym):
            return self.eq(a, b)
        if isinstance(a, (VExcClass, VClass, VFunc, VExt)):
            if type(a) is not type(b):
                return False
            if isinstance(a, VFunc):
                return a.fi is b.fi
            if isinstance(a, VExt):
                return a.name == b.name
            return self.eq(a, b)
        if type(a) is not type(b):
            return False
        return self.eq(a, b)

    def as_int(self, v, node, what='int operand'):
        if isinstance(v, VInt):
            return v.e
        if isinstance(v, VBool):
            return z3.If(v.e, 1, 0)
        if isinstance(v, VSym):
            self.ex.require('safe', Val.is_v_int(v.t), f'{what} is an int', node)
            return Val.vi(v.t)
        raise Undecided(f'{what}: {v!r} is not an int')

    def as_num(self, v, node):
        """(term, is_real)"""
        if isinstance(v, VReal):
            return v.e, True
        if isinstance(v, VInt):
            return v.e, False
        if isinstance(v, VBool):
            return z3.If(v.e, 1, 0), False
        if isinstance(v, VSym):
            self.ex.require('safe', Val.is_v_int(v.t), 'operand is a number', node)
            return Val.vi(v.t), False
        raise Undecided(f'number expected: {v!r}')

    def as_seq(self, v, node=None):
        """Seq(Val) term for a sequence-like value"""
        if isinstance(v, VSeq):
            return v.e
        if isinstance(v, VTuple):
            if not v.items:
                return z3.Empty(SeqVal)
            us = [z3.Unit(lower(x, self.ex)) for x in v.items]
            return z3.Concat(*us) if len(us) > 1 else us[0]
        if isinstance(v, VRef):
            h = self.ex.heap[v.addr]
            if isinstance(h, HSymList):
                return h.seq
            if isinstance(h, HList):
                return self.as_seq(VTuple(h.items))
        if isinstance(v, VSym):
            return smt.seq_of(v.t)
        raise Undecided(f'sequence expected: {v!r}')

    def sym(self, name, kind='any'):
        """fresh symbolic value of a declared kind"""
        ex = self.ex
        if kind == 'any':
            return VSym(ex.fresh(name, Val))
        if kind == 'int':
            return VInt(ex.fresh(name, smt.Int))
        if kind == 'nat':
            v = ex.fresh(name, smt.Int)
            ex.assume(v >= 0)
            return VInt(v)
        if kind == 'bool':
            return VBool(ex.fresh(name, smt.Bool))
        if kind == 'real':
            return VReal(ex.fresh(name, smt.Real))
        if kind == 'bytes':
            return VBytes(ex.fresh(name, smt.Bytes))
        if kind == 'seq':
            return VSeq(ex.fresh(name, SeqVal))
        if kind == 'none':
            return NONE
        if kind == 'symlist':
            return ex.alloc(HSymList(ex.fresh(name, SeqVal)))
        if kind == 'symset':
            return ex.alloc(HSymSet(ex.fresh(name, z3.ArraySort(Val, smt.Bool))))
        if kind == 'symdict':
            return ex.alloc(HSymDict(ex.fresh(name + '_dom', z3.ArraySort(Val, smt.Bool)),
                                     ex.fresh(name + '_map', z3.ArraySort(Val, Val))))
        if isinstance(kind, tuple) and kind[0] == 'abs':
            key = kind[2] if len(kind) > 2 else ex.fresh(name, Val)
            return VAbs(kind[1], key)
        if isinstance(kind, tuple) and kind[0] == 'const':
            return kind[1]
        if isinstance(kind, tuple) and kind[0] == 'str':
            return VStr(kind[1])
        if isinstance(kind, tuple) and kind[0] == 'symdict':
            d = HSymDict(ex.fresh(name + '_dom', z3.ArraySort(Val, smt.Bool)),
                         ex.fresh(name + '_map', z3.ArraySort(Val, SeqVal if kind[1] == 'symlist' else Val)),
                         vkind=kind[1])
            return ex.alloc(d)
        if isinstance(kind, tuple) and kind[0] == 'opt':
            v = VSym(ex.fresh(name, Val))
            return v
        if callable(kind):
            return kind(self, name)
        raise Undecided(f'unknown declared kind {kind!r} for {name}')

    # ================================================================== names
    def lookup(self, name, frame, node=None):
        f = frame
        while f is not None:
            if name in f.locals:
                v = f.locals[name]
                if v is None:
                    self.throw('UnboundLocalError', name)
                return v
            f = f.parent
        # a name that the function assigns somewhere is a local variable: reading it before assignment is an error
        f = frame
        while f is not None:
            if f.fi is not None and name in self.local_names(f.fi):
                raise PyRaise(self.mkexc('UnboundLocalError', name))
            f = f.parent
        return self.lookup_global(name, frame.module, node)

    def local_names(self, fi):
        ln = getattr(fi, '_local_names', None)
        if ln is None:
            ln = set(self.assigned_names(fi.node.body))
            a = fi.node.args
            for x in a.posonlyargs + a.args + a.kwonlyargs:
                ln.discard(x.arg)
            fi._local_names = ln
        return ln

    def lookup_global(self, name, module, node=None):
        ex = self.ex
        if name == 'logger':
            return LOGGER
        key = (module.name, name)
        if key in ex.ghost.get('__globals__', {}):
            return ex.ghost['__globals__'][key]
        r = ex.repo.resolve_name(module, name) if module else None
        if r is not None:
            return self.from_resolution(r, name)
        if name in self.builtin_fns:
            return self.builtin_fns[name]
        if ex.exc.known(name):
            return VExcClass(name)
        if name in ('True', 'False', 'None'):
            return {'True': VBool(True), 'False': VBool(False), 'None': NONE}[name]
        raise Undecided(f'unresolved name {name} in {module.name if module else "?"}')

    def from_resolution(self, r, name):
        ex = self.ex
        kind = r[0]
        if kind == 'class':
            ci = r[1]
            if ci.name in ex.exc.repo_cls:
                return VExcClass(ci.name)
            return VClass(ci)
        if kind == 'func':
            return VFunc(r[1], None)
        if kind == 'module':
            return VExt('mod:' + r[1])
        if kind == 'extmodule':
            return VExt(r[1])
        if kind == 'ext':
            nm = r[1]
            last = nm.split('.')[-1]
            if ex.exc.known(nm):
                return VExcClass(nm)
            return VExt(nm)
        if kind == 'const':
            e = r[1]
            if isinstance(e, ast.Constant):
                return self.const(e.value)
            if isinstance(e, ast.Call) and ast.unparse(e.func) in ('get_logger', 'logging.getLogger'):
                return LOGGER
            folded = _fold_int(e)
            if folded is not None:
                return VInt(folded)
            if isinstance(e, ast.Call) and isinstance(e.func, ast.Name) and e.func.id == 'getattr' and len(e.args) >= 2 and isinstance(e.args[0], ast.Name) \
                    and isinstance(e.args[1], ast.Constant) and isinstance(e.args[1].value, str):
                # NAME = getattr(module, 'FLAG', default): an opaque constant of that module (a socket flag, a signal number)
                return VExt(f'{e.args[0].id}.{e.args[1].value}')
            raise Undecided(f'module constant {name} = {ast.unparse(e)}')
        raise Undecided(f'resolution {r}')

    def const(self, c):
        if c is None:
            return NONE
        if isinstance(c, bool):
            return VBool(c)
        if isinstance(c, int):
            return VInt(c)
        if isinstance(c, float):
            return VReal(z3.RealVal(repr(c)))
        if isinstance(c, str):
            return VStr(c)
        if isinstance(c, bytes):
            if len(c) == 0:
                return VBytes(z3.Empty(smt.Bytes))
            us = [z3.Unit(z3.BitVecVal(b, 8)) for b in c]
            return VBytes(z3.Concat(*us) if len(us) > 1 else us[0])
        if c is Ellipsis:
            return VStr('...')
        raise Undecided(f'constant {c!r}')

    # ================================================================== expressions
    def eval(self, e, fr):
        m = getattr(self, 'e_' + type(e).__name__, None)
        if m is None:
            raise Undecided(f'unsupported expression {type(e).__name__} at line {e.lineno}: {ast.unparse(e)}')
        return m(e, fr)

    def e_Constant(self, e, fr):
        return self.const(e.value)

    def e_Name(self, e, fr):
        return self.lookup(e.id, fr, e)

    def e_JoinedStr(self, e, fr):
        # f-strings only feed loggers / names / messages: an opaque string
        return VStr('<fstring>')

    def e_Tuple(self, e, fr):
        items = []
        for x in e.elts:
            if isinstance(x, ast.Starred):
                v = self.eval(x.value, fr)
                items.extend(self.concrete_items(v, x))
            else:
                items.append(self.eval(x, fr))
        return VTuple(items)

    def e_List(self, e, fr):
        items = []
        for x in e.elts:
            if isinstance(x, ast.Starred):
                items.extend(self.concrete_items(self.eval(x.value, fr), x))
            else:
                items.append(self.eval(x, fr))
        return self.ex.alloc(HList(items))

    def e_Dict(self, e, fr):
        d = {}
        for k, v in zip(e.keys, e.values):
            if k is None:
                m = self.eval(v, fr)
                if isinstance(m, VRef) and isinstance(self.ex.heap[m.addr], HDict):
                    d.update(self.ex.heap[m.addr].items)
                elif isinstance(m, (VSym, VRef, VAbs)):
                    d[('**', len(d))] = m      # opaque spread, kept in order
                else:
                    raise Undecided('dict spread of ' + repr(m))
            else:
                kv = self.eval(k, fr)
                d[self.pykey(kv)] = self.eval(v, fr)
        return self.ex.alloc(HDict(d))

    def e_Set(self, e, fr):
        raise Undecided('set literal')

    def pykey(self, kv):
        if isinstance(kv, VStr):
            return kv.s
        if isinstance(kv, VInt) and z3.is_int_value(kv.e):
            return kv.e.as_long()
        if isinstance(kv, VRef) and isinstance(self.ex.heap.get(kv.addr), HObj):
            # an object of a repository class that defines neither __eq__ nor __hash__ (e.g. an Enum member: a singleton) is a key by identity;
            # only lookups and stores are supported with such keys (iterating over them is not: the key is kept as an opaque token)
            ci = self.ex.heap[kv.addr].cls
            from .frontend import ClassInfo
            mro = [c for c in self.ex.repo.mro(ci) if isinstance(c, ClassInfo)] if isinstance(ci, ClassInfo) else []
            if mro and not any(m in c.methods for c in mro for m in ('__eq__', '__hash__')):
                return f'<object@{kv.addr}>'
        raise Undecided(f'non-constant dict key {kv!r}')

    def concrete_items(self, v, node=None):
        if isinstance(v, VTuple):
            return list(v.items)
        if isinstance(v, VRef) and isinstance(self.ex.heap[v.addr], HList):
            return list(self.ex.heap[v.addr].items)
        raise Undecided(f'star-expansion of non-concrete sequence {v!r}')

    def e_BoolOp(self, e, fr):
        is_and = isinstance(e.op, ast.And)
        v = self.eval(e.values[0], fr)
        for nxt in e.values[1:]:
            t = self.truth(v)
            if isinstance(t, bool) or z3.is_true(smt.simp(t)) or z3.is_false(smt.simp(t)):
                tb = t if isinstance(t, bool) else z3.is_true(smt.simp(t))
                if is_and and not tb:
                    return v
                if (not is_and) and tb:
                    return v
                v = self.eval(nxt, fr)
                continue
            # symbolic: if both sides are pure booleans, stay symbolic (no fork)
            if isinstance(v, VBool) and self.pure(nxt):
                w = self.eval(nxt, fr)
                if isinstance(w, VBool):
                    v = VBool(z3.And(v.e, w.e) if is_and else z3.Or(v.e, w.e))
                    continue
                # w is not a plain boolean: fall back to forking on v
                tb = self.ex.branch(t, f'L{e.lineno}:{"and" if is_and else "or"}')
                if is_and and not tb:
                    return v
                if (not is_and) and tb:
                    return v
                v = w
                continue
            tb = self.ex.branch(t, f'L{e.lineno}:{"and" if is_and else "or"}')
            if is_and and not tb:
                return v
            if (not is_and) and tb:
                return v
            v = self.eval(nxt, fr)
        return v

    def pure(self, e):
        """syntactically side-effect free and non-raising enough to evaluate eagerly"""
        for n in ast.walk(e):
            if isinstance(n, (ast.Call, ast.Subscript, ast.Await, ast.Yield, ast.NamedExpr)):
                return False
        return True

    def e_UnaryOp(self, e, fr):
        v = self.eval(e.operand, fr)
        if isinstance(e.op, ast.Not):
            t = self.truth(v)
            return VBool(not t) if isinstance(t, bool) else VBool(z3.Not(t))
        if isinstance(e.op, ast.USub):
            t, real = self.as_num(v, e)
            if not real and z3.is_int_value(t):
                return VInt(-t.as_long())
            return VReal(-t) if real else VInt(-t)
        raise Undecided('unary ' + type(e.op).__name__)

    def e_BinOp(self, e, fr):
        a = self.eval(e.left, fr)
        b = self.eval(e.right, fr)
        return self.binop(e.op, a, b, e)

    def binop(self, op, a, b, node):
        ex = self.ex
        if isinstance(op, ast.Add):
            if isinstance(a, VBytes) and isinstance(b, VBytes):
                return VBytes(z3.Concat(a.e, b.e))
            if isinstance(a, VStr) and isinstance(b, VStr):
                return VStr(a.s + b.s)
            if isinstance(a, VStr) or isinstance(b, VStr):
                return VStr('<str>')
            if isinstance(a, VTuple) and isinstance(b, VTuple):
                return VTuple(a.items + b.items)
            if isinstance(a, (VSeq, VTuple)) and isinstance(b, (VSeq, VTuple)):
                return VSeq(z3.Concat(self.as_seq(a), self.as_seq(b)))
            if isinstance(a, VRef) and isinstance(b, VRef) and isinstance(ex.heap[a.addr], (HList, HSymList)) \
                    and isinstance(ex.heap[b.addr], (HList, HSymList)):
                sa, sb = self.as_seq(a), self.as_seq(b)
                new = z3.Concat(sa, sb)
                self.fact_concat(new, [sa, sb])
                return ex.alloc(HSymList(new))
        if isinstance(op, (ast.Add, ast.Sub, ast.Mult)):
            x, xr = self.as_num(a, node)
            y, yr = self.as_num(b, node)
            if xr != yr:
                x = x if xr else z3.ToReal(x)
                y = y if yr else z3.ToReal(y)
            if not (xr or yr) and z3.is_int_value(x) and z3.is_int_value(y):
                xi, yi = x.as_long(), y.as_long()
                return VInt(xi + yi if isinstance(op, ast.Add) else (xi - yi if isinstance(op, ast.Sub) else xi * yi))
            r = x + y if isinstance(op, ast.Add) else (x - y if isinstance(op, ast.Sub) else x * y)
            return VReal(r) if (xr or yr) else VInt(r)
        if isinstance(op, ast.Mod) and isinstance(a, VStr):
            return VStr('<str>')
        if isinstance(op, (ast.FloorDiv, ast.Mod)) and isinstance(a, (VInt, VBool)) and isinstance(b, (VInt, VBool)):
            x, _ = self.as_num(a, node)
            y, _ = self.as_num(b, node)
            if z3.is_int_value(y):
                yi = y.as_long()
                if yi == 0:
                    self.throw('ZeroDivisionError', 'integer division or modulo by zero')
                if z3.is_int_value(x):
                    xi = x.as_long()
                    return VInt(xi // yi if isinstance(op, ast.FloorDiv) else xi % yi)
                if yi > 0:
                    # SMT-LIB div / mod (remainder in [0, y)) coincide with Python's floor division for a positive divisor
                    return VInt(x / y if isinstance(op, ast.FloorDiv) else x % y)
        raise Undecided(f'binary operator {type(op).__name__} on {a!r}, {b!r}')

    def e_Compare(self, e, fr):
        left = self.eval(e.left, fr)
        res = None
        for op, rn in zip(e.ops, e.comparators):
            right = self.eval(rn, fr)
            c = self.compare(op, left, right, e)
            if res is None:
                res = c
            else:
                res = self.land(res, c)
            left = right
        return VBool(res) if not isinstance(res, V) else res

    def land(self, a, b):
        if isinstance(a, bool):
            return b if a else False
        if isinstance(b, bool):
            return a if b else False
        return z3.And(a, b)

    def lnot(self, a):
        return (not a) if isinstance(a, bool) else z3.Not(a)

    def compare(self, op, a, b, node):
        if isinstance(op, ast.Eq):
            return self.eq(a, b)
        if isinstance(op, ast.NotEq):
            return self.lnot(self.eq(a, b))
        if isinstance(op, ast.Is):
            return self.identical(a, b)
        if isinstance(op, ast.IsNot):
            return self.lnot(self.identical(a, b))
        if isinstance(op, (ast.Lt, ast.LtE, ast.Gt, ast.GtE)):
            if a is NONE or b is NONE:
                self.throw('TypeError', 'ordering comparison with None')
            x, xr = self.as_num(a, node)
            y, yr = self.as_num(b, node)
            if xr != yr:
                x = x if xr else z3.ToReal(x)
                y = y if yr else z3.ToReal(y)
            return {ast.Lt: x < y, ast.LtE: x <= y, ast.Gt: x > y, ast.GtE: x >= y}[type(op)]
        if isinstance(op, (ast.In, ast.NotIn)):
            r = self.contains(b, a, node)
            return r if isinstance(op, ast.In) else self.lnot(r)
        raise Undecided('comparison ' + type(op).__name__)

    def contains(self, cont, item, node):
        ex = self.ex
        if isinstance(cont, VRef):
            h = ex.heap[cont.addr]
            if isinstance(h, HSymSet):
                return z3.Select(h.dom, lower(item, ex))
            if isinstance(h, HSymDict):
                return z3.Select(h.dom, lower(item, ex))
            if isinstance(h, HDict):
                if isinstance(item, VStr):
                    if any(isinstance(k, tuple) for k in h.items):
                        raise Undecided('membership in a dict with an opaque spread')
                    return item.s in h.items
                if isinstance(item, VRef) or (isinstance(item, VInt) and z3.is_int_value(item.e)):
                    if any(isinstance(k, tuple) for k in h.items):
                        raise Undecided('membership in a dict with an opaque spread')
                    return self.pykey(item) in h.items
                raise Undecided('symbolic key membership in concrete dict')
            if isinstance(h, HList):
                cs = [self.eq(item, x) for x in h.items]
                if any(c is True for c in cs):
                    return True
                cs = [c for c in cs if c is not False]
                return z3.Or(*cs) if cs else False
            if isinstance(h, HSymList):
                from .interp_data import cnt_f
                t = lower(item, ex)
                c = z3.Contains(h.seq, z3.Unit(t))
                ex.assume(c == (cnt_f(t, h.seq) > 0))      # membership is "occurs at least once" (definition of cnt)
                return c
            if isinstance(h, HObj):
                d = h.attrs.get('__dictdata__')
                if d is not None:
                    return self.contains(d, item, node)
        if isinstance(cont, VTuple):
            cs = [self.eq(item, x) for x in cont.items]
            if any(c is True for c in cs):
                return True
            cs = [c for c in cs if c is not False]
            return z3.Or(*cs) if cs else False
        if isinstance(cont, VStr) and isinstance(item, VStr):
            return item.s in cont.s
        m = self.method_model(cont, '__contains__')
        if m is not None:
            r = m(self.ex, [cont, item], {})
            return self.truth(r)
        raise Undecided(f'membership test in {cont!r}')

    def e_IfExp(self, e, fr):
        c = self.eval(e.test, fr)
        if self.cond(c, f'L{e.lineno}:ifexp'):
            return self.eval(e.body, fr)
        return self.eval(e.orelse, fr)

    def e_Attribute(self, e, fr):
        obj = self.eval(e.value, fr)
        return self.getattr(obj, e.attr, e, fr)

    def e_Subscript(self, e, fr):
        obj = self.eval(e.value, fr)
        if isinstance(e.slice, ast.Slice):
            lo = self.eval(e.slice.lower, fr) if e.slice.lower else None
            hi = self.eval(e.slice.upper, fr) if e.slice.upper else None
            if e.slice.step is not None:
                raise Undecided('slice step')
            return self.getslice(obj, lo, hi, e)
        idx = self.eval(e.slice, fr)
        return self.getitem(obj, idx, e)

    def e_Lambda(self, e, fr):
        raise Undecided('lambda')

    def e_Starred(self, e, fr):
        raise Undecided('starred expression outside call/tuple')

    def e_ListComp(self, e, fr):
        return self.comprehension(e, fr, 'list')

    def e_GeneratorExp(self, e, fr):
        return self.comprehension(e, fr, 'gen')

    def e_SetComp(self, e, fr):
        return self.comprehension(e, fr, 'set')

    def e_DictComp(self, e, fr):
        return self.comprehension(e, fr, 'dict')

    def comprehension(self, e, fr, kind):
        h = self.ex.ghost.get('__comp_hooks__', {})
        key = (fr.fi.qualname if fr.fi else None, kind, self.comp_ordinal(e, fr))
        if key in h:
            return h[key](self, e, fr)
        if len(e.generators) != 1:
            raise Undecided('nested comprehension')
        g = e.generators[0]
        it = self.eval(g.iter, fr)
        items = self.iter_concrete(it)
        if items is None and kind in ('gen', 'set') and type(it).__name__ == 'VIterView' and it.kind == 'items' \
                and isinstance(g.target, ast.Tuple) and len(g.target.elts) == 2 and isinstance(e.elt, ast.Name) \
                and isinstance(g.target.elts[0], ast.Name) and e.elt.id == g.target.elts[0].id:
            return self.keyset_comprehension(e, g, it, fr)
        if items is None and kind in ('list', 'gen') and type(it).__name__ == 'VIterView' and it.kind in ('values', 'keys') \
                and isinstance(g.target, ast.Name) and isinstance(e.elt, ast.Name) and e.elt.id == g.target.id:
            return self.dictview_filter(e, g, it, fr)
        if items is None and kind in ('gen', 'set') and type(it).__name__ == 'VIterView' and it.kind == 'values' and isinstance(g.target, ast.Name):
            return self.valueset_comprehension(e, g, it, fr)
        if items is None and kind in ('list', 'gen') and isinstance(g.target, ast.Name) and isinstance(e.elt, ast.Name) \
                and e.elt.id == g.target.id and (self.is_symlist(it) or isinstance(it, VSeq)):
            return self.filter_comprehension(e, g, it, fr)
        if items is None:
            raise Undecided(f'comprehension over symbolic collection at line {e.lineno} '
                            f'(needs a comprehension hook {key})')
        out = []
        sub = Frame(fr.fi, parent=fr, module=fr.module)
        sub.self_cls, sub.owner = fr.self_cls, fr.owner
        for x in items:
            self.assign(g.target, x, sub)
            ok = True
            for c in g.ifs:
                if not self.cond(self.eval(c, sub), f'L{e.lineno}:compif'):
                    ok = False
                    break
            if not ok:
                continue
            if kind == 'dict':
                out.append((self.eval(e.key, sub), self.eval(e.value, sub)))
            else:
                out.append(self.eval(e.elt, sub))
        if kind == 'dict':
            return self.ex.alloc(HDict({self.pykey(k): v for k, v in out}))
        if kind == 'set':
            raise Undecided('set comprehension over concrete items')
        return self.ex.alloc(HList(out))

    def keyset_comprehension(self, e, g, it, fr):
        """(k for k, v in d.items() if P(v)) over a symbolic dict: the set {k | k in d and P(d[k])} as a lambda array"""
        ex = self.ex
        h = ex.heap[it.base.addr]
        kv = z3.Const('__kbound__', Val)
        sub = Frame(fr.fi, parent=fr, module=fr.module)
        sub.self_cls, sub.owner = fr.self_cls, fr.owner
        sub.locals[g.target.elts[0].id] = VSym(kv)
        val = z3.Select(h.map, kv)
        sub.locals[g.target.elts[1].id] = VSeq(val) if h.vkind == 'symlist' else VSym(val)
        p = True
        for c in g.ifs:
            p = self.land(p, self.truth(self.eval(c, sub)))
        pz = p if isinstance(p, z3.ExprRef) else z3.BoolVal(bool(p))
        dom = z3.Lambda([kv], z3.And(z3.Select(h.dom, kv), pz))
        return ex.alloc(HSymSet(dom))

    def valueset_comprehension(self, e, g, it, fr):
        """{f(v) for v in d.values() if P(v)} over a symbolic dict, decided only when f is the inverse of the dict's own key map, i.e. f(d[k]) simplifies to k
        (a worker registered under its own id, f = .id): then the result is {k | k in d and P(d[k])} as a lambda array.  Anything else is undecided."""
        ex = self.ex
        h = ex.heap[it.base.addr]
        kv = z3.Const('__kbound__', Val)
        sub = Frame(fr.fi, parent=fr, module=fr.module)
        sub.self_cls, sub.owner = fr.self_cls, fr.owner
        hint = h.vkind if isinstance(h.vkind, tuple) else None
        sub.locals[g.target.id] = VSym(z3.Select(h.map, kv), hint=hint)
        p = True
        for c in g.ifs:
            p = self.land(p, self.truth(self.eval(c, sub)))
        pz = p if isinstance(p, z3.ExprRef) else z3.BoolVal(bool(p))
        elt = self.eval(e.elt, sub)
        from .values import lower
        et = smt.simp(lower(elt, ex))
        if not et.eq(kv):
            raise Undecided(f'comprehension over the values of a symbolic dict at line {e.lineno}: the element expression is not the key of the value')
        return ex.alloc(HSymSet(z3.Lambda([kv], z3.And(z3.Select(h.dom, kv), pz))))

    def dictview_filter(self, e, g, it, fr):
        """[v for v in d.values() if P(v)] over a symbolic dict: a symbolic list each of whose elements is a value of d
        (as d was then) satisfying P (as evaluated then); the per-element fact is attached to the list and assumed
        when an element is taken out of it"""
        ex = self.ex
        h = ex.heap[it.base.addr]
        kv = z3.Const('__kbound__', Val)
        sub = Frame(fr.fi, parent=fr, module=fr.module)
        sub.self_cls, sub.owner = fr.self_cls, fr.owner
        hint = h.vkind if isinstance(h.vkind, tuple) else None
        if it.kind == 'values':
            elem = z3.Select(h.map, kv)
            sub.locals[g.target.id] = VSym(elem, hint=hint)
        else:
            elem = kv
            sub.locals[g.target.id] = VSym(kv)
        p = True
        for c in g.ifs:
            p = self.land(p, self.truth(self.eval(c, sub)))
        pz = p if isinstance(p, z3.ExprRef) else z3.BoolVal(bool(p))
        dom0 = h.dom
        R = ex.fresh('filtered', SeqVal)
        res = ex.alloc(HSymList(R))
        hobj = ex.heap[res.addr]
        hobj.elem_hint = hint

        def elem_fact(ex_, term, kind=it.kind):
            key = Val.vakey(term) if (kind == 'values' and hint and hint[0] == 'abs') else term
            ex_.assume(z3.substitute(z3.And(z3.Select(dom0, kv), pz), (kv, key)))
            if kind == 'values':
                ex_.assume(term == z3.substitute(elem, (kv, key)))
        hobj.elem_fact = elem_fact
        return res

    def filter_comprehension(self, e, g, it, fr):
        """[x for x in S if P(x)] over a symbolic sequence: the result R is characterised, for every tracked
        (Skolem) element e, by cnt(e, R) == (P(e) ? cnt(e, S) : 0); order is not modelled."""
        from .interp_data import cnt_f
        ex = self.ex
        S = self.seq_get(it) if self.is_symlist(it) else it.e
        hint = getattr(ex.heap[it.addr], 'elem_hint', None) if isinstance(it, VRef) else None
        R = ex.fresh('filtered', SeqVal)
        ex.assume(z3.Length(R) <= z3.Length(S))
        sub = Frame(fr.fi, parent=fr, module=fr.module)
        sub.self_cls, sub.owner = fr.self_cls, fr.owner
        for el in self.tracked():
            self.assign(g.target, VSym(el, hint=hint), sub)
            p = True
            for c in g.ifs:
                t = self.truth(self.eval(c, sub))
                p = self.land(p, t)
            pz = p if isinstance(p, z3.ExprRef) else z3.BoolVal(bool(p))
            ex.assume(cnt_f(el, R) == z3.If(pz, cnt_f(el, S), 0))
            self.fact_part(el, S)
        res = ex.alloc(HSymList(R))
        ex.heap[res.addr].elem_hint = hint
        return res

    def comp_ordinal(self, e, fr):
        if fr.fi is None:
            return 0
        n = 0
        for node in ast.walk(fr.fi.node):
            if isinstance(node, (ast.ListComp, ast.GeneratorExp, ast.SetComp, ast.DictComp)):
                if node is e:
                    return n
                n += 1
        return -1

    def iter_concrete(self, v):
        if isinstance(v, VTuple):
            return list(v.items)
        if isinstance(v, VRef):
            h = self.ex.heap[v.addr]
            if isinstance(h, HList):
                return list(h.items)
            if isinstance(h, HDict):
                if any(isinstance(k, tuple) for k in h.items):
                    return None
                return [VStr(k) if isinstance(k, str) else VInt(k) for k in h.items]
        return None

    # ------------------------------------------------------------------ attribute access
    def getattr(self, obj, name, node=None, fr=None):
        ex = self.ex
        if obj is LOGGER:
            return VModel('logger.' + name, lambda ex, a, k: NONE)
        if isinstance(obj, VRef):
            h = ex.heap[obj.addr]
            if isinstance(h, HObj):
                return self.obj_getattr(obj, h, name, node)
            m = self.container_method(obj, h, name)
            if m is not None:
                return m
            raise Undecided(f'attribute {name} of {type(h).__name__}')
        if isinstance(obj, VAbs):
            ac = ex.abs_classes.get(obj.cls)
            if ac is None:
                raise Undecided(f'abstract class {obj.cls} not declared')
            return ac.getattr(self, obj, name, node)
        if isinstance(obj, VSym):
            if obj.hint and obj.hint[0] == 'abs':
                return self.getattr(VAbs(obj.hint[1], Val.vakey(obj.t)), name, node, fr)
            raise Undecided(f'attribute {name} of a dynamically typed value (line {getattr(node, "lineno", "?")})')
        if isinstance(obj, VClass):
            return self.class_getattr(obj.ci, name, node)
        if type(obj).__name__ == 'VSuper':
            return self.super_getattr(obj, name, node)
        if isinstance(obj, VDictView):
            return self.dictview_method(obj, name)
        if type(obj).__name__ == 'VListAt':
            m = self.value_method(obj, name)
            if m is not None:
                return m
        if isinstance(obj, VExt):
            full = obj.name + '.' + name
            if full in ex.ext_models:
                return VModel(full, ex.ext_models[full])
            if full.startswith('mod:'):
                modname = obj.name[4:]
                mi = ex.repo.modules[modname]
                r = ex.repo.resolve_name(mi, name)
                if r is None:
                    if modname + '.' + name in ex.repo.modules:
                        return VExt('mod:' + modname + '.' + name)
                    if ex.ghost.get('module_attr_errors'):
                        self.throw('AttributeError', f'module {modname} has no attribute {name}')
                    raise Undecided(f'{modname}.{name} unresolved')
                if r[0] == 'const':
                    key = (modname, name)
                    if key in ex.ghost.get('__globals__', {}):
                        return ex.ghost['__globals__'][key]
                return self.from_resolution(r, name)
            if ex.exc.known(full):
                return VExcClass(full)
            if full in ex.ext_models:
                return VModel(full, ex.ext_models[full])
            if full in ex.ghost.get('__extconst__', {}):
                return ex.ghost['__extconst__'][full]
            return VExt(full)
        if isinstance(obj, VExc):
            if name == 'args':
                return VTuple(obj.args)
            if name in obj.fields:
                return obj.fields[name]
            raise Undecided(f'attribute {name} of exception {obj.cls}')
        if isinstance(obj, VTuple) or isinstance(obj, VSeq) or isinstance(obj, VStr) or isinstance(obj, VBytes):
            m = self.value_method(obj, name)
            if m is not None:
                return m
        if isinstance(obj, VFunc) and name == '__get__':
            # descriptor protocol of plain functions: f.__get__(instance, owner) is the method bound to instance
            return VModel('function.__get__', lambda ex_, a, k, f=obj: VBound(f, a[0]))
        if isinstance(obj, VFunc) and name == '__func__':
            return obj
        if isinstance(obj, VBound) and name == '__func__':
            return obj.func
        if isinstance(obj, VExcClass) and name == '__name__':
            return VStr(obj.name)
        raise Undecided(f'attribute {name} of {obj!r}')

    def obj_getattr(self, ref, h, name, node):
        ex = self.ex
        if name in h.attrs:
            v = h.attrs[name]
            if isinstance(v, _Absent):
                raise PyRaise(self.mkexc('AttributeError', name))
            if isinstance(v, _Maybe):
                if ex.branch(v.present, f'hasattr:{name}'):
                    return v.value
                raise PyRaise(self.mkexc('AttributeError', name))
            return v
        if name == '__dict__':
            return VDictView(ref)
        if name == '__class__':
            return VClass(h.cls)
        ci = h.cls
        if isinstance(ci, ClassInfo):
            found, owner = ex.repo.lookup_method(ci, name)
            if found is not None:
                return self.bind_class_member(found, owner, ref, ci, name)
            ext = owner
            # external base (dict, pickle.Pickler ...): modelled methods
            m = self.method_model(ref, name)
            if m is not None:
                return VBound(VModel(f'{ext}.{name}', m), ref)
        decl = ex.class_fields.get(ci.qualname if isinstance(ci, ClassInfo) else ci, {})
        if name in decl:
            raise Undecided(f'declared field {name} not initialised')
        # not found anywhere: AttributeError
        raise PyRaise(self.mkexc('AttributeError', name))

    def bind_class_member(self, found, owner, self_v, ci, name):
        if isinstance(found, tuple) and found[0] == 'attr':
            return self.class_attr_value(owner, name, found[1])
        fi = found
        if fi.kind == 'property':
            return self.call_function(VFunc(fi), [self_v], {}, owner=owner, self_cls=ci)
        if fi.kind == 'classproperty':
            return self.call_function(VFunc(fi), [VClass(ci)], {'inst': self_v if self_v is not None else NONE},
                                      owner=owner, self_cls=ci)
        if fi.kind == 'staticmethod':
            return VFunc(fi)
        if fi.kind == 'classmethod':
            return VBound(VFunc(fi), VClass(ci), owner)
        if self_v is None:
            return VFunc(fi)
        return VBound(VFunc(fi), self_v, owner)

    def class_attr_value(self, owner, name, expr):
        ex = self.ex
        key = (owner.qualname, name)
        hook = ex.ghost.get('__classattr_access_hook__')
        if hook is not None:
            hook(self, key, 'read')
        if key in ex.class_attrs:
            return ex.class_attrs[key]
        if isinstance(expr, ast.Constant):
            return self.const(expr.value)
        raise Undecided(f'class attribute {owner.qualname}.{name} has no declared model')

    def class_getattr(self, ci, name, node):
        ex = self.ex
        found, owner = ex.repo.lookup_method(ci, name)
        if found is None:
            mci = self.metaclass_of(ci)
            if mci is not None:
                f2, o2 = ex.repo.lookup_method(mci, name)
                if f2 is not None:
                    if isinstance(f2, tuple):
                        return self.class_attr_value(o2, name, f2[1])
                    return VBound(VFunc(f2), VClass(ci), o2)
            if name == '__name__':
                return VStr(ci.name)
            if name in ci.nested:
                return VClass(ci.nested[name])
            if name == '__init__' or name == '__mro__':
                raise Undecided(f'{ci.qualname}.{name}')
            raise PyRaise(self.mkexc('AttributeError', name))
        return self.bind_class_member(found, owner, None, ci, name)

    def metaclass_of(self, ci):
        ex = self.ex
        for c in ex.repo.mro(ci):
            if isinstance(c, ClassInfo) and c.metaclass is not None:
                m = c.metaclass
                r = None
                if isinstance(m, ast.Name):
                    r = ex.repo.resolve_name(c.module, m.id)
                elif isinstance(m, ast.Attribute) and isinstance(m.value, ast.Name):
                    b = ex.repo.resolve_name(c.module, m.value.id)
                    if b and b[0] == 'module':
                        r = ex.repo.resolve_name(ex.repo.modules[b[1]], m.attr)
                if r and r[0] == 'class':
                    return r[1]
        return None

    def hasattr(self, obj, name):
        ex = self.ex
        if isinstance(obj, VRef) and isinstance(ex.heap[obj.addr], HObj):
            h = ex.heap[obj.addr]
            if name in h.attrs:
                v = h.attrs[name]
                if isinstance(v, _Absent):
                    return False
                if isinstance(v, _Maybe):
                    return v.present
                return True
            if isinstance(h.cls, ClassInfo):
                found, owner = ex.repo.lookup_method(h.cls, name)
                if found is not None:
                    return True
                if isinstance(owner, str):
                    key = (owner, name)
                    ans = ex.ghost.get('__ext_hasattr__', {}).get(key)
                    if ans is not None:
                        return ans
                    if name.startswith('__getnewargs'):
                        return False
                    raise Undecided(f'hasattr({owner} instance, {name})')
            return False
        if isinstance(obj, VAbs):
            ac = ex.abs_classes[obj.cls]
            return ac.hasattr(self, obj, name)
        raise Undecided(f'hasattr on {obj!r}')

    def setattr(self, obj, name, value, node=None, fr=None):
        ex = self.ex
        if isinstance(obj, VRef):
            h = ex.heap[obj.addr]
            if isinstance(h, HObj):
                if isinstance(h.cls, ClassInfo):
                    st = ex.repo.lookup_setter(h.cls, name)
                    found, owner = ex.repo.lookup_method(h.cls, name)
                    if found is not None and not isinstance(found, tuple) and found.kind == 'property':
                        if st is None:
                            self.throw('AttributeError', f"can't set attribute {name}")
                        self.call_function(VFunc(st), [obj, value], {}, owner=st.cls, self_cls=h.cls)
                        return
                hook = ex.ghost.get('__setattr_hooks__', {}).get(name)
                if hook:
                    hook(self, obj, h, value)
                value = self.coerce_kind(value, ex.ghost.get('__attr_kinds__', {}).get(name))
                h.attrs[name] = value
                return
        if isinstance(obj, VAbs):
            ac = ex.abs_classes[obj.cls]
            return ac.setattr(self, obj, name, value, node)
        if isinstance(obj, VClass):
            found, owner = ex.repo.lookup_method(obj.ci, name)
            hook = ex.ghost.get('__classattr_access_hook__')
            if hook is not None:
                hook(self, ((owner.qualname if isinstance(owner, ClassInfo) and found is not None else obj.ci.qualname), name), 'write')
            ex.class_attrs[((owner.qualname if isinstance(owner, ClassInfo) and found is not None else obj.ci.qualname), name)] = value
            ex.note(f'classattr:{obj.ci.name}.{name}')
            return
        raise Undecided(f'attribute store {name} on {obj!r}')

    def delattr(self, obj, name, node=None):
        ex = self.ex
        if isinstance(obj, VRef) and isinstance(ex.heap[obj.addr], HObj):
            h = ex.heap[obj.addr]
            if name in h.attrs and not isinstance(h.attrs[name], _Absent):
                v = h.attrs[name]
                if isinstance(v, _Maybe):
                    ex.require('safe', v.present, f'del of attribute {name} that exists', node)
                del h.attrs[name]
                return
            self.throw('AttributeError', name)
        if isinstance(obj, VAbs):
            return ex.abs_classes[obj.cls].delattr(self, obj, name, node)
        raise Undecided(f'del attribute {name} on {obj!r}')


def _dv_methods(I, view, name):
    ex = I.ex
    h = ex.heap[view.ref.addr]
    if name == 'clear':
        def f(ex_, a, k):
            hook = ex_.ghost.get('__dict_clear__')
            if hook is not None:
                hook(I, view.ref)
            h.attrs.clear()
            return NONE
    elif name == 'copy':
        def f(ex_, a, k):
            return ex.alloc(HDict(dict(h.attrs)))
    elif name == 'update':
        def f(ex_, a, k):
            src = a[0]
            if isinstance(src, VRef) and isinstance(ex.heap[src.addr], HDict):
                items = ex.heap[src.addr].items
                if any(isinstance(kk, tuple) for kk in items):
                    raise Undecided('__dict__.update with opaque spread')
                for kk, vv in items.items():
                    h.attrs[kk] = vv
                return NONE
            hook = ex.ghost.get('__dict_update_opaque__')
            if hook is not None:
                return hook(I, view.ref, src)
            raise Undecided('__dict__.update(opaque state)')
    else:
        raise Undecided(f'__dict__.{name}')
    return VModel('__dict__.' + name, f)


InterpBase.dictview_method = lambda self, view, name: _dv_methods(self, view, name)


class _Absent:
    """marker: attribute known to be absent"""


ABSENT = _Absent()


class _Maybe:
    """attribute that may be absent: present is a z3 Bool"""
    def __init__(self, present, value):
        self.present = present
        self.value = value


class VDictView(V):
    """obj.__dict__"""
    def __init__(self, ref):
        self.ref = ref


from .interp_data import DataMixin      # noqa: E402
from .interp_calls import CallMixin     # noqa: E402
from .interp_stmts import StmtMixin     # noqa: E402


class Interp(StmtMixin, CallMixin, DataMixin, InterpBase):
    pass
