"""Front end of pyvc: reads the *real* source of /repo/pyworkers on every run.

Nothing here is a copy of repository code: functions are kept as the ast.FunctionDef nodes of
the files on disk; the class table (bases, C3 MRO, methods, properties, class attributes) is
recomputed from those files each time.
"""
import ast
import hashlib
import os

REPO = os.environ.get('PYWORKERS_REPO', '/repo')
PKG = 'pyworkers'


class FuncInfo:
    def __init__(self, qualname, node, module, cls=None, kind='function', parent=None, src=''):
        self.qualname = qualname          # e.g. pyworkers.pool.Pool.run.<handle_death>
        self.node = node
        self.module = module              # ModuleInfo
        self.cls = cls                    # ClassInfo or None
        self.kind = kind                  # function | method | property | setter | classmethod | staticmethod | classproperty
        self.parent = parent              # enclosing FuncInfo for nested defs
        self.src = src
        self.sha = hashlib.sha256(src.encode()).hexdigest()[:16]

    @property
    def name(self):
        return self.node.name

    def where(self):
        return f'{self.module.relpath}:{self.node.lineno}'

    def __repr__(self):
        return f'<Func {self.qualname}>'


class ClassInfo:
    def __init__(self, name, module, node):
        self.name = name
        self.module = module
        self.node = node
        self.qualname = f'{module.name}.{name}'
        self.base_exprs = node.bases
        self.bases = []        # resolved: ClassInfo or str (external name)
        self.methods = {}      # name -> FuncInfo (plain defs, property getters, classprops ...)
        self.setters = {}      # name -> FuncInfo
        self.attrs = {}        # class-level assignments name -> ast expr
        self.nested = {}       # nested classes
        self.metaclass = None
        self.mro = None

    def __repr__(self):
        return f'<Class {self.qualname}>'


class ModuleInfo:
    def __init__(self, name, path, relpath, tree, source):
        self.name = name
        self.path = path
        self.relpath = relpath
        self.tree = tree
        self.source = source
        self.funcs = {}
        self.classes = {}
        self.imports = {}      # local name -> ('module', dotted) | ('from', dotted_module, name)
        self.consts = {}       # name -> ast expr (module level simple assignments)


def _decorator_names(node):
    out = []
    for d in node.decorator_list:
        if isinstance(d, ast.Name):
            out.append(d.id)
        elif isinstance(d, ast.Attribute):
            out.append(ast.unparse(d))
        else:
            out.append(ast.unparse(d))
    return out


class Repo:
    def __init__(self, root=None, overrides=None, pkg=None):
        """overrides: {relpath: source text} used by the self-test (in-memory mutants)."""
        self.root = root or REPO
        self.pkg = pkg or PKG
        self.modules = {}
        self.funcs = {}        # qualname -> FuncInfo  (incl. nested: parent.<name>)
        self.classes = {}      # qualname -> ClassInfo
        self.overrides = overrides or {}
        self._load()
        self._resolve()

    # ------------------------------------------------------------------ loading
    def _load(self):
        pkgdir = os.path.join(self.root, self.pkg)
        for dirpath, _dirs, files in os.walk(pkgdir):
            for fn in sorted(files):
                if not fn.endswith('.py'):
                    continue
                path = os.path.join(dirpath, fn)
                rel = os.path.relpath(path, self.root)
                if rel in self.overrides:
                    src = self.overrides[rel]
                else:
                    with open(path, encoding='utf-8') as f:
                        src = f.read()
                modname = rel[:-3].replace(os.sep, '.')
                if modname.endswith('.__init__'):
                    modname = modname[:-9]
                tree = ast.parse(src, filename=path)
                mi = ModuleInfo(modname, path, rel, tree, src)
                self.modules[modname] = mi
                self._scan_module(mi)

    def _seg(self, mi, node):
        return ast.get_source_segment(mi.source, node) or ''

    def _scan_module(self, mi):
        def scan_body(body, target_funcs, prefix, cls=None, parent=None):
            for st in body:
                if isinstance(st, (ast.FunctionDef,)):
                    self._add_func(mi, st, prefix, cls, parent, target_funcs)
                elif isinstance(st, ast.ClassDef) and cls is None and parent is None:
                    self._add_class(mi, st)
                elif isinstance(st, ast.If) and cls is None and parent is None:
                    # module-level conditional definitions (utils.gettid): take both arms,
                    # first arm wins (python >= 3.8 on this image)
                    scan_body(st.orelse, target_funcs, prefix, cls, parent)
                    scan_body(st.body, target_funcs, prefix, cls, parent)
        for st in mi.tree.body:
            if isinstance(st, ast.Import):
                for a in st.names:
                    mi.imports[a.asname or a.name.split('.')[0]] = ('module', a.name if a.asname else a.name.split('.')[0])
            elif isinstance(st, ast.ImportFrom):
                base = st.module or ''
                if st.level:
                    parts = mi.name.split('.')
                    if not mi.relpath.endswith('__init__.py'):
                        parts = parts[:-1]
                    if st.level > 1:
                        parts = parts[:-(st.level - 1)]
                    base = '.'.join(parts + ([st.module] if st.module else []))
                for a in st.names:
                    mi.imports[a.asname or a.name] = ('from', base, a.name)
            elif isinstance(st, ast.Assign) and len(st.targets) == 1 and isinstance(st.targets[0], ast.Name):
                mi.consts[st.targets[0].id] = st.value
        scan_body(mi.tree.body, mi.funcs, mi.name)

    def _add_func(self, mi, node, prefix, cls, parent, table):
        decos = _decorator_names(node)
        kind = 'function' if cls is None else 'method'
        if 'classproperty' in decos:
            kind = 'classproperty'
        elif 'property' in decos:
            kind = 'property'
        elif any(d.endswith('.setter') for d in decos):
            kind = 'setter'
        elif 'classmethod' in decos:
            kind = 'classmethod'
        elif 'staticmethod' in decos:
            kind = 'staticmethod'
        elif 'contextlib.contextmanager' in decos or 'contextmanager' in decos:
            kind = 'contextmanager' if cls is None else 'method_contextmanager'
        if parent is not None:
            qn = f'{parent.qualname}.<{node.name}>'
        else:
            qn = f'{prefix}.{node.name}'
        fi = FuncInfo(qn, node, mi, cls, kind, parent, self._seg(mi, node))
        if kind == 'setter':
            if cls is not None:
                cls.setters[node.name] = fi
            qn = qn + '.setter'
            fi.qualname = qn
        else:
            table[node.name] = fi
        self.funcs[qn] = fi
        # nested defs (any depth, inside any statement)
        for sub in ast.walk(node):
            if sub is node:
                continue
        self._scan_nested(mi, node, fi)
        return fi

    def _scan_nested(self, mi, node, parent_fi):
        def visit(stmts):
            for st in stmts:
                if isinstance(st, ast.FunctionDef):
                    self._add_func(mi, st, None, None, parent_fi, {})
                elif isinstance(st, ast.ClassDef):
                    continue
                else:
                    for fld in ('body', 'orelse', 'finalbody'):
                        if hasattr(st, fld):
                            visit(getattr(st, fld))
                    if isinstance(st, ast.Try):
                        for h in st.handlers:
                            visit(h.body)
        visit(node.body)

    def _add_class(self, mi, node, outer=None):
        ci = ClassInfo(node.name, mi, node)
        if outer is not None:
            ci.qualname = f'{outer.qualname}.{node.name}'
            outer.nested[node.name] = ci
        else:
            mi.classes[node.name] = ci
        self.classes[ci.qualname] = ci
        for kw in node.keywords:
            if kw.arg == 'metaclass':
                ci.metaclass = kw.value
        for st in node.body:
            if isinstance(st, ast.FunctionDef):
                self._add_func(mi, st, ci.qualname, ci, None, ci.methods)
            elif isinstance(st, ast.Assign) and len(st.targets) == 1 and isinstance(st.targets[0], ast.Name):
                ci.attrs[st.targets[0].id] = st.value
            elif isinstance(st, ast.ClassDef):
                self._add_class(mi, st, outer=ci)
        return ci

    # ------------------------------------------------------------------ resolution
    def resolve_name(self, mi, name):
        """Resolve a module-level name to ('class', ClassInfo) | ('func', FuncInfo) |
        ('module', dotted) | ('ext', dotted) | ('const', expr) | None"""
        if name in mi.classes:
            return ('class', mi.classes[name])
        if name in mi.funcs:
            return ('func', mi.funcs[name])
        if name in mi.imports:
            imp = mi.imports[name]
            if imp[0] == 'module':
                if imp[1] in self.modules:
                    return ('module', imp[1])
                return ('extmodule', imp[1])
            _, modname, attr = imp
            full = f'{modname}.{attr}' if modname else attr
            if full in self.modules:
                return ('module', full)
            if modname in self.modules:
                return self.resolve_name(self.modules[modname], attr)
            return ('ext', full)
        if name in mi.consts:
            return ('const', mi.consts[name])
        return None

    def _resolve(self):
        for ci in self.classes.values():
            for b in ci.base_exprs:
                r = None
                if isinstance(b, ast.Name):
                    r = self.resolve_name(ci.module, b.id)
                elif isinstance(b, ast.Attribute) and isinstance(b.value, ast.Name):
                    base = self.resolve_name(ci.module, b.value.id)
                    if base and base[0] == 'module':
                        r = self.resolve_name(self.modules[base[1]], b.attr)
                    elif base and base[0] in ('extmodule',):
                        r = ('ext', f'{base[1]}.{b.attr}')
                if r and r[0] == 'class':
                    ci.bases.append(r[1])
                elif r and r[0] == 'ext':
                    ci.bases.append(r[1])
                else:
                    ci.bases.append(ast.unparse(b))
        for ci in self.classes.values():
            self.mro(ci)

    def mro(self, ci):
        if ci.mro is not None:
            return ci.mro
        seqs = []
        for b in ci.bases:
            if isinstance(b, ClassInfo):
                seqs.append(list(self.mro(b)))
            else:
                seqs.append([b])
        seqs.append(list(ci.bases))
        res = [ci]
        seqs = [s for s in seqs if s]
        while seqs:
            cand = None
            for s in seqs:
                c = s[0]
                if not any(c in t[1:] for t in seqs):
                    cand = c
                    break
            if cand is None:
                raise TypeError(f'inconsistent MRO for {ci.qualname}')
            res.append(cand)
            seqs = [[x for x in s if x is not cand] if s[0] is cand else s for s in seqs]
            seqs = [s[1:] if (s and s[0] is cand) else s for s in seqs]
            seqs = [s for s in seqs if s]
        # dedupe external names keeping last occurrence order semantic irrelevant
        out = []
        for c in res:
            if c not in out:
                out.append(c)
        ci.mro = out
        return out

    def lookup_method(self, ci, name, after=None):
        """Find attribute `name` through the MRO of ci (optionally after class `after`,
        for super()). Returns (FuncInfo|('attr',expr), owner ClassInfo) or (None, ext_name)."""
        mro = self.mro(ci)
        start = 0
        if after is not None:
            start = mro.index(after) + 1
        for c in mro[start:]:
            if isinstance(c, ClassInfo):
                if name in c.methods:
                    return c.methods[name], c
                if name in c.attrs:
                    return ('attr', c.attrs[name]), c
            else:
                return None, c   # reached an external base: caller decides
        return None, None

    def lookup_setter(self, ci, name):
        for c in self.mro(ci):
            if isinstance(c, ClassInfo) and name in c.setters:
                return c.setters[name]
        return None

    def is_subclass(self, ci, other):
        """other: ClassInfo or external dotted/bare name"""
        for c in self.mro(ci):
            if c is other:
                return True
            if isinstance(c, str) and isinstance(other, str) and (c == other or c.split('.')[-1] == other.split('.')[-1]):
                return True
        return False

    def func(self, qualname):
        if qualname not in self.funcs:
            raise KeyError(f'function {qualname} not found in {self.root} (renamed or removed?)')
        return self.funcs[qualname]

    def cls(self, qualname):
        if qualname not in self.classes:
            raise KeyError(f'class {qualname} not found in {self.root} (renamed or removed?)')
        return self.classes[qualname]


if __name__ == '__main__':
    r = Repo()
    print(len(r.modules), 'modules', len(r.classes), 'classes', len(r.funcs), 'functions')
    for q, c in sorted(r.classes.items()):
        print(q, [x.name if isinstance(x, ClassInfo) else x for x in c.mro])
