"""Containers: subscripts, slices, methods of lists / dicts / sets / tuples / strings."""
import ast

import z3

from . import smt
from .smt import Val, ValList, SeqVal
from .values import *  # noqa
from .core import PathEnd, Undecided, PyRaise

cnt_f = z3.Function('cnt', Val, SeqVal, smt.Int)     # occurrences of an element in a sequence
EMPTYSET = z3.EmptySet(Val)


bjoin_f = z3.Function('bjoin', SeqVal, smt.Bytes)        # b''.join(list): concatenation of a sequence of bytes values


class VListAt(V):
    """the list object stored under `key` in a symbolic dict of lists"""
    def __init__(self, addr, key):
        self.addr = addr
        self.key = key


class VIterView(V):
    """dict.keys() / values() / items() / iter(x) of a symbolic collection"""
    def __init__(self, kind, base):
        self.kind = kind
        self.base = base


class VLazy(V):
    """a lazy iterator object that the code builds and hands on without consuming it: iter(callable, sentinel) and itertools.islice(it, stop).
    Nothing can be PROVED about the unbounded consumption of one (there is no loop in the verified text to carry an invariant); `DataMixin.drain_lazy`
    consumes up to DRAIN_BOUND items as a genuine execution prefix, so that refutations met there are reported, and gives longer paths up as undecided."""
    def __init__(self, kind, parts):
        self.kind = kind
        self.parts = parts
        self.count = 0          # islice: items handed out so far (concrete: draining is bounded)
        self.done = False


class LazyStop(Exception):
    pass


DRAIN_BOUND = 3


class DataMixin:
    # ------------------------------------------------------------------ lazy iterators (refutation only, see VLazy)
    def lazy_next(self, lz):
        ex = self.ex
        if lz.done:
            raise LazyStop()
        if lz.kind == 'callsentinel':
            f, sentinel = lz.parts
            v = self.call_value(f, [], {})
            # CPython: PyObject_RichCompareBool(result, sentinel, Py_EQ) - identity first, then ==
            same = self.eq(v, sentinel)
            hit = same if isinstance(same, bool) else ex.branch(same, 'iter(callable, sentinel):sentinel-hit')
            if hit:
                lz.done = True
                raise LazyStop()
            return v
        if lz.kind == 'islice':
            inner, stop = lz.parts
            if stop is not NONE:
                n = self.as_int(stop, None, 'islice stop')
                c = smt.simp(lz.count >= n)
                full = z3.is_true(c) if z3.is_true(c) or z3.is_false(c) else ex.branch(c, 'islice:stop-reached')
                if full:
                    lz.done = True
                    raise LazyStop()
            if not isinstance(inner, VLazy):
                raise Undecided(f'islice over {inner!r}')
            try:
                v = self.lazy_next(inner)
            except LazyStop:
                lz.done = True
                raise
            lz.count += 1
            return v
        raise Undecided(f'lazy iterator of kind {lz.kind}')

    def drain_lazy(self, lz):
        """the values a consumer of `lz` gets, as a symbolic list; only paths that end within DRAIN_BOUND items are decided"""
        ex = self.ex
        out = ex.alloc(HSymList(z3.Empty(SeqVal)))
        ex.notes_abstracted.add(f'lazy iterator ({lz.kind}) returned by the function: consumed for at most {DRAIN_BOUND} items (refutations only; longer paths undecided)')
        for _ in range(DRAIN_BOUND + 1):
            try:
                v = self.lazy_next(lz)
            except LazyStop:
                return out
            self.cm_HSymList_append(out, v)
        raise Undecided(f'lazy iterator ({lz.kind}) not exhausted after {DRAIN_BOUND} items; no loop to carry an invariant')

    # ------------------------------------------------------------------ cnt ghost
    def tracked(self):
        return self.ex.ghost.get('cnt_track', [])

    def fact_concat(self, whole, parts):
        """cnt facts for whole == parts[0] ++ parts[1] ++ ...; parts are Seq terms"""
        for e in self.tracked():
            tot = 0
            for p in parts:
                tot = tot + cnt_f(e, p)
            self.ex.assume(cnt_f(e, whole) == tot)
            for p in parts:
                self.fact_part(e, p)

    def fact_part(self, e, p):
        if z3.is_app(p) and p.decl().kind() == z3.Z3_OP_SEQ_UNIT:
            self.ex.assume(cnt_f(e, p) == z3.If(p.arg(0) == e, 1, 0))
        elif z3.is_app(p) and p.decl().kind() == z3.Z3_OP_SEQ_EMPTY:
            self.ex.assume(cnt_f(e, p) == 0)
        else:
            self.ex.assume(cnt_f(e, p) >= 0)
            self.ex.assume(z3.Implies(z3.Length(p) == 0, cnt_f(e, p) == 0))
            self.ex.assume(cnt_f(e, p) <= z3.Length(p))

    # ------------------------------------------------------------------ list cells
    def is_symlist(self, v):
        if isinstance(v, VListAt):
            return True
        return isinstance(v, VRef) and isinstance(self.ex.heap[v.addr], HSymList)

    def seq_get(self, v):
        if isinstance(v, VListAt):
            return z3.Select(self.ex.heap[v.addr].map, v.key)
        return self.ex.heap[v.addr].seq

    def seq_set(self, v, new):
        ex = self.ex
        if isinstance(v, VListAt):
            d = ex.heap[v.addr]
            old = z3.Select(d.map, v.key)
            extra = d.__dict__.setdefault('extra', {})
            if 'sumlen' in extra:
                extra['sumlen'] = extra['sumlen'] - z3.Length(old) + z3.Length(new)
            if 'sumcnt' in extra:
                for i, e in enumerate(self.tracked()):
                    extra['sumcnt'][i] = extra['sumcnt'][i] - cnt_f(e, old) + cnt_f(e, new)
            d.map = z3.Store(d.map, v.key, new)
        else:
            ex.heap[v.addr].seq = new

    def elem_value(self, lst, term):
        kind = None
        if isinstance(lst, VRef):
            kind = getattr(self.ex.heap[lst.addr], 'elem_hint', None)
        return VSym(term, hint=kind)

    # ------------------------------------------------------------------ subscripts
    def getitem(self, obj, idx, node):
        ex = self.ex
        if isinstance(obj, VTuple):
            i = self.concrete_index(idx, len(obj.items), node)
            return obj.items[i]
        if isinstance(obj, VSeq):
            return VSym(self.seq_nth(obj.e, idx, node))
        if isinstance(obj, VBytes):
            raise Undecided('indexing bytes')
        if isinstance(obj, VStr) and not obj.s.startswith('<'):
            i = self.concrete_index(idx, len(obj.s), node)
            return VStr(obj.s[i])
        if isinstance(obj, VListAt):
            return VSym(self.seq_nth(self.seq_get(obj), idx, node))
        if isinstance(obj, VSym):
            # structural projection of a tuple-shaped symbolic value
            if isinstance(idx, VInt) and z3.is_int_value(idx.e) and idx.e.as_long() >= 0:
                k = idx.e.as_long()
                lst = Val.vitems(obj.t)
                ex.require('safe', Val.is_v_tup(obj.t), 'subscripted value is a tuple', node)
                for _ in range(k):
                    ex.require('safe', ValList.is_vl_cons(lst), 'index in range', node)
                    lst = ValList.vl_tl(lst)
                ex.require('safe', ValList.is_vl_cons(lst), 'index in range', node)
                return VSym(ValList.vl_hd(lst))
            raise Undecided('symbolic index into a dynamically typed value')
        if isinstance(obj, VRef):
            h = ex.heap[obj.addr]
            if isinstance(h, HList):
                i = self.concrete_index(idx, len(h.items), node)
                return h.items[i]
            if isinstance(h, HSymList):
                return self.elem_value(obj, self.seq_nth(h.seq, idx, node))
            if isinstance(h, HDict):
                k = self.pykey(idx)
                if k not in h.items:
                    raise PyRaise(self.mkexc('KeyError', str(k)))
                return h.items[k]
            if isinstance(h, HSymDict):
                k = lower(idx, ex)
                self.key_present(h, k, node)
                return self.symdict_value(obj.addr, h, k)
            if isinstance(h, HObj):
                d = h.attrs.get('__dictdata__')
                if d is not None:
                    fn = self.find_dunder(h, '__getitem__')
                    if fn is not None:
                        return self.call_function(VFunc(fn[0]), [obj, idx], {}, owner=fn[1], self_cls=h.cls)
                    return self.getitem(d, idx, node)
        m = self.method_model(obj, '__getitem__')
        if m is not None:
            return m(ex, [obj, idx], {})
        raise Undecided(f'subscript of {obj!r}')

    def find_dunder(self, h, name):
        from .frontend import ClassInfo
        if isinstance(h.cls, ClassInfo):
            found, owner = self.ex.repo.lookup_method(h.cls, name)
            if found is not None and not isinstance(found, tuple):
                return found, owner
        return None

    def key_present(self, h, k, node):
        """d[k] on a symbolic dict: KeyError unless present"""
        ex = self.ex
        pres = z3.Select(h.dom, k)
        if ex.ghost.get('keyerror_forks'):
            if not ex.branch(pres, f'L{getattr(node, "lineno", 0)}:key'):
                raise PyRaise(self.mkexc('KeyError'))
        else:
            ex.require('safe', pres, 'dict key present', node)

    def symdict_value(self, addr, h, k):
        if h.vkind == 'symlist':
            extra = h.__dict__.get('extra', {})
            if 'sumlen' in extra:
                # each summand of a sum of non-negative terms is at most the sum (for a key that is present)
                cur = z3.Select(h.map, k)
                pres = z3.Select(h.dom, k)
                self.ex.assume(z3.Implies(pres, z3.Length(cur) <= extra['sumlen']))
                for i, e in enumerate(self.tracked()):
                    if 'sumcnt' in extra:
                        self.fact_part(e, cur)
                        self.ex.assume(z3.Implies(pres, cnt_f(e, cur) <= extra['sumcnt'][i]))
                        self.ex.assume(z3.Implies(pres, z3.Length(cur) - cnt_f(e, cur) <= extra['sumlen'] - extra['sumcnt'][i]))
            return VListAt(addr, k)
        t = z3.Select(h.map, k)
        if isinstance(h.vkind, tuple) and h.vkind[0] == 'abs':
            return VSym(t, hint=h.vkind)
        return VSym(t)

    def concrete_index(self, idx, n, node):
        if isinstance(idx, VInt) and z3.is_int_value(smt.simp(idx.e)):
            i = smt.simp(idx.e).as_long()
            if i < 0:
                i += n
            if not (0 <= i < n):
                raise PyRaise(self.mkexc('IndexError', 'index out of range'))
            return i
        raise Undecided(f'symbolic index into a concrete sequence (line {getattr(node, "lineno", "?")})')

    def seq_nth(self, seq, idx, node):
        ex = self.ex
        i = self.as_int(idx, node, 'index')
        n = z3.Length(seq)
        si = smt.simp(i)
        if z3.is_int_value(si) and si.as_long() < 0:
            i = n + i
        ex.require('safe', z3.And(i >= 0, i < n), 'sequence index in range', node)
        return seq[i]

    def getslice(self, obj, lo, hi, node):
        ex = self.ex
        if isinstance(obj, VTuple) or (isinstance(obj, VRef) and isinstance(ex.heap[obj.addr], HList)):
            items = obj.items if isinstance(obj, VTuple) else ex.heap[obj.addr].items
            n = len(items)
            l = self.concrete_bound(lo, n, 0)
            u = self.concrete_bound(hi, n, n)
            res = items[l:u]
            return VTuple(res) if isinstance(obj, VTuple) else ex.alloc(HList(res))
        if isinstance(obj, VStr):
            if obj.s.startswith('<'):
                return VStr('<str>')
            n = len(obj.s)
            return VStr(obj.s[self.concrete_bound(lo, n, 0):self.concrete_bound(hi, n, n)])
        if isinstance(obj, VView):
            a, b = self.view_bounds(obj, lo, hi, node)
            return VView(obj.addr, a, b)
        if isinstance(obj, VBytes) or (isinstance(obj, VRef) and isinstance(ex.heap[obj.addr], HBuf)):
            bs = obj.e if isinstance(obj, VBytes) else ex.heap[obj.addr].seq
            pre, mid, post = self.split3(bs, lo, hi, node)
            return VBytes(mid)
        seq = None
        if isinstance(obj, VSeq):
            seq = obj.e
        elif self.is_symlist(obj):
            seq = self.seq_get(obj)
        if seq is not None:
            pre, mid, post = self.split3(seq, lo, hi, node)
            if isinstance(obj, VSeq):
                return VSeq(mid)
            r = ex.alloc(HSymList(mid))
            for extra in ('elem_hint', 'elem_fact'):
                src = ex.heap[obj.addr] if isinstance(obj, VRef) else None
                if src is not None and hasattr(src, extra):
                    setattr(ex.heap[r.addr], extra, getattr(src, extra))
            return r
        raise Undecided(f'slice of {obj!r}')

    def concrete_bound(self, b, n, default):
        if b is None or b is NONE:
            return default
        if isinstance(b, VInt) and z3.is_int_value(smt.simp(b.e)):
            i = smt.simp(b.e).as_long()
            if i < 0:
                i = max(0, n + i)
            return min(i, n)
        raise Undecided('symbolic slice bound on a concrete sequence')

    def split3(self, seq, lo, hi, node):
        """seq == pre ++ mid ++ post with Python slice clamping; fresh variables + concat equality"""
        ex = self.ex
        n = z3.Length(seq)
        l = z3.IntVal(0) if (lo is None or lo is NONE) else self.as_int(lo, node, 'slice bound')
        u = n if (hi is None or hi is NONE) else self.as_int(hi, node, 'slice bound')

        def from_end(b):
            # a negative constant bound counts from the end (clamped at 0), as in Python; symbolic bounds must be non-negative
            bs = smt.simp(b)
            if z3.is_int_value(bs) and bs.as_long() < 0:
                return z3.If(n + bs < 0, z3.IntVal(0), n + bs)
            return b
        l, u = from_end(l), from_end(u)
        ex.require('safe', z3.And(l >= 0, u >= 0), 'non-negative slice bounds (negative symbolic bounds not modelled)', node)
        lc = z3.If(l > n, n, l)
        uc = z3.If(u > n, n, u)
        uc = z3.If(uc < lc, lc, uc)
        pre, rest = self.take_drop(seq, lc)
        mid, post = self.take_drop(rest, uc - lc)
        if seq.sort() == SeqVal:
            self.fact_concat(seq, [pre, rest])
            self.fact_concat(rest, [mid, post])
        return pre, mid, post

    def take_drop(self, seq, n):
        """canonical prefix/suffix of a sequence at position n (0 <= n <= |seq| is the caller's duty):
        uninterpreted functions with their defining equations instantiated here (no fresh variables, so two
        decompositions of one sequence at one position are the same terms)"""
        ex = self.ex
        srt = seq.sort()
        key = 'B' if srt == smt.Bytes else 'V'
        tk = z3.Function(f'take_{key}', srt, smt.Int, srt)
        dr = z3.Function(f'drop_{key}', srt, smt.Int, srt)
        n = smt.simp(n)
        a, b = tk(seq, n), dr(seq, n)
        ex.assume(seq == z3.Concat(a, b))
        ex.assume(z3.Length(a) == n)
        ex.assume(z3.Implies(n == 0, b == seq))
        ex.assume(z3.Implies(n == z3.Length(seq), a == seq))
        return a, b

    def setitem(self, obj, idx, value, node):
        ex = self.ex
        if isinstance(obj, VRef):
            h = ex.heap[obj.addr]
            if isinstance(h, HDict):
                h.items[self.pykey(idx)] = value
                return
            if isinstance(h, HSymDict):
                k = lower(idx, ex)
                if h.vkind == 'symlist':
                    newseq = self.as_seq(value)
                    cell = VListAt(obj.addr, k)
                    # a key not present contributes nothing to the ghost sums
                    old = z3.Select(h.map, k)
                    extra = h.__dict__.setdefault('extra', {})
                    if 'sumlen' in extra:
                        extra['sumlen'] = extra['sumlen'] - z3.If(z3.Select(h.dom, k), z3.Length(old), 0) + z3.Length(newseq)
                    if 'sumcnt' in extra:
                        for i, e in enumerate(self.tracked()):
                            extra['sumcnt'][i] = extra['sumcnt'][i] - z3.If(z3.Select(h.dom, k), cnt_f(e, old), 0) + cnt_f(e, newseq)
                    h.map = z3.Store(h.map, k, newseq)
                else:
                    if h.vcnt is not None:
                        # d[k] = v: the value that was under k (if any) is held by one key less, v by one more
                        oldv, nv = z3.Select(h.map, k), lower(value, ex)
                        vc1 = z3.If(z3.Select(h.dom, k), z3.Store(h.vcnt, oldv, z3.Select(h.vcnt, oldv) - 1), h.vcnt)
                        h.vcnt = z3.Store(vc1, nv, z3.Select(vc1, nv) + 1)
                    h.map = z3.Store(h.map, k, lower(value, ex))
                h.dom = z3.Store(h.dom, k, z3.BoolVal(True))
                return
            if isinstance(h, HList):
                i = self.concrete_index(idx, len(h.items), node)
                h.items[i] = value
                return
            if isinstance(h, HObj):
                d = h.attrs.get('__dictdata__')
                if d is not None:
                    return self.setitem(d, idx, value, node)
        if type(obj).__name__ == 'VDictView' and isinstance(idx, VStr):
            # obj.__dict__[name] = value is an attribute store on the object itself
            ex.heap[obj.ref.addr].attrs[idx.s] = value
            return
        if isinstance(obj, VTuple) or isinstance(obj, VSeq):
            self.throw('TypeError', "'tuple' object does not support item assignment")
        m = self.method_model(obj, '__setitem__')
        if m is not None:
            return m(ex, [obj, idx, value], {})
        raise Undecided(f'item store on {obj!r}')

    # ------------------------------------------------------------------ byte buffers (bytearray / memoryview)
    def view_bounds(self, view, lo, hi, node):
        """absolute offsets of view[lo:hi] inside the buffer (Python slice clamping; negative constants count from the end)"""
        ex = self.ex
        n = view.hi - view.lo

        def bound(b, default):
            if b is None or b is NONE:
                return default
            t = smt.simp(self.as_int(b, node, 'slice bound'))
            if z3.is_int_value(t) and t.as_long() < 0:
                t = z3.If(n + t < 0, z3.IntVal(0), n + t)
            else:
                ex.require('safe', t >= 0, 'non-negative slice bound (negative symbolic bounds not modelled)', node)
            return z3.If(t > n, n, t)
        a = bound(lo, z3.IntVal(0))
        b = bound(hi, n)
        b = z3.If(b < a, a, b)
        return smt.simp(view.lo + a), smt.simp(view.lo + b)

    def view_bytes(self, view):
        seq = self.ex.heap[view.addr].seq
        a, rest = self.take_drop(seq, view.lo)
        mid, post = self.take_drop(rest, view.hi - view.lo)
        return mid

    def buf_write(self, addr, at, data):
        """overwrite len(data) bytes of the buffer starting at offset `at` (the caller has established that they fit)"""
        h = self.ex.heap[addr]
        pre, rest = self.take_drop(h.seq, at)
        old, post = self.take_drop(rest, z3.Length(data))
        h.seq = z3.Concat(pre, data, post)

    def cm_HBuf_extend(self, buf, other):
        h = self.ex.heap[buf.addr]
        if isinstance(other, VBytes):
            h.seq = z3.Concat(h.seq, other.e)
            return NONE
        if isinstance(other, VRef) and isinstance(self.ex.heap[other.addr], HBuf):
            h.seq = z3.Concat(h.seq, self.ex.heap[other.addr].seq)
            return NONE
        raise Undecided(f'bytearray.extend({other!r})')

    def setslice(self, obj, lo, hi, value, node):
        ex = self.ex
        if isinstance(obj, VView) or (isinstance(obj, VRef) and isinstance(ex.heap[obj.addr], HBuf)):
            if isinstance(value, VRef) and isinstance(ex.heap[value.addr], HBuf):
                value = VBytes(ex.heap[value.addr].seq)
            if isinstance(value, VView):
                value = VBytes(self.view_bytes(value))
            if not isinstance(value, VBytes):
                raise Undecided(f'slice store of {value!r} into a byte buffer')
            view = obj if isinstance(obj, VView) else VView(obj.addr, z3.IntVal(0), z3.Length(ex.heap[obj.addr].seq))
            a, b = self.view_bounds(view, lo, hi, node)
            if isinstance(obj, VView):
                # a memoryview cannot change the size of its buffer: the two sides must have the same length (ValueError otherwise)
                if not ex.branch(z3.Length(value.e) == b - a, f'L{getattr(node, "lineno", 0)}:view-store-fits'):
                    raise PyRaise(self.mkexc('ValueError', 'memoryview assignment: lvalue and rvalue have different structures'))
                self.buf_write(obj.addr, a, value.e)
            else:
                h = ex.heap[obj.addr]
                pre, rest = self.take_drop(h.seq, a)
                old, post = self.take_drop(rest, b - a)
                h.seq = z3.Concat(pre, value.e, post)
            return
        if isinstance(obj, (VTuple, VSeq)):
            self.throw('TypeError', "'tuple' object does not support item assignment")
        if isinstance(obj, VSym):
            hint = obj.hint
            raise Undecided('slice assignment to a dynamically typed value')
        if self.is_symlist(obj):
            seq = self.seq_get(obj)
            pre, mid, post = self.split3(seq, lo, hi, node)
            new_mid = self.as_seq(value, node)
            new = z3.Concat(pre, new_mid, post)
            self.fact_concat(new, [pre, new_mid, post])
            self.seq_set(obj, new)
            return
        if isinstance(obj, VRef) and isinstance(ex.heap[obj.addr], HList):
            h = ex.heap[obj.addr]
            n = len(h.items)
            l = self.concrete_bound(lo, n, 0)
            u = self.concrete_bound(hi, n, n)
            vals = self.iter_concrete(value)
            if vals is None:
                # concrete list receiving a symbolic sequence: becomes symbolic
                seq = self.as_seq(VTuple(h.items))
                ex.heap[obj.addr] = HSymList(seq)
                return self.setslice(obj, lo, hi, value, node)
            h.items[l:u] = vals
            return
        raise Undecided(f'slice store on {obj!r}')

    def delitem(self, obj, idx, node):
        ex = self.ex
        if isinstance(obj, VRef):
            h = ex.heap[obj.addr]
            if isinstance(h, HDict):
                k = self.pykey(idx)
                if k not in h.items:
                    raise PyRaise(self.mkexc('KeyError', str(k)))
                del h.items[k]
                return
            if isinstance(h, HSymDict):
                k = lower(idx, ex)
                self.key_present(h, k, node)
                self.symdict_remove(h, k)
                return
            if isinstance(h, HSymList):
                i = self.as_int(idx, node, 'index')
                n = z3.Length(h.seq)
                ex.require('safe', z3.And(i >= 0, i < n), 'del index in range', node)
                pre = ex.fresh('dl_pre', SeqVal)
                x = ex.fresh('dl_x', Val)
                post = ex.fresh('dl_post', SeqVal)
                ex.assume(h.seq == z3.Concat(pre, z3.Unit(x), post))
                ex.assume(z3.Length(pre) == i)
                new = z3.Concat(pre, post)
                self.fact_concat(h.seq, [pre, z3.Unit(x), post])
                self.fact_concat(new, [pre, post])
                h.seq = new
                return
            if isinstance(h, HList):
                i = self.concrete_index(idx, len(h.items), node)
                del h.items[i]
                return
        if type(obj).__name__ == 'VDictView' and isinstance(idx, VStr):
            attrs = ex.heap[obj.ref.addr].attrs
            if idx.s not in attrs:
                raise PyRaise(self.mkexc('KeyError', idx.s))
            del attrs[idx.s]
            return
        raise Undecided(f'del item on {obj!r}')

    def vcnt_guard(self, h):
        if getattr(h, 'vcnt', None) is not None:
            raise Undecided('a dictionary whose values are counted (ghost vcnt) is modified by something else than setdefault')

    def symdict_remove(self, h, k):
        self.vcnt_guard(h)
        extra = h.__dict__.setdefault('extra', {})
        if h.vkind == 'symlist':
            old = z3.Select(h.map, k)
            if 'sumlen' in extra:
                extra['sumlen'] = extra['sumlen'] - z3.If(z3.Select(h.dom, k), z3.Length(old), 0)
            if 'sumcnt' in extra:
                for i, e in enumerate(self.tracked()):
                    extra['sumcnt'][i] = extra['sumcnt'][i] - z3.If(z3.Select(h.dom, k), cnt_f(e, old), 0)
        h.dom = z3.Store(h.dom, k, z3.BoolVal(False))

    # ------------------------------------------------------------------ len
    def length(self, v, node=None):
        ex = self.ex
        if isinstance(v, VTuple):
            return VInt(len(v.items))
        if isinstance(v, VSeq) or isinstance(v, VBytes):
            return VInt(z3.Length(v.e))
        if isinstance(v, VView):
            return VInt(smt.simp(v.hi - v.lo))
        if isinstance(v, VRef) and isinstance(ex.heap[v.addr], HBuf):
            return VInt(z3.Length(ex.heap[v.addr].seq))
        if isinstance(v, VStr):
            return VInt(len(v.s))
        if isinstance(v, VListAt):
            return VInt(z3.Length(self.seq_get(v)))
        if isinstance(v, VSym):
            # a dynamically typed value: a structural tuple (up to 4 items spelled out) or a sequence-like opaque value
            t = v.t
            l0 = Val.vitems(t)
            l1, l2, l3, l4 = ValList.vl_tl(l0), None, None, None
            l2 = ValList.vl_tl(l1)
            l3 = ValList.vl_tl(l2)
            l4 = ValList.vl_tl(l3)
            tl_u = z3.Function('tuple_len_beyond4', Val, smt.Int)
            tup_len = z3.If(ValList.is_vl_nil(l0), 0, z3.If(ValList.is_vl_nil(l1), 1, z3.If(ValList.is_vl_nil(l2), 2,
                      z3.If(ValList.is_vl_nil(l3), 3, z3.If(ValList.is_vl_nil(l4), 4, 5 + z3.If(tl_u(t) < 0, 0, tl_u(t)))))))
            # seq_of(t) is "the items of t as a sequence": for a structural tuple its length is the tuple's length (keeps len(x) and
            # slices / iteration over x, which go through seq_of, consistent with each other)
            ex.assume(z3.Implies(Val.is_v_tup(t), z3.Length(smt.seq_of(t)) == tup_len))
            return VInt(z3.If(Val.is_v_tup(t), tup_len, z3.Length(smt.seq_of(t))))
        if isinstance(v, VRef):
            h = ex.heap[v.addr]
            if isinstance(h, HList):
                return VInt(len(h.items))
            if isinstance(h, HSymList):
                return VInt(z3.Length(h.seq))
            if isinstance(h, HDict):
                if any(isinstance(k, tuple) for k in h.items):
                    raise Undecided('len of dict with opaque spread')
                return VInt(len(h.items))
            if isinstance(h, (HSymDict, HSymSet)):
                size = h.__dict__.get('extra', {}).get('size')
                if size is None:
                    n = ex.fresh('card', smt.Int)
                    ex.assume(n >= 0)
                    ex.assume((n == 0) == (h.dom == EMPTYSET))
                    return VInt(n)
                return VInt(size)
        if isinstance(v, VIterView) and v.kind in ('keys', 'values', 'items') and isinstance(v.base, VRef) and \
                isinstance(ex.heap[v.base.addr], (HSymDict, HDict)):
            # a view has as many entries as its dictionary
            return self.length(v.base, node)
        m = self.method_model(v, '__len__')
        if m is not None:
            return m(ex, [v], {})
        raise Undecided(f'len of {v!r}')

    # ------------------------------------------------------------------ methods of containers
    def container_method(self, ref, h, name):
        fn = getattr(self, f'cm_{type(h).__name__}_{name}', None)
        if fn is None:
            return None
        return VBound(VModel(f'{type(h).__name__}.{name}', lambda ex, a, k, fn=fn: fn(*a, **k)), ref)

    def value_method(self, obj, name):
        if isinstance(obj, VListAt):
            fn = getattr(self, f'cm_HSymList_{name}', None)
            if fn:
                return VBound(VModel(f'list.{name}', lambda ex, a, k, fn=fn: fn(*a, **k)), obj)
        if isinstance(obj, VStr):
            fn = getattr(self, f'sm_{name}', None)
            if fn:
                return VBound(VModel(f'str.{name}', lambda ex, a, k, fn=fn: fn(*a, **k)), obj)
        if isinstance(obj, (VTuple, VSeq)):
            if name == '__iter__':
                return VBound(VModel('tuple.__iter__', lambda ex, a, k: VIterView('iter', a[0])), obj)
        if isinstance(obj, VBytes) and name == 'join':
            return VBound(VModel('bytes.join', lambda ex, a, k: self.bm_join(*a)), obj)
        return None

    # --- bytes
    def bm_join(self, sep, parts):
        """b''.join(list of bytes): the concatenation, as the uninterpreted function bjoin over the list's sequence with its two defining equations
        (empty list; one more element at the end) instantiated where lists are built"""
        ex = self.ex
        if not (isinstance(sep, VBytes) and z3.is_true(smt.simp(z3.Length(sep.e) == 0))):
            raise Undecided('bytes.join with a non-empty separator')
        items = self.iter_concrete(parts)
        if items is not None:
            if not all(isinstance(x, VBytes) for x in items):
                raise Undecided('bytes.join over non-bytes items')
            if not items:
                return VBytes(z3.Empty(smt.Bytes))
            return VBytes(z3.Concat(*[x.e for x in items]) if len(items) > 1 else items[0].e)
        if self.is_symlist(parts):
            seq = self.seq_get(parts)
            ex.assume(bjoin_f(z3.Empty(SeqVal)) == z3.Empty(smt.Bytes))
            return VBytes(bjoin_f(seq))
        raise Undecided(f'bytes.join over {parts!r}')

    # --- str
    def sm_lower(self, s):
        return VStr(s.s.lower())

    def sm_upper(self, s):
        return VStr(s.s.upper())

    def sm_format(self, s, *a, **k):
        vals = list(a) + list(k.values())
        if not s.s.startswith('<') and all(isinstance(x, VStr) and not x.s.startswith('<') for x in vals):
            try:
                return VStr(s.s.format(*[x.s for x in a], **{kk: v.s for kk, v in k.items()}))
            except (IndexError, KeyError, ValueError):
                pass
        return VStr('<str>')

    def sm_startswith(self, s, p):
        return VBool(s.s.startswith(p.s))

    def sm_rsplit(self, s, *a, **k):
        if s.s.startswith('<'):
            return VTuple([VStr('<str>'), VStr('<str>')])
        sep = a[0].s if a else None
        mx = k.get('maxsplit')
        mxv = mx.e.as_long() if mx is not None else -1
        return self.ex.alloc(HList([VStr(x) for x in s.s.rsplit(sep, mxv)]))

    # --- concrete list
    def cm_HList_append(self, lst, v):
        self.ex.heap[lst.addr].items.append(v)
        return NONE

    def cm_HList_pop(self, lst, idx=None):
        h = self.ex.heap[lst.addr]
        if not h.items:
            raise PyRaise(self.mkexc('IndexError', 'pop from empty list'))
        i = -1 if idx is None else self.concrete_index(idx, len(h.items), None)
        return h.items.pop(i)

    def cm_HList_insert(self, lst, idx, v):
        h = self.ex.heap[lst.addr]
        i = smt.simp(idx.e).as_long()
        h.items.insert(i, v)
        return NONE

    def cm_HList_extend(self, lst, other):
        h = self.ex.heap[lst.addr]
        items = self.iter_concrete(other)
        if items is None:
            seq = self.as_seq(VTuple(h.items))
            self.ex.heap[lst.addr] = HSymList(seq)
            return self.cm_HSymList_extend(lst, other)
        h.items.extend(items)
        return NONE

    # collections.deque is modelled as a list: popleft / appendleft are pop(0) / insert(0, x)
    def cm_HList_popleft(self, lst):
        return self.cm_HList_pop(lst, VInt(0))

    def cm_HList_appendleft(self, lst, v):
        self.ex.heap[lst.addr].items.insert(0, v)
        return NONE

    def cm_HSymList_popleft(self, lst):
        return self.cm_HSymList_pop(lst, VInt(0))

    def cm_HSymList_appendleft(self, lst, v):
        return self.cm_HSymList_insert(lst, VInt(0), v)

    def cm_HList_clear(self, lst):
        self.ex.heap[lst.addr].items.clear()
        return NONE

    def cm_HList_copy(self, lst):
        return self.ex.alloc(HList(self.ex.heap[lst.addr].items))

    def cm_HList___iter__(self, lst):
        return VIterView('iter', lst)

    # --- symbolic list (VRef->HSymList or VListAt)
    def cm_HSymList_append(self, lst, v):
        seq = self.seq_get(lst)
        u = z3.Unit(lower(v, self.ex))
        new = z3.Concat(seq, u)
        self.fact_concat(new, [seq, u])
        if isinstance(v, VBytes):
            # defining equation of bjoin for one more element at the end
            self.ex.assume(bjoin_f(new) == z3.Concat(bjoin_f(seq), v.e))
            self.ex.assume(bjoin_f(z3.Empty(SeqVal)) == z3.Empty(smt.Bytes))
        self.seq_set(lst, new)
        return NONE

    def cm_HSymList_remove(self, lst, v):
        """list.remove(x): removes the first occurrence; ValueError if there is none"""
        ex = self.ex
        seq = self.seq_get(lst)
        t = lower(v, ex)
        present = z3.Contains(seq, z3.Unit(t))
        if not ex.branch(present, 'remove:present'):
            raise PyRaise(self.mkexc('ValueError', 'list.remove(x): x not in list'))
        pre = ex.fresh('rm_pre', SeqVal)
        post = ex.fresh('rm_post', SeqVal)
        ex.assume(seq == z3.Concat(pre, z3.Unit(t), post))
        ex.assume(z3.Not(z3.Contains(pre, z3.Unit(t))))
        new = z3.Concat(pre, post)
        self.fact_concat(seq, [pre, z3.Unit(t), post])
        self.fact_concat(new, [pre, post])
        self.seq_set(lst, new)
        return NONE

    def cm_HSymList_pop(self, lst, idx=None):
        ex = self.ex
        seq = self.seq_get(lst)
        node = ex.ghost.get('__cur_node__')
        nonempty = z3.Length(seq) > 0
        if ex.ghost.get('indexerror_forks'):
            if not ex.branch(nonempty, 'pop:nonempty'):
                raise PyRaise(self.mkexc('IndexError', 'pop from empty list'))
        else:
            ex.require('safe', nonempty, 'pop from a non-empty list', node)
        x = ex.fresh('pop_x', Val)
        rest = ex.fresh('pop_rest', SeqVal)
        if idx is None:
            parts = [rest, z3.Unit(x)]
        else:
            i = smt.simp(self.as_int(idx, node, 'pop index'))
            if z3.is_int_value(i) and i.as_long() == 0:
                parts = [z3.Unit(x), rest]
            elif z3.is_int_value(i) and i.as_long() == -1:
                parts = [rest, z3.Unit(x)]
            else:
                raise Undecided('list.pop at a symbolic / inner index')
        ex.assume(seq == z3.Concat(*parts))
        self.fact_concat(seq, parts)
        self.seq_set(lst, rest)
        return self.elem_value(lst, x)

    def cm_HSymList_insert(self, lst, idx, v):
        seq = self.seq_get(lst)
        i = smt.simp(self.as_int(idx, None, 'insert index'))
        u = z3.Unit(lower(v, self.ex))
        if z3.is_int_value(i) and i.as_long() == 0:
            parts = [u, seq]
        else:
            raise Undecided('list.insert at index other than 0')
        new = z3.Concat(*parts)
        self.fact_concat(new, parts)
        self.seq_set(lst, new)
        return NONE

    def cm_HSymList_extend(self, lst, other):
        seq = self.seq_get(lst)
        o = self.seq_get(other) if self.is_symlist(other) else self.as_seq(other)
        new = z3.Concat(seq, o)
        self.fact_concat(new, [seq, o])
        self.seq_set(lst, new)
        return NONE

    def cm_HSymList_clear(self, lst):
        e = z3.Empty(SeqVal)
        for t in self.tracked():
            self.ex.assume(cnt_f(t, e) == 0)
        self.seq_set(lst, e)
        return NONE

    def cm_HSymList_copy(self, lst):
        return self.ex.alloc(HSymList(self.seq_get(lst)))

    def cm_HSymList___iter__(self, lst):
        return VIterView('iter', lst)

    # --- concrete dict
    def promote_dict(self, d, k):
        """a dictionary known entry by entry that is now used with a key which is not a constant: from here on it is a symbolic dictionary with exactly
        those entries (domain = the constant keys, values lowered; lists and objects among the values are kept as references).  Returns True if promoted."""
        ex = self.ex
        h = ex.heap[d.addr]
        try:
            self.pykey(k)
            return False
        except Undecided:
            pass
        if not isinstance(k, (VSym, VInt, VTuple)) or any(isinstance(kk, tuple) or (isinstance(kk, str) and kk.startswith('<object@')) for kk in h.items):
            return False
        dom, mp = EMPTYSET, z3.K(Val, Val.v_none)
        for kk, vv in h.items.items():
            kt = lower(VStr(kk) if isinstance(kk, str) else VInt(z3.IntVal(kk)), ex)
            dom = z3.Store(dom, kt, z3.BoolVal(True))
            mp = z3.Store(mp, kt, lower(vv, ex))
        ex.heap[d.addr] = HSymDict(dom, mp)
        return True

    def cm_HDict_get(self, d, k, default=NONE):
        if self.promote_dict(d, k):
            return self.cm_HSymDict_get(d, k, default)
        return self.ex.heap[d.addr].items.get(self.pykey(k), default)

    def cm_HSymDict_setdefault(self, d, k, default=NONE):
        ex = self.ex
        h = ex.heap[d.addr]
        kt = lower(k, ex)
        if h.vkind == 'symlist':
            raise Undecided('setdefault() on dict of lists')
        pres = smt.simp(z3.Select(h.dom, kt))
        if z3.is_true(pres) or (not z3.is_false(pres) and ex.branch(pres, 'setdefault:present')):
            if h.vcnt is not None:
                ex.assume(z3.Select(h.vcnt, z3.Select(h.map, kt)) >= 1)      # the value under a present key is held by at least that key
            return VSym(z3.Select(h.map, kt), hint=h.vkind if isinstance(h.vkind, tuple) else None)
        h.dom = z3.Store(h.dom, kt, z3.BoolVal(True))
        dv = lower(default, ex)
        h.map = z3.Store(h.map, kt, dv)
        if h.vcnt is not None:
            h.vcnt = z3.Store(h.vcnt, dv, z3.Select(h.vcnt, dv) + 1)
        return default

    def cm_HDict_pop(self, d, k, *default):
        if self.promote_dict(d, k):
            return self.cm_HSymDict_pop(d, k, *default)
        h = self.ex.heap[d.addr]
        kk = self.pykey(k)
        if kk in h.items:
            return h.items.pop(kk)
        if default:
            return default[0]
        raise PyRaise(self.mkexc('KeyError', str(kk)))

    def cm_HDict_setdefault(self, d, k, default=NONE):
        if self.promote_dict(d, k):
            return self.cm_HSymDict_setdefault(d, k, default)
        h = self.ex.heap[d.addr]
        return h.items.setdefault(self.pykey(k), default)

    def cm_HDict_update(self, d, other=None, **kw):
        h = self.ex.heap[d.addr]
        if other is not None:
            if isinstance(other, VRef) and isinstance(self.ex.heap[other.addr], HDict):
                h.items.update(self.ex.heap[other.addr].items)
            elif type(other).__name__ == 'VDictView':
                h.items.update(self.ex.heap[other.ref.addr].attrs)
            else:
                h.items[('**', len(h.items))] = other
        h.items.update(kw)
        return NONE

    def cm_HDict_copy(self, d):
        return self.ex.alloc(HDict(self.ex.heap[d.addr].items))

    def cm_HDict_clear(self, d):
        self.ex.heap[d.addr].items.clear()
        return NONE

    def cm_HDict_items(self, d):
        h = self.ex.heap[d.addr]
        if any(isinstance(k, tuple) for k in h.items):
            raise Undecided('items() of dict with opaque spread')
        return self.ex.alloc(HList([VTuple([VStr(k) if isinstance(k, str) else VInt(k), v]) for k, v in h.items.items()]))

    def cm_HDict_values(self, d):
        h = self.ex.heap[d.addr]
        return self.ex.alloc(HList(list(h.items.values())))

    def cm_HDict_keys(self, d):
        h = self.ex.heap[d.addr]
        return self.ex.alloc(HList([VStr(k) if isinstance(k, str) else VInt(k) for k in h.items]))

    # --- symbolic dict
    def cm_HSymDict_get(self, d, k, default=NONE):
        h = self.ex.heap[d.addr]
        kt = lower(k, self.ex)
        if h.vkind == 'symlist':
            raise Undecided('get() on dict of lists')
        t = z3.If(z3.Select(h.dom, kt), z3.Select(h.map, kt), lower(default, self.ex))
        return VSym(t, hint=h.vkind if isinstance(h.vkind, tuple) else None)

    def cm_HSymDict_pop(self, d, k, *default):
        ex = self.ex
        h = ex.heap[d.addr]
        kt = lower(k, ex)
        pres = z3.Select(h.dom, kt)
        if not default:
            self.key_present(h, kt, ex.ghost.get('__cur_node__'))
            r = self.symdict_value(d.addr, h, kt)
            if isinstance(r, VListAt):
                r = ex.alloc(HSymList(z3.Select(h.map, kt)))
        else:
            if h.vkind == 'symlist':
                raise Undecided('pop(k, default) on dict of lists')
            r = VSym(z3.If(pres, z3.Select(h.map, kt), lower(default[0], ex)),
                     hint=h.vkind if isinstance(h.vkind, tuple) else None)
        self.symdict_remove(h, kt)
        return r

    def cm_HSymDict___getitem__(self, d, k):
        return self.getitem(d, k, self.ex.ghost.get('__cur_node__'))

    def cm_HSymDict___contains__(self, d, k):
        return VBool(self.contains(d, k, None))

    def cm_HSymDict_keys(self, d):
        return VIterView('keys', d)

    def cm_HSymDict_values(self, d):
        return VIterView('values', d)

    def cm_HSymDict_items(self, d):
        return VIterView('items', d)

    def cm_HSymDict_copy(self, d):
        return self.ex.alloc(self.ex.heap[d.addr].clone())

    def cm_HSymDict_update(self, d, other=None, **kw):
        """d.update(other): pointwise - keys of other win (T1)"""
        ex = self.ex
        h = ex.heap[d.addr]
        self.vcnt_guard(h)
        if 'extra' in h.__dict__ and h.__dict__['extra']:
            raise Undecided('update of a symbolic dict with sum bookkeeping')
        if other is not None:
            o = other
            if isinstance(o, VRef) and isinstance(ex.heap[o.addr], HObj) and '__dictdata__' in ex.heap[o.addr].attrs:
                o = ex.heap[o.addr].attrs['__dictdata__']
            if isinstance(o, VRef) and isinstance(ex.heap[o.addr], HSymDict):
                oh = ex.heap[o.addr]
                k = z3.Const('__uk__', Val)
                h.map = z3.Lambda([k], z3.If(z3.Select(oh.dom, k), z3.Select(oh.map, k), z3.Select(h.map, k)))
                h.dom = z3.SetUnion(h.dom, oh.dom)
            elif isinstance(o, VRef) and isinstance(ex.heap[o.addr], HDict):
                for kk, vv in ex.heap[o.addr].items.items():
                    if isinstance(kk, tuple):
                        raise Undecided('update from a dict with an opaque spread')
                    kt = lower(VStr(kk) if isinstance(kk, str) else VInt(kk), ex)
                    h.map = z3.Store(h.map, kt, lower(vv, ex))
                    h.dom = z3.Store(h.dom, kt, z3.BoolVal(True))
            else:
                raise Undecided(f'symbolic dict.update({other!r})')
        for kk, vv in kw.items():
            kt = lower(VStr(kk), ex)
            h.map = z3.Store(h.map, kt, lower(vv, ex))
            h.dom = z3.Store(h.dom, kt, z3.BoolVal(True))
        return NONE

    def cm_HSymDict_clear(self, d):
        h = self.ex.heap[d.addr]
        self.vcnt_guard(h)
        h.dom = EMPTYSET
        extra = h.__dict__.setdefault('extra', {})
        if 'sumlen' in extra:
            extra['sumlen'] = z3.IntVal(0)
        if 'sumcnt' in extra:
            extra['sumcnt'] = [z3.IntVal(0) for _ in extra['sumcnt']]
        return NONE

    # --- symbolic set
    def cm_HSymSet_add(self, s, v):
        h = self.ex.heap[s.addr]
        h.dom = z3.Store(h.dom, lower(v, self.ex), z3.BoolVal(True))
        return NONE

    def cm_HSymSet_difference(self, s, other):
        h = self.ex.heap[s.addr]
        od = self.set_dom(other)
        return self.ex.alloc(HSymSet(z3.SetDifference(h.dom, od)))

    def cm_HSymSet___iter__(self, s):
        return VIterView('iter', s)

    def set_dom(self, v):
        if isinstance(v, VRef):
            h = self.ex.heap[v.addr]
            if isinstance(h, (HSymSet, HSymDict)):
                return h.dom
        if isinstance(v, VIterView) and v.kind == 'keys':
            return self.ex.heap[v.base.addr].dom
        raise Undecided(f'set view of {v!r}')


class VDictViewT(V):
    pass
