"""Running native replay scripts on the real code under the repository's interpreter."""
import json
import os
import subprocess

VERIF = os.path.dirname(os.path.dirname(os.path.abspath(__file__)))
PY = '/venv/bin/python'


_cache = {}


def run_script(script, scenario, repo, timeout=60, env_extra=None):
    key = (script, json.dumps(scenario, sort_keys=True, default=str), repo)
    if key in _cache:
        return dict(_cache[key], cached=True)
    r = _run_script(script, scenario, repo, timeout, env_extra)
    _cache[key] = r
    return r


def _run_script(script, scenario, repo, timeout=60, env_extra=None):
    env = dict(os.environ)
    env['PYTHONPATH'] = repo + os.pathsep + os.path.join(VERIF, 'replay')
    env.pop('PYWORKERS_VERIF', None)
    if env_extra:
        env.update(env_extra)
    cmd = [PY, os.path.join(VERIF, 'replay', script), json.dumps(scenario)]
    try:
        p = subprocess.run(cmd, capture_output=True, text=True, timeout=timeout, env=env, cwd=os.path.join(VERIF, 'replay'))
    except subprocess.TimeoutExpired:
        return {'violates': None, 'error': f'replay script timed out after {timeout}s', 'cmd': cmd}
    out = None
    for line in reversed((p.stdout or '').strip().splitlines()):
        try:
            out = json.loads(line)
            break
        except ValueError:
            continue
    if out is None:
        out = {'violates': None, 'error': 'no result line', 'stdout': p.stdout[-800:], 'stderr': p.stderr[-800:]}
    out['cmd'] = ' '.join(cmd[:2]) + " '<scenario>'"
    return out
