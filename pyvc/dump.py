"""debug: dump the SMT query of an obligation:  python3-vt -m pyvc.dump C05 <lemma-substr> <obligation-substr>"""
import importlib, sys
sys.path.insert(0, '/verif')
from pyvc.frontend import Repo
from pyvc.contracts import VExec
from pyvc import smt
prop, lem, sub = sys.argv[1:4]
mod = importlib.import_module(f'props.{prop}')
ex = VExec(Repo(), prop)
for con, var in mod.build(ex):
    if lem in con.lid or lem in con.name:
        ex.verify(con, var)
for oid, ob in ex.obligations.items():
    if sub in oid:
        print(';', oid, ob.text)
        print(smt.to_smt2(ob.query()))
        break
