"""Abstract values of the pyvc symbolic executor."""
import z3

from . import smt
from .smt import Val, ValList, SeqVal


class V:
    pass


class _VNone(V):
    def __repr__(self):
        return 'None'


NONE = _VNone()


class VBool(V):
    def __init__(self, e):
        self.e = e if isinstance(e, z3.ExprRef) else z3.BoolVal(bool(e))

    def __repr__(self):
        return f'Bool({self.e})'


class VInt(V):
    def __init__(self, e):
        self.e = e if isinstance(e, z3.ExprRef) else z3.IntVal(int(e))

    def __repr__(self):
        return f'Int({self.e})'


class VReal(V):
    def __init__(self, e):
        self.e = e if isinstance(e, z3.ExprRef) else z3.RealVal(e)

    def __repr__(self):
        return f'Real({self.e})'


class VStr(V):
    def __init__(self, s):
        self.s = s

    def __repr__(self):
        return f'Str({self.s!r})'


OPAQUE_STR_MARKS = ('<str>', '<fstring>')


def is_opaque_str(v):
    """formatted strings (f-strings, %, str(), format()) are abstracted to opaque constants: their value is unknown"""
    return isinstance(v, VStr) and any(m in v.s for m in OPAQUE_STR_MARKS)


class VBytes(V):
    def __init__(self, e):
        self.e = e

    def __repr__(self):
        return f'Bytes({self.e})'


class VTuple(V):
    def __init__(self, items):
        self.items = list(items)

    def __repr__(self):
        return f'Tuple{self.items}'


class VSeq(V):
    """immutable symbolic sequence of values (a tuple of unknown length)"""
    def __init__(self, e):
        self.e = e

    def __repr__(self):
        return f'Seq({self.e})'


class VSym(V):
    """dynamically typed symbolic value"""
    def __init__(self, t, hint=None):
        self.t = t
        self.hint = hint     # e.g. ('abs', 'PWorker'): how to treat attribute access

    def __repr__(self):
        return f'Sym({self.t})'


class VRef(V):
    def __init__(self, addr):
        self.addr = addr

    def __repr__(self):
        return f'Ref({self.addr})'


class VAbs(V):
    """object of an abstract (modelled) class, identified by key (a Val term)"""
    def __init__(self, cls, key):
        self.cls = cls
        self.key = key

    def __repr__(self):
        return f'Abs({self.cls},{self.key})'


class VExc(V):
    def __init__(self, cls, args=(), fields=None, ident=None, cause=None):
        self.cls = cls                  # exception class name in the exception table
        self.args = list(args)
        self.fields = fields or {}
        self.ident = ident              # optional Val term standing for "this very exception object"
        self.cause = cause

    def __repr__(self):
        return f'Exc({self.cls},{self.args})'


class VFunc(V):
    def __init__(self, fi, frame=None):
        self.fi = fi
        self.frame = frame

    def __repr__(self):
        return f'Func({self.fi.qualname})'


class VBound(V):
    def __init__(self, func, self_v, owner=None):
        self.func = func                # VFunc | VModel
        self.self_v = self_v
        self.owner = owner              # ClassInfo that defines func (for super())

    def __repr__(self):
        return f'Bound({self.func},{self.self_v})'


class VModel(V):
    """external / modelled callable: fn(ex, args, kwargs) -> V"""
    def __init__(self, name, fn):
        self.name = name
        self.fn = fn

    def __repr__(self):
        return f'Model({self.name})'


class VClass(V):
    def __init__(self, ci):
        self.ci = ci

    def __repr__(self):
        return f'Class({self.ci.qualname})'


class VExcClass(V):
    def __init__(self, name):
        self.name = name

    def __repr__(self):
        return f'ExcClass({self.name})'


class VExt(V):
    """reference to something external by dotted name (module, function, constant)"""
    def __init__(self, name):
        self.name = name

    def __repr__(self):
        return f'Ext({self.name})'


class VStar(V):
    """*seq at a call site with a symbolic sequence"""
    def __init__(self, v):
        self.v = v


class VDStar(V):
    """**mapping at a call site with an opaque mapping"""
    def __init__(self, v):
        self.v = v


# ------------------------------------------------------------------ heap objects

class HObj:
    def __init__(self, cls, attrs=None):
        self.cls = cls                  # ClassInfo or str
        self.attrs = attrs if attrs is not None else {}

    def clone(self):
        return HObj(self.cls, dict(self.attrs))


class HList:
    def __init__(self, items):
        self.items = list(items)

    def clone(self):
        return HList(self.items)


class HSymList:
    def __init__(self, seq):
        self.seq = seq

    def clone(self):
        return HSymList(self.seq)


class HBuf:
    """bytearray: a mutable byte sequence"""
    def __init__(self, seq):
        self.seq = seq

    def clone(self):
        return HBuf(self.seq)


class VView(V):
    """memoryview over the bytearray at addr: its bytes lo .. hi (absolute offsets into the buffer, z3 Ints)"""
    def __init__(self, addr, lo, hi):
        self.addr = addr
        self.lo = lo
        self.hi = hi

    def __repr__(self):
        return f'View({self.addr},{self.lo},{self.hi})'


class HDict:
    """dict with concrete (python) keys"""
    def __init__(self, items=None):
        self.items = dict(items or {})

    def clone(self):
        return HDict(self.items)


class HSymDict:
    """dict with symbolic keys: dom: Array(Val,Bool), map: Array(Val, vsort)"""
    def __init__(self, dom, mp, vkind='any'):
        self.dom = dom
        self.map = mp
        self.vkind = vkind              # 'any' | 'symlist' | ('abs', cls)
        self.vcnt = None                # optional ghost: Array(Val, Int), how many keys hold a given value (kept in lock-step by setdefault only)

    def clone(self):
        c = HSymDict(self.dom, self.map, self.vkind)
        c.vcnt = self.vcnt
        return c


class HSymSet:
    def __init__(self, dom):
        self.dom = dom

    def clone(self):
        return HSymSet(self.dom)


# ------------------------------------------------------------------ lowering to Val terms

def lower(v, ex=None):
    if v is NONE:
        return Val.v_none
    if isinstance(v, VBool):
        return Val.v_bool(v.e)
    if isinstance(v, VInt):
        return Val.v_int(v.e)
    if isinstance(v, VReal):
        return Val.v_real(v.e)
    if isinstance(v, VStr):
        return Val.v_str(z3.IntVal(smt.str_code(v.s)))
    if isinstance(v, VTuple):
        return Val.v_tup(smt.mk_list([lower(x, ex) for x in v.items]))
    if isinstance(v, VSym):
        return v.t
    if isinstance(v, VRef):
        return Val.v_ref(z3.IntVal(v.addr))
    if isinstance(v, VAbs):
        return Val.v_abs(z3.IntVal(smt.cls_code(v.cls)), v.key)
    if isinstance(v, VSeq):
        t = smt.mk_seq(v.e)
        if ex is not None:
            ex.assume(smt.seq_of(t) == v.e, 'seq_of(mk_seq(s)) == s')
        return t
    if isinstance(v, VBytes):
        t = smt.mk_bytes(v.e)
        if ex is not None:
            ex.assume(smt.bytes_of(t) == v.e, 'bytes_of(mk_bytes(b)) == b')
        return t
    if isinstance(v, VExc):
        if v.ident is not None:
            return v.ident
        return Val.v_exc(z3.IntVal(smt.cls_code(v.cls)),
                         Val.v_tup(smt.mk_list([lower(x, ex) for x in v.args])))
    if isinstance(v, VBound):
        fn = v.func.fi.qualname if isinstance(v.func, VFunc) else getattr(v.func, 'name', '?')
        return Val.v_tup(smt.mk_list([Val.v_str(z3.IntVal(smt.str_code('<bound ' + fn + '>'))), lower(v.self_v, ex)]))
    if isinstance(v, (VFunc, VBound, VModel, VClass, VExcClass, VExt)):
        # callables / classes as opaque constants
        name = getattr(v, 'name', None) or (v.fi.qualname if isinstance(v, VFunc) else None) \
            or (v.ci.qualname if isinstance(v, VClass) else repr(v))
        return Val.v_str(z3.IntVal(smt.str_code('<obj ' + str(name) + '>')))
    raise TypeError(f'cannot lower {v!r}')


def from_sort(term):
    """wrap a raw z3 term into a value according to its sort"""
    s = term.sort()
    if s == smt.Int:
        return VInt(term)
    if s == smt.Bool:
        return VBool(term)
    if s == smt.Real:
        return VReal(term)
    if s == smt.Bytes:
        return VBytes(term)
    if s == SeqVal:
        return VSeq(term)
    if s == Val:
        return VSym(term)
    raise TypeError(f'no value form for sort {s}')
