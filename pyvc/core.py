"""Core of the pyvc symbolic executor: path exploration by replay, path condition,
obligations, exception table.  The interpreter proper is in interp.py."""
import builtins
import hashlib
import os
import time

import z3

from . import smt
from .values import *  # noqa


class PathEnd(Exception):
    """this path needs no further exploration (infeasible, loop back edge, vanished)"""
    def __init__(self, why=''):
        self.why = why


class Undecided(Exception):
    """the executor met something it cannot handle soundly: verdict is 'undecided', never a violation"""


class PyRaise(Exception):
    def __init__(self, exc):
        self.exc = exc


class ReturnSig(Exception):
    def __init__(self, value):
        self.value = value


class BreakSig(Exception):
    pass


class ContinueSig(Exception):
    pass


class Vanish(Exception):
    """the executing thread/process disappears here (kill)"""
    def __init__(self, where=''):
        self.where = where


# ------------------------------------------------------------------ exception classes

def _builtin_exc_table():
    tab = {}
    for name in dir(builtins):
        obj = getattr(builtins, name)
        if isinstance(obj, type) and issubclass(obj, BaseException):
            tab[obj.__name__] = [b.__name__ for b in obj.__mro__[1:] if issubclass(b, BaseException)]
    import queue, struct, socket, pickle
    tab['queue.Empty'] = ['Exception', 'BaseException']
    tab['struct.error'] = ['Exception', 'BaseException']
    tab['socket.timeout'] = tab['TimeoutError'] + [] if False else ['TimeoutError'] + tab['TimeoutError']
    tab['pickle.PicklingError'] = ['pickle.PickleError', 'Exception', 'BaseException']
    tab['pickle.UnpicklingError'] = ['pickle.PickleError', 'Exception', 'BaseException']
    tab['pickle.PickleError'] = ['Exception', 'BaseException']
    # synthetic representatives: "some Exception subclass no handler names", same for BaseException
    tab['AnyException'] = ['Exception', 'BaseException']
    tab['AnyBaseException'] = ['BaseException']
    return tab


class ExcTable:
    def __init__(self, repo):
        self.parents = _builtin_exc_table()
        self.repo_cls = {}
        for ci in repo.classes.values():
            chain = []
            ok = False
            for c in repo.mro(ci)[1:]:
                if isinstance(c, str):
                    base = c.split('.')[-1] if c.split('.')[-1] in self.parents else c
                    if base in self.parents:
                        chain.append(base)
                        chain.extend(self.parents[base])
                        ok = True
                    break
                chain.append(c.name)
            if ok:
                self.parents[ci.name] = chain
                self.repo_cls[ci.name] = ci

    def known(self, name):
        return name in self.parents

    def is_sub(self, name, handler):
        if name == handler:
            return True
        if name not in self.parents:
            raise Undecided(f'unknown exception class {name}')
        return handler in self.parents[name]


class Obligation:
    def __init__(self, oid, kind, func, line, text, pc, goal, tag, info=None):
        self.id = oid
        self.kind = kind
        self.func = func
        self.line = line
        self.text = text
        self.pc = pc
        self.goal = goal
        self.tag = tag
        self.info = info or {}
        self.verdict = None

    def query(self):
        if self.kind == 'cover':
            return list(self.pc) + [self.goal]
        return list(self.pc) + [z3.Not(self.goal)]


class Explorer:
    """Depth-first exploration of all paths of run_once() by replaying decision prefixes."""

    def __init__(self, max_paths=20000):
        self.max_paths = max_paths
        self.decisions = []
        self.pos = 0
        self.forks = []
        self.paths = 0
        self.feas_cache = {}

    def choose(self, n, label=''):
        if self.pos < len(self.decisions):
            d = self.decisions[self.pos]
        else:
            d = 0
            self.decisions.append(0)
            self.forks.append((self.pos, n))
        self.pos += 1
        return d

    def prefix(self):
        return tuple(self.decisions[:self.pos])

    def explore(self, run_once):
        stack = [[]]
        gave_up = None
        self.undecided_paths = 0
        while stack:
            pre = stack.pop()
            self.decisions = list(pre)
            self.pos = 0
            self.forks = []
            self.paths += 1
            if self.paths > self.max_paths:
                raise Undecided(f'more than {self.max_paths} paths')
            try:
                run_once()
            except Undecided as u:
                # this path cannot be decided: the lemma is undecided (re-raised at the end, nothing is counted as proved), but the other paths are
                # still explored - they are genuine executions, and an obligation refuted on one of them is reported in addition
                if gave_up is None:
                    gave_up = u
                if os.environ.get('VERIF_DEBUG_UNDECIDED'):
                    print('  [undecided path]', u, flush=True)
                self.undecided_paths += 1
            for (i, n) in self.forks:
                for alt in range(1, n):
                    stack.append(self.decisions[:i] + [alt])
        if gave_up is not None:
            raise gave_up


class Exec:
    """State of one path + services (pc, fresh names, obligations).  Reset for every path."""

    def __init__(self, repo, prop_id='C00', tier='quick'):
        from .interp import Interp
        self.repo = repo
        self.prop = prop_id
        self.tier = tier
        self.exc = ExcTable(repo)
        self.explorer = Explorer()
        self.obligations = {}
        self.ob_order = []
        self.interp = Interp(self)
        self.abs_classes = {}        # name -> AbsClass
        self.ext_models = {}         # dotted name -> fn(ex, args, kwargs)
        self.contracts = {}          # qualname -> Contract
        self.use_contract = set()    # qualnames for which calls use the contract instead of inlining
        self.class_fields = {}       # class qualname -> {attr: type spec}
        self.inject = None           # InjectCfg or None
        self.call_hooks = {}         # qualname -> hook(interp, fi, args, kwargs, node, self_cls), all paths
        self.notes_abstracted = set()
        self.funcs_entered = set()        # repository functions whose bodies were symbolically executed as callees
        self.funcs_by_contract = set()    # callees replaced by their contract at the call site
        self.stats = {'paths': 0, 'feas_checks': 0, 'feas_time': 0.0, 'infeasible': 0}
        self.cur_func = None
        self.site_ord = {}
        self.feas_timeout = int(os.environ.get('VERIF_FEAS_MS', '8000'))      # an undecided feasibility check keeps the path (sound); generous so that a loaded machine does not create spurious paths
        self.reset_path()

    # -------------------------------------------------------------- per path
    def reset_path(self):
        self.pc = []
        self.pc_notes = []
        self.heap = {}
        self.next_addr = 1
        self.fresh_ctr = {}
        self.ghost = {}
        self.absfields = {}
        self.class_attrs = {}
        self.trace = []
        self.frames = []
        self.cost = None
        self.injected = 0
        self.old = None
        self.path_site_count = {}
        self.setup_bools = None      # while a lemma's set-up runs: the Boolean unknowns it creates (each must stay free: vacuity guard)

    def fresh(self, name, sort):
        k = self.fresh_ctr.get(name, 0)
        self.fresh_ctr[name] = k + 1
        nm = f'{name}!{k}' if k else name
        c = z3.Const(nm, sort)
        if self.setup_bools is not None and sort == z3.BoolSort():
            self.setup_bools.append(c)
        return c

    def alloc(self, hobj):
        a = self.next_addr
        self.next_addr += 1
        self.heap[a] = hobj
        return VRef(a)

    def note(self, s):
        self.trace.append(s)

    # -------------------------------------------------------------- path condition
    def assume(self, cond, why=''):
        cond = smt.simp(cond) if isinstance(cond, z3.ExprRef) else z3.BoolVal(bool(cond))
        if z3.is_true(cond):
            return
        self.pc.append(cond)
        if z3.is_false(cond):
            raise PathEnd('assumed false')

    def feasible(self):
        key = self.explorer.prefix() + (len(self.pc),)
        c = self.explorer.feas_cache.get(key)
        if c is not None:
            return c
        t0 = time.time()
        res = smt.check_forked(self.pc, self.feas_timeout)
        self.stats['feas_checks'] += 1
        self.stats['feas_time'] += time.time() - t0
        r = z3.unsat if res['status'] == 'unsat' else z3.sat
        ok = r != z3.unsat
        self.explorer.feas_cache[key] = ok
        return ok

    def branch(self, cond, label=''):
        """fork on a z3 Bool; returns python bool for this path"""
        if isinstance(cond, bool):
            return cond
        cond = smt.simp(cond)
        if z3.is_true(cond):
            return True
        if z3.is_false(cond):
            return False
        d = self.explorer.choose(2, label)
        if d == 0:
            self.pc.append(cond)
            self.note(f'{label}:T')
        else:
            self.pc.append(smt.simp(z3.Not(cond)))
            self.note(f'{label}:F')
        if not self.feasible():
            self.stats['infeasible'] += 1
            raise PathEnd('infeasible')
        return d == 0

    def choose(self, n, label=''):
        d = self.explorer.choose(n, label)
        return d

    # -------------------------------------------------------------- obligations
    def site(self, kind, node_key):
        """stable ordinal of an obligation site within the current target"""
        k = (kind, node_key)
        if k not in self.site_ord:
            n = sum(1 for (kk, _nk) in self.site_ord if kk == kind)
            self.site_ord[k] = n
        return self.site_ord[k]

    def oblige(self, kind, goal, text, node=None, func=None, key=None, info=None):
        func = func or ((getattr(self.lemma, 'lid', '') + ':' + self.frames[-1].fi.qualname) if self.frames else self.cur_func)
        line = getattr(node, 'lineno', 0) if node is not None else 0
        if isinstance(goal, bool):
            goal = z3.BoolVal(goal)
        goal = smt.simp(goal)
        if kind != 'cover' and z3.is_true(goal):
            # trivially true: still counted (discharged by simplification)
            pass
        nk = key if key is not None else (func, line, text)
        ordn = self.site(kind, (func,) + (nk if isinstance(nk, tuple) else (nk,)))
        tag = '/'.join(self.trace[-6:])
        h = hashlib.sha1(('|'.join(self.trace) + str(len(self.pc))).encode()).hexdigest()[:8]
        short = func.replace('pyworkers.', '')
        oid = f'{self.prop}/{short}/{kind}#{ordn}/{h}'
        if oid in self.obligations:
            return
        ob = Obligation(oid, kind, func, line, text, list(self.pc), goal, tag,
                        dict(info or {}, trace=list(self.trace), injections=[list(x) for x in self.ghost.get('__injections__', [])]))
        ob.site = f'{self.prop}/{short}/{kind}#{ordn}'
        self.obligations[oid] = ob
        self.ob_order.append(oid)

    def require(self, kind, goal, text, node=None, **kw):
        """emit obligation and continue under the assumption that it holds"""
        self.oblige(kind, goal, text, node, **kw)
        if isinstance(goal, bool):
            if not goal:
                raise PathEnd('obligation false')
            return
        self.assume(goal)
        if z3.is_false(smt.simp(goal)):
            raise PathEnd('obligation false')
