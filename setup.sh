#!/bin/sh
# Offline setup: verify the tools the checks need; nothing is built or fetched.
set -e
cd "$(dirname "$0")"
python3-vt -c "import z3, sys; assert z3.get_version_string() >= '4.8'; print('z3', z3.get_version_string())"
test -x /usr/bin/cvc5 && /usr/bin/cvc5 --version | head -1
/venv/bin/python -c "import pyworkers; print('pyworkers', pyworkers.__file__)"
mkdir -p evidence replays
echo setup ok
