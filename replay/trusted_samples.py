"""Trusted-contract sampling (DESIGN.md 6.6): the assumed contracts of primitives outside /repo/pyworkers (appendix A; the
`trusted_base` lists of the evidence files) exercised against the REAL primitives of this sandbox on seeded samples.

Bounded by construction - a sample that agrees proves nothing and is never counted as discharged; a sample that
DISAGREES falsifies an assumption every proof rests on, and the check that ran it exits 3.

usage: /venv/bin/python trusted_samples.py <seed>      -> one JSON object on stdout
"""
import copy
import copyreg
import io
import json
import multiprocessing as mp
import multiprocessing.connection as mpc
import os
import pickle
import queue
import random
import signal
import socket
import struct
import sys
import threading
import time

RESULTS = []


def sample(tag, text):
    def deco(fn):
        def run(rnd):
            t0 = time.time()
            try:
                n = fn(rnd)
                RESULTS.append({'assumption': tag, 'text': text, 'samples': n, 'falsified': None, 'seconds': round(time.time() - t0, 2)})
            except AssertionError as e:
                RESULTS.append({'assumption': tag, 'text': text, 'samples': None, 'falsified': str(e)[:500] or 'assertion failed', 'seconds': round(time.time() - t0, 2)})
            except Exception as e:     # noqa
                RESULTS.append({'assumption': tag, 'text': text, 'samples': None, 'falsified': None, 'error': f'{type(e).__name__}: {e}'[:500],
                                'seconds': round(time.time() - t0, 2)})
        run.tag = tag
        return run
    return deco


# ------------------------------------------------------------------------------ T2 sockets
@sample('T2 socket.recv', 'recv(n) returns a non-empty prefix of the unread stream with at most n bytes, b"" exactly at end of stream (or n == 0); '
                          'bytes arrive in order, uncorrupted, whatever the segmentation')
def s_recv(rnd):
    n = 0
    for _ in range(12):
        a, b = socket.socketpair()
        data = bytes(rnd.randrange(256) for _ in range(rnd.randrange(1, 5000)))

        def writer():
            pos = 0
            while pos < len(data):
                step = rnd.choice([1, 2, 3, 7, 64, 1000, 4096])
                a.sendall(data[pos:pos + step])
                pos += step
                if rnd.random() < 0.3:
                    time.sleep(0.001)
            a.close()
        t = threading.Thread(target=writer)
        t.start()
        got = b''
        assert b.recv(0) == b'', 'recv(0) returned data'
        while True:
            want = rnd.choice([1, 2, 4, 5, 100, 4096, 70000])
            c = b.recv(want)
            n += 1
            assert len(c) <= want, f'recv({want}) returned {len(c)} bytes'
            if not c:
                break
            assert data[len(got):len(got) + len(c)] == c, 'recv returned bytes that are not the next bytes of the stream'
            got += c
        assert got == data, 'stream ended (b"") before all bytes were delivered'
        assert b.recv(10) == b'', 'recv after end of stream is not b""'
        t.join()
        b.close()
    return n


@sample('T2 MSG_WAITALL', 'recv(n, MSG_WAITALL) returns exactly n bytes unless the stream ends first (then the shorter rest)')
def s_waitall(rnd):
    n = 0
    for _ in range(8):
        a, b = socket.socketpair()
        total = rnd.randrange(10, 3000)
        data = bytes(rnd.randrange(256) for _ in range(total))

        def writer():
            for i in range(0, total, 97):
                a.sendall(data[i:i + 97])
                time.sleep(0.0005)
            a.close()
        t = threading.Thread(target=writer)
        t.start()
        want = rnd.randrange(1, total + 500)
        c = b.recv(want, socket.MSG_WAITALL)
        n += 1
        assert c == data[:want], f'MSG_WAITALL: asked {want} of {total}, got {len(c)} bytes'
        t.join()
        b.close()
    return n


@sample('T2 sendall', 'sendall to a peer that has gone raises BrokenPipeError / ConnectionResetError (subclasses of OSError), never succeeds silently for ever')
def s_sendall(rnd):
    a, b = socket.socketpair()
    b.close()
    raised = None
    try:
        for _ in range(50):
            a.sendall(b'x' * 65536)
    except OSError as e:
        raised = e
    assert raised is not None, 'sendall to a closed peer never raised'
    assert isinstance(raised, (BrokenPipeError, ConnectionResetError, OSError))
    a.close()
    return 1


# ------------------------------------------------------------------------------ struct
@sample('struct', "struct.pack('!I', n): 4 bytes, big endian, for 0 <= n < 2**32, else struct.error; unpack('!I', b) inverts it for len(b) == 4, else struct.error")
def s_struct(rnd):
    n = 0
    for v in [0, 1, 255, 256, 65535, 65536, 2 ** 31, 2 ** 32 - 1] + [rnd.randrange(2 ** 32) for _ in range(200)]:
        b = struct.pack('!I', v)
        assert len(b) == 4 and int.from_bytes(b, 'big') == v
        assert struct.unpack('!I', b) == (v,)
        n += 1
    for v in (-1, 2 ** 32, 2 ** 40, -2 ** 31):
        try:
            struct.pack('!I', v)
            assert False, f'struct.pack accepted {v}'
        except struct.error:
            n += 1
    for ln in (0, 1, 3, 5, 8):
        try:
            struct.unpack('!I', b'\0' * ln)
            assert False, f'struct.unpack accepted {ln} bytes'
        except struct.error:
            n += 1
    return n


# ------------------------------------------------------------------------------ pickle / copy
def _rand_value(rnd, depth=3):
    r = rnd.random()
    if depth == 0 or r < 0.35:
        return rnd.choice([None, True, False, 0, 1, -5, 2 ** 40, 1.5, '', 'text', b'', b'bytes', ()])
    if r < 0.55:
        return tuple(_rand_value(rnd, depth - 1) for _ in range(rnd.randrange(4)))
    if r < 0.75:
        return [_rand_value(rnd, depth - 1) for _ in range(rnd.randrange(4))]
    if r < 0.9:
        return {rnd.choice(['a', 'b', 1, 2, (1, 2)]): _rand_value(rnd, depth - 1) for _ in range(rnd.randrange(3))}
    return rnd.choice([ValueError('x', 1), KeyError('k'), OSError(5, 'msg')])


def _eq(a, b):
    if isinstance(a, BaseException):
        return type(a) is type(b) and a.args == b.args
    if type(a) is not type(b):
        return False
    if isinstance(a, (list, tuple)):
        return len(a) == len(b) and all(_eq(x, y) for x, y in zip(a, b))
    if isinstance(a, dict):
        return a.keys() == b.keys() and all(_eq(a[k], b[k]) for k in a)
    return a == b


@sample('T6 pickle', 'loads(dumps(x)) == x for the message shapes of the protocol (None, bools, ints, strings, bytes, tuples, lists, dicts, standard exceptions), '
                     'through pyworkers.remote_pickle as well as the standard pickle')
def s_pickle(rnd):
    from pyworkers import remote_pickle
    n = 0
    for _ in range(150):
        v = _rand_value(rnd)
        assert _eq(pickle.loads(pickle.dumps(v)), v), f'pickle round trip changed {v!r}'
        assert _eq(remote_pickle.loads(remote_pickle.dumps(v)), v), f'remote_pickle round trip changed {v!r}'
        assert len(remote_pickle.dumps(v)) >= 1
        n += 2
    return n


@sample('T7 copy', 'copy.deepcopy(x) is equal to x and shares no mutable part with it; copy.copy(list) is a new list with the same elements')
def s_copy(rnd):
    n = 0
    for _ in range(100):
        v = [_rand_value(rnd), {'k': [_rand_value(rnd)]}]
        d = copy.deepcopy(v)
        assert _eq(d, v) and d is not v and d[1] is not v[1] and d[1]['k'] is not v[1]['k']
        d[1]['k'].append('changed')
        assert len(v[1]['k']) == 1, 'deepcopy shares a nested list'
        s = copy.copy(v)
        assert s is not v and s[1] is v[1]
        n += 1
    return n


class _K:
    def __init__(self, v):
        self.v = v


@sample('T-dispatch', 'a pickler instance with its own dispatch_table attribute consults that table only (copyreg.dispatch_table is not consulted behind it) - the fact behind C13')
def s_dispatch(rnd):
    K = _K
    copyreg.pickle(K, lambda o: (K, ('via-copyreg',)))
    try:
        p = pickle.loads(pickle.dumps(K(1)))
        assert p.v == 'via-copyreg', 'copyreg.dispatch_table is not used by the default pickler'
        buf = io.BytesIO()
        pk = pickle.Pickler(buf)
        pk.dispatch_table = {}
        pk.dump(K(2))
        assert pickle.loads(buf.getvalue()).v == 2, 'a private (empty) dispatch_table did not hide copyreg.dispatch_table'
        buf = io.BytesIO()
        pk = pickle.Pickler(buf)
        pk.dispatch_table = copyreg.dispatch_table.copy()
        pk.dump(K(3))
        assert pickle.loads(buf.getvalue()).v == 'via-copyreg', 'a private copy of copyreg.dispatch_table is not honoured'
    finally:
        copyreg.dispatch_table.pop(K, None)
    return 3


# ------------------------------------------------------------------------------ pipes, queues, events, locks
def _child_send(conn, items, linger):
    for x in items:
        conn.send(x)
    time.sleep(linger)
    conn.close()


@sample('T3 Pipe', 'multiprocessing.Pipe: messages arrive in order, one recv per send; after the writer has gone and everything was read recv raises EOFError; '
                   'poll(0) is False on an empty live pipe; connection.wait([conn, sentinel]) returns the ready ones')
def s_pipe(rnd):
    n = 0
    ctx = mp.get_context('fork')
    for _ in range(4):
        r, w = ctx.Pipe(duplex=False)
        items = [_rand_value(rnd, 2) for _ in range(rnd.randrange(1, 6))]
        assert r.poll(0) is False
        p = ctx.Process(target=_child_send, args=(w, items, 0.05))
        p.start()
        w.close()
        got = []
        while True:
            ready = mpc.wait([r, p.sentinel], timeout=5)
            assert ready, 'connection.wait timed out although the child sends and exits'
            if r in ready:
                try:
                    got.append(r.recv())
                    n += 1
                except EOFError:
                    break
            elif p.sentinel in ready and not r.poll(0):
                # the child has exited and nothing is left
                try:
                    r.recv()
                    assert False, 'recv on a pipe whose writer exited returned a value although poll() was False'
                except EOFError:
                    break
        assert len(got) == len(items) and all(_eq(a, b) for a, b in zip(got, items)), 'pipe lost, duplicated or reordered messages'
        p.join(5)
        assert not p.is_alive() and p.exitcode == 0
        assert mpc.wait([p.sentinel], timeout=0) == [p.sentinel], 'the sentinel of an exited process is not ready'
        r.close()
    # sending into a pipe whose reader has gone
    r, w = ctx.Pipe(duplex=False)
    r.close()
    try:
        for _ in range(100):
            w.send(b'x' * 70000)
        assert False, 'send into a pipe without reader never raised'
    except OSError:
        n += 1
    w.close()
    return n


@sample('T3 Queue', 'queue.Queue is FIFO; get(block=False) and get(timeout=t) raise queue.Empty on an empty queue (the latter after about t)')
def s_queue(rnd):
    q = queue.Queue()
    items = [rnd.randrange(100) for _ in range(50)]
    for x in items:
        q.put(x)
    assert [q.get() for _ in items] == items
    try:
        q.get(block=False)
        assert False, 'get(block=False) on an empty queue returned'
    except queue.Empty:
        pass
    t0 = time.time()
    try:
        q.get(timeout=0.05)
        assert False
    except queue.Empty:
        assert 0.04 <= time.time() - t0 < 2
    return len(items) + 2


@sample('T4 Event/Lock', 'Event.wait() returns True once set (also for a waiter that started before), False after the timeout otherwise; '
                         'a with-block on a Lock releases it on every exit')
def s_event(rnd):
    e = threading.Event()
    assert e.wait(0.01) is False and not e.is_set()
    res = []
    t = threading.Thread(target=lambda: res.append(e.wait(5)))
    t.start()
    time.sleep(0.02)
    e.set()
    t.join(5)
    assert res == [True] and e.wait(0) is True
    e.clear()
    assert e.wait(0) is False
    lk = threading.Lock()
    try:
        with lk:
            assert lk.locked()
            raise KeyError('x')
    except KeyError:
        pass
    assert not lk.locked()
    return 6


# ------------------------------------------------------------------------------ processes and signals
def _sleeper(handle):
    if handle:
        signal.signal(signal.SIGTERM, lambda *a: os._exit(7))
    time.sleep(30)


@sample('T4 SIGTERM', 'os.kill(pid, SIGTERM) ends a process that neither blocks nor handles the signal (exit code -SIGTERM); a handler installed by the process runs instead; '
                      'is_alive() is False and the sentinel ready afterwards')
def s_sigterm(rnd):
    ctx = mp.get_context('fork')
    for handle, code in ((False, -signal.SIGTERM), (True, 7)):
        p = ctx.Process(target=_sleeper, args=(handle,))
        p.start()
        time.sleep(0.2)
        assert p.is_alive()
        os.kill(p.pid, signal.SIGTERM)
        p.join(5)
        assert not p.is_alive(), 'process survived SIGTERM'
        assert p.exitcode == code, f'exit code {p.exitcode}, expected {code}'
        assert mpc.wait([p.sentinel], timeout=0) == [p.sentinel]
    return 2


@sample('T5 foreign_raise', 'pyworkers.utils.foreign_raise(tid, Exc) makes Exc appear in the target thread between two bytecodes of Python code it is running '
                            '(not inside a blocking C call, where it is delivered when the call returns); a thread that has finished is not affected')
def s_foreign(rnd):
    from pyworkers.utils import foreign_raise

    class Boom(Exception):
        pass
    n = 0
    for _ in range(5):
        box = {}
        started = threading.Event()

        def target():
            started.set()
            try:
                i = 0
                while True:
                    i += 1
            except Boom:
                box['where'] = 'loop'
        t = threading.Thread(target=target)
        t.start()
        started.wait(5)
        time.sleep(rnd.random() * 0.01)
        foreign_raise(t.ident, Boom)
        t.join(5)
        assert not t.is_alive() and box.get('where') == 'loop', 'the asynchronous exception did not arrive in running Python code'
        n += 1
    box = {}

    def sleeper():
        try:
            time.sleep(0.3)
            box['slept'] = True
            for _ in range(10 ** 6):
                pass
            box['finished'] = True
        except Boom:
            box['raised_after_sleep'] = box.get('slept', False)
    t = threading.Thread(target=sleeper)
    t.start()
    time.sleep(0.05)
    t0 = time.time()
    foreign_raise(t.ident, Boom)
    t.join(5)
    # the exception surfaces when the blocking call returns (at the call itself, i.e. possibly before its value is stored - the
    # evaluate/store split of injection mode), never while the thread is inside the call
    assert 'raised_after_sleep' in box and 'finished' not in box, f'delivery around a blocking call: {box}'
    assert time.time() - t0 >= 0.15, 'the blocking call was interrupted (the model delivers only between statements of Python code)'
    return n + 1


def _exit_now(conn):
    os._exit(3)


@sample('T3 Pipe EOF needs every copy closed', 'a pipe reports EOF only when EVERY copy of its write end is closed: while the reading process still holds its own copy, '
                                               'a child that dies without writing does not make recv() return (poll stays False) - only the sentinel tells (C20.L1d)')
def s_pipe_eof(rnd):
    ctx = mp.get_context('fork')
    n = 0
    for _ in range(2):
        r, w = ctx.Pipe(duplex=False)
        p = ctx.Process(target=_exit_now, args=(w,))
        p.start()
        p.join(5)
        assert not p.is_alive(), 'the child that exits at once is still alive'
        assert r.poll(0.3) is False, 'a pipe whose write end is still held by the reader itself became readable (EOF) after the child died'
        assert mpc.wait([r, p.sentinel], timeout=1) == [p.sentinel], 'connection.wait([pipe, sentinel]) did not single out the sentinel of the dead child'
        w.close()
        assert r.poll(1) is True, 'after the last copy of the write end was closed the pipe did not become readable (EOF)'
        try:
            r.recv()
            assert False, 'recv returned a value from a pipe nobody wrote to'
        except EOFError:
            n += 1
        r.close()
    return n


@sample('T2 reset connection', 'on a TCP connection the peer has RESET (closed with SO_LINGER 0) getpeername() fails with OSError (ENOTCONN) once the reset has been '
                               'seen, while getsockname() still returns the local address (C11.L2)')
def s_reset(rnd):
    n = 0
    for _ in range(3):
        ls = socket.socket(socket.AF_INET, socket.SOCK_STREAM)
        ls.bind(('127.0.0.1', 0))
        ls.listen()
        c = socket.create_connection(ls.getsockname(), timeout=3)
        s, _ = ls.accept()
        s.settimeout(3)
        local = s.getsockname()
        assert s.getpeername() == c.getsockname()
        c.setsockopt(socket.SOL_SOCKET, socket.SO_LINGER, struct.pack('ii', 1, 0))
        c.close()
        time.sleep(0.2)
        try:
            s.recv(1)
        except OSError:
            pass
        try:
            s.getpeername()
            assert False, 'getpeername() still works on a connection the peer has reset'
        except OSError:
            n += 1
        assert s.getsockname() == local, 'getsockname() changed or failed after the peer reset the connection'
        s.close()
        ls.close()
    return n


ALL = [s_recv, s_waitall, s_sendall, s_struct, s_pickle, s_copy, s_dispatch, s_pipe, s_queue, s_event, s_sigterm, s_foreign, s_pipe_eof, s_reset]


def main():
    seed = int(sys.argv[1]) if len(sys.argv) > 1 else 0
    for i, fn in enumerate(ALL):
        fn(random.Random(seed * 1000 + i))
    out = {'seed': seed, 'python': sys.version.split()[0], 'assumptions_sampled': len(RESULTS), 'samples': sum(r['samples'] or 0 for r in RESULTS),
           'falsified': [r for r in RESULTS if r.get('falsified')], 'errors': [r for r in RESULTS if r.get('error')], 'results': RESULTS}
    print(json.dumps(out, default=repr))
    sys.stdout.flush()
    os._exit(0)


if __name__ == '__main__':
    main()
