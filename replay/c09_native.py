"""Native replay for C09: pool life cycle on real workers - duplicate id in add_worker, restart after an abrupt death,
with-body raising while a worker is stuck; nothing may outlive the pool."""
import json
import multiprocessing as mp
import os
import signal
import sys
import threading
import time

import replay_targets as T


def pid_exists(pid):
    try:
        os.kill(pid, 0)
    except ProcessLookupError:
        return False
    except PermissionError:
        return True
    # a zombie still "exists": reap what is ours
    try:
        with open(f'/proc/{pid}/stat') as f:
            return f.read().split(')')[-1].split()[0] != 'Z'
    except OSError:
        return False


def dup_scenario(viol, obs):
    from pyworkers.pool import Pool
    from pyworkers.persistent_thread import PersistentThreadWorker
    from pyworkers.worker import WorkerType

    class Clash(PersistentThreadWorker):
        """a worker whose id collides with an already registered one (the case add_worker guards against)"""
        clash_with = None

        @property
        def id(self):
            return type(self).clash_with

    pool = Pool(T.square, name='dup pool', close_timeout=2)
    first = None
    with pool:
        first = pool.add_worker(WorkerType.THREAD, name='first')
        Clash.clash_with = first.id
        try:
            pool.add_worker(Clash, name='second')
            viol.append('add_worker with a duplicated id did not raise')
        except ValueError:
            pass
        regs = [w for w in pool.workers if w is first]
        obs['first_still_registered'] = bool(regs)
        if not regs:
            viol.append('a failed add_worker (duplicated id) removed the ALREADY REGISTERED worker from the pool')
        try:
            r = pool.run(iter(range(4)))
            obs['run_after_failed_add'] = r
            if r is None or sorted(r) != [0, 1, 4, 9]:
                viol.append(f'run() after a failed add_worker returned {r!r} instead of the four squares')
        except Exception as e:     # noqa
            viol.append(f'run() after a failed add_worker raised {type(e).__name__}: {e}')
    time.sleep(0.2)
    alive = first.is_alive()
    obs['first_alive_after_exit'] = alive
    if alive:
        viol.append('the first worker outlived its pool (it had been dropped from the pool by the failed add_worker, so close() never reached it)')
        first.terminate(timeout=1)


def restart_scenario(viol, obs):
    from pyworkers.pool import Pool
    from pyworkers.worker import WorkerType
    pool = Pool(T.square, name='restart pool', close_timeout=2)
    workers, pids = [], set()
    enq = {}
    cur = [0]

    def cb(worker, event, *rest):
        if event == 'enqueued':
            enq.setdefault(cur[0], []).append(worker)

    def do_run(no, inputs):
        cur[0] = no
        inputs = list(inputs)
        res = pool.run(iter(inputs), worker_callback=cb)
        if res is None or sorted(res) != sorted(x * x for x in inputs):
            viol.append(f'run #{no}: results {res!r} do not correspond to inputs {inputs!r}')
    try:
        with pool:
            workers.append(pool.add_worker(WorkerType.THREAD, name='T'))
            workers.append(pool.add_worker(WorkerType.PROCESS, name='P1'))
            workers.append(pool.add_worker(WorkerType.PROCESS, name='P2'))
            pids.update(w.pid for w in workers[1:])
            do_run(1, range(6))
            victim = workers[2]
            os.kill(victim.pid, signal.SIGKILL)
            t0 = time.time()
            while victim.is_alive() and time.time() - t0 < 10:
                time.sleep(0.05)
            do_run(2, range(10, 16))
            if any(w is victim for w in enq.get(2, [])):
                viol.append('run #2: the killed worker was handed work')
            pool.restart_workers()
            pids.update(w.pid for w in workers[1:])
            if len(list(pool.workers)) != 3:
                viol.append(f'after restart_workers the pool has {len(list(pool.workers))} workers instead of 3')
            for w in workers:
                if not w.is_alive():
                    viol.append(f'after restart_workers: worker {w.name} is not alive')
            do_run(3, range(20, 26))
            if not any(w is victim for w in enq.get(3, [])):
                viol.append('run #3: the restarted worker was not handed any work')
    except BaseException as e:     # noqa
        viol.append(f'restart scenario: the with-block was left through {type(e).__name__}: {e}')
    pids.update(w.pid for w in workers[1:])
    time.sleep(0.3)
    for w in workers:
        if w.is_alive():
            viol.append(f'restart scenario: worker {w.name} (pid {w.pid}) outlived its pool; still registered: {any(w is x for x in pool.workers)}')
    left = sorted(p for p in pids if p != os.getpid() and pid_exists(p))
    obs['restart_leftover_pids'] = left
    if left:
        viol.append(f'restart scenario: pids of pool workers still present after the with-block: {left}')
        for p in left:
            try:
                os.kill(p, signal.SIGKILL)
            except OSError:
                pass


def stuck_scenario(viol, obs):
    """a worker stuck in an uncooperative target while the with-body raises"""
    from pyworkers.pool import Pool
    from pyworkers.worker import WorkerType
    pool = Pool(T.sleep_for, name='stuck pool', close_timeout=0.5)
    workers = []
    try:
        with pool:
            workers.append(pool.add_worker(WorkerType.PROCESS, name='S1'))
            workers.append(pool.add_worker(WorkerType.PROCESS, name='S2'))
            workers[0].enqueue(30)        # busy for 30 s
            time.sleep(0.3)
            raise KeyError('body failed')
    except KeyError:
        pass
    except BaseException as e:     # noqa
        viol.append(f'stuck scenario: unexpected {type(e).__name__}: {e}')
    time.sleep(0.3)
    for w in workers:
        if w.is_alive():
            viol.append(f'stuck scenario: worker {w.name} outlived the pool after the with-body raised')
    left = sorted(w.pid for w in workers if pid_exists(w.pid))
    obs['stuck_leftover_pids'] = left
    if left:
        viol.append(f'stuck scenario: child processes still present: {left}')
        for p in left:
            try:
                os.kill(p, signal.SIGKILL)
            except OSError:
                pass


def lingering_scenario(viol, obs):
    """a worker whose end run() has already registered (its target raised) but whose process cannot exit on its own"""
    from pyworkers.pool import Pool, PoolError
    from pyworkers.worker import WorkerType
    pool = Pool(T.linger_then_raise, name='linger pool', close_timeout=1, retry=False)
    workers = []
    try:
        with pool:
            workers.append(pool.add_worker(WorkerType.PROCESS, name='L1'))
            workers.append(pool.add_worker(WorkerType.PROCESS, name='L2'))
            try:
                pool.run(iter(range(6)))
            except PoolError:
                pass
    except BaseException as e:     # noqa
        viol.append(f'lingering scenario: unexpected {type(e).__name__}: {e}')
    time.sleep(0.5)
    left = sorted(w.pid for w in workers if pid_exists(w.pid))
    obs['lingering_leftover_pids'] = left
    for w in workers:
        if w.is_alive():
            viol.append(f'lingering scenario: worker {w.name} (pid {w.pid}) outlived its pool: its end had been registered by run(), but its process had not exited and close() did not terminate it')
    if left:
        viol.append(f'lingering scenario: child processes still present after the with-block: {left}')
        for p in left:
            try:
                os.kill(p, signal.SIGKILL)
            except OSError:
                pass


def failed_run_scenario(viol, obs):
    """a run that fails (every worker killed, inputs taken back from them still waiting to be retried), the pool revived by restart_workers(), then
    another run: its results must correspond to ITS inputs only"""
    from pyworkers.pool import Pool, PoolError
    from pyworkers.worker import WorkerType
    pool = Pool(T.square, name='failed-run pool', close_timeout=2)
    workers = []
    try:
        with pool:
            workers.append(pool.add_worker(WorkerType.PROCESS, name='F1'))
            workers.append(pool.add_worker(WorkerType.PROCESS, name='F2'))
            r = pool.run(iter([1, 2, 3]))
            if r is None or sorted(r) != [1, 4, 9]:
                viol.append(f'failed-run scenario: run A returned {r!r} for inputs [1, 2, 3]')
            for w in workers:
                os.kill(w.pid, signal.SIGKILL)
            t0 = time.time()
            while any(w.is_alive() for w in workers) and time.time() - t0 < 10:
                time.sleep(0.05)
            try:
                r = pool.run(iter([100, 101, 102]))
                viol.append(f'failed-run scenario: run B on a pool whose workers were all killed returned {r!r} instead of raising PoolError')
            except PoolError as e:
                obs['run_B'] = f'PoolError, partial results {e.partial_results!r}' if hasattr(e, 'partial_results') else 'PoolError'
            pool.restart_workers()
            r = pool.run(iter([200, 201]))
            obs['run_C'] = r
            if r is None or sorted(r) != [40000, 40401]:
                viol.append(f'failed-run scenario: run C with inputs [200, 201] returned {r!r} instead of [40000, 40401] after run B (inputs [100, 101, 102]) had failed '
                            f'with PoolError and restart_workers() had revived the pool: results that are not from this run\'s inputs')
            r = pool.run(iter([7]))
            if r != [49]:
                viol.append(f'failed-run scenario: run D with input [7] returned {r!r}')
    except BaseException as e:     # noqa
        viol.append(f'failed-run scenario: the with-block was left through {type(e).__name__}: {e}')
    time.sleep(0.3)
    for w in workers:
        if w.is_alive():
            viol.append(f'failed-run scenario: worker {w.name} outlived its pool')


def dead_but_lingering_scenario(viol, obs):
    """run 1 registers the end of a worker (its target raised) whose process cannot exit on its own; run 2 starts right after: the pool knows the worker is
    gone and must never offer it work again, whatever is_alive() still says about its process"""
    from pyworkers.pool import Pool, PoolError
    from pyworkers.worker import WorkerType
    pool = Pool(T.linger_then_raise, name='lingering-dead pool', close_timeout=1, retry=False)
    workers = []
    offered = []
    try:
        with pool:
            workers.append(pool.add_worker(WorkerType.PROCESS, name='D1'))
            workers.append(pool.add_worker(WorkerType.PROCESS, name='D2'))
            died = []

            def cb(worker, event, *rest):
                if event == 'died':
                    died.append(worker.name)
            try:
                pool.run(iter([0, 1, 2, 3]), worker_callback=cb)
            except PoolError:
                pass
            obs['died_in_run_1'] = list(died)
            dead = [w for w in workers if w.name in died]

            def enq(worker, x):
                offered.append((worker.name, x))
                worker.enqueue(x)
                return True
            t0 = time.time()
            res = {}

            def second():
                try:
                    res['ret'] = pool.run(iter([5, 6]), enqueue_fn=enq)
                except PoolError as e:
                    res['poolerror'] = repr(e)
            th = threading.Thread(target=second, daemon=True)
            th.start()
            th.join(15)
            obs['run_2'] = dict(res, seconds=round(time.time() - t0, 2), offered=list(offered)[:12], n_offered=len(offered))
            if th.is_alive():
                viol.append(f'run 2 is still running after 15 s: work was offered to {sorted(set(n for n, _ in offered))}')
            bad = [(n, x) for n, x in offered if any(n == w.name for w in dead)]
            if bad:
                viol.append(f'run 2 offered inputs to a worker whose end run 1 had already registered ({sorted(set(n for n, _ in bad))}, {len(bad)} offers): '
                            f'a dead worker is handed work again')
    except BaseException as e:     # noqa
        viol.append(f'lingering-dead scenario: the with-block was left through {type(e).__name__}: {e}')
    time.sleep(0.3)
    for w in workers:
        if pid_exists(w.pid):
            try:
                os.kill(w.pid, signal.SIGKILL)
            except OSError:
                pass


def main():
    sc = json.loads(sys.argv[1])
    viol, obs = [], {}

    def watchdog():
        print(json.dumps({'violates': True, 'violations': viol + ['watchdog: the scenario did not finish within 100 s (hang)'], 'observed': obs, 'scenario': sc}, default=repr))
        sys.stdout.flush()
        for c in mp.active_children():
            c.kill()
        os._exit(0)
    tm = threading.Timer(100, watchdog)
    tm.daemon = True
    tm.start()
    want = sc.get('lemma') or ''
    if not want or want.startswith('L5'):
        dup_scenario(viol, obs)
    if not want or want.startswith('L4'):
        restart_scenario(viol, obs)
    if not want or want.startswith('L2'):
        failed_run_scenario(viol, obs)
        dead_but_lingering_scenario(viol, obs)
    if not want or want.startswith('L1'):
        stuck_scenario(viol, obs)
        lingering_scenario(viol, obs)
    print(json.dumps({'violates': bool(viol), 'violations': viol, 'observed': obs, 'scenario': sc}, default=repr))
    sys.stdout.flush()
    for c in mp.active_children():
        c.kill()
    os._exit(0)


if __name__ == '__main__':
    main()
