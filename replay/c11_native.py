"""Native replay for C11 / C20.L3 / C18: a real RemoteServer process attacked by faulty raw clients.
scenario: {"name": "disconnects" | "unknown_ctx" | "all"}"""
import json
import socket
import sys
import threading
import time

from pyworkers.remote import send_msg, recv_msg, RemoteWorker, ConnectionClosedError
from pyworkers.remote_server import spawn_server

import replay_targets as T


def raw(addr):
    s = socket.socket(socket.AF_INET, socket.SOCK_STREAM)
    s.settimeout(3)
    s.connect(addr)
    return s


def server_serves(addr):
    """a healthy client still gets a worker running and the right result"""
    res = {}

    def body():
        try:
            w = RemoteWorker(T.square, args=(7,), host=addr)
            res['ok'] = w.wait(10) and w.result == 49
        except Exception as e:      # noqa
            res['err'] = f'{type(e).__name__}: {e}'
    t = threading.Thread(target=body, daemon=True)
    t.start()
    t.join(15)
    if t.is_alive():
        return False, 'healthy client still blocked after 15 s'
    if not res.get('ok'):
        return False, res.get('err', 'wrong result')
    return True, ''


def main():
    sc = json.loads(sys.argv[1])
    name = sc.get('name', 'all')
    viol = []
    obs = {}
    server = spawn_server(('127.0.0.1', 0))
    addr = server.addr
    try:
        if name in ('disconnects', 'all'):
            # 1. connect + close; 2. header then close (context request without payload); 3. half a header
            s = raw(addr); s.close()
            time.sleep(0.3)
            obs['alive_after_connect_close'] = server.is_alive()
            if server.is_alive():
                s = raw(addr); send_msg(s, (1, False)); s.close()
                time.sleep(0.3)
                obs['alive_after_header_only'] = server.is_alive()
            if server.is_alive():
                s = raw(addr); s.sendall(b'\x00\x00'); s.close()
                time.sleep(0.3)
                obs['alive_after_half_header'] = server.is_alive()
            if not server.is_alive():
                viol.append(f'server process died after a client disconnected mid-request: {obs}')
            else:
                ok, why = server_serves(addr)
                if not ok:
                    viol.append('server no longer serves healthy clients: ' + why)
        if name in ('no_ctrl_connect', 'all') and server.is_alive():
            # a client that sends a complete worker request and dies before it connects the control channel (a: after reading the
            # control address, b: without reading it)
            for variant in ('after reading the control address', 'without reading the control address',
                            'after reading the control address, with a connection reset (RST, what a killed client whose socket has SO_LINGER 0 produces)',
                            'without reading the control address, with a connection reset (RST)'):
                w = RemoteWorker(T.square, args=(3,), host=addr, run=False)
                s = raw(addr)
                send_msg(s, (None, True))
                send_msg(s, w)
                if variant.startswith('after'):
                    try:
                        obs['control_addr'] = repr(recv_msg(s))
                    except Exception as e:      # noqa
                        obs['control_addr'] = f'{type(e).__name__}: {e}'
                if 'RST' in variant:
                    import struct
                    s.setsockopt(socket.SOL_SOCKET, socket.SO_LINGER, struct.pack('ii', 1, 0))
                s.close()
                time.sleep(0.5)
                if not server.is_alive():
                    viol.append(f'server process died after a client vanished {variant}')
                    break
                ok, why = server_serves(addr)
                obs[f'serves_after_client_vanished_{variant.split()[0]}{"_rst" if "RST" in variant else ""}'] = ok
                if not ok:
                    viol.append(f'a client that sent a worker request and vanished {variant} (before connecting the control channel) blocks the server: ' + why)
                    break
        if name in ('unknown_ctx', 'all') and server.is_alive():
            s = raw(addr)
            send_msg(s, (12345, True))
            try:
                data = s.recv(16)
                obs['unknown_ctx_client_sees'] = 'EOF' if data == b'' else repr(data)
            except socket.timeout:
                obs['unknown_ctx_client_sees'] = 'nothing for 3 s (socket neither answered nor closed)'
                viol.append('request naming an unknown context: the client socket is neither answered nor closed (client would wait for ever)')
            except OSError as e:
                obs['unknown_ctx_client_sees'] = f'{type(e).__name__}'
            s.close()
            if not server.is_alive():
                viol.append('server died on a request naming an unknown context')
    finally:
        try:
            server.terminate(timeout=2, force=True)
        except Exception:
            pass
    if name in ('reset_after_ctrl', 'all'):
        # a client that completes the handshake up to the control connection and is then killed (both its sockets RESET) while the server is spawning
        # the backend: the backend finds its data socket dead; the accept loop must not wait for ever for a report that will never come
        import struct
        server4 = spawn_server(('127.0.0.1', 0))
        try:
            for variant in ('reset (RST)', 'closed (FIN)'):
                w = RemoteWorker(T.square, args=(3,), host=server4.addr, run=False)
                s = raw(server4.addr)
                send_msg(s, (None, True))
                send_msg(s, w)
                ctrl_addr = recv_msg(s)
                c = socket.create_connection(tuple(ctrl_addr), timeout=3)
                for x in (c, s):
                    if 'RST' in variant:
                        x.setsockopt(socket.SOL_SOCKET, socket.SO_LINGER, struct.pack('ii', 1, 0))
                    x.close()
                time.sleep(2.0)
                if not server4.is_alive():
                    viol.append(f'server process died after a client that had connected its control channel was {variant} while the backend was being spawned')
                    break
                ok, why = server_serves(server4.addr)
                obs[f'serves_after_client_{variant.split()[0]}_after_ctrl'] = ok
                if not ok:
                    viol.append(f'a client that connected its control channel and was then {variant} while the server was spawning its backend blocks the server: ' + why)
                    break
        finally:
            try:
                server4.terminate(timeout=2, force=True)
            except Exception:
                pass
    if name in ('reset_in_handshake', 'all'):
        # a client that sends a complete worker request and is then RESET (killed; its data socket has SO_LINGER 0) while the server is between reading the
        # request and answering it.  The window is selected by descheduling the server there (line injector, SLEEP: nothing is raised or patched).
        import os
        import struct
        here = os.path.dirname(os.path.abspath(__file__))
        old_env = {k: os.environ.get(k) for k in ('PYVC_INJECT', 'PYTHONPATH')}
        os.environ['PYVC_INJECT'] = f'remote.py|__setstate__|self._from_remote_parent = False|SLEEP1.0|{os.getpid()}|before'
        os.environ['PYTHONPATH'] = os.path.join(here, 'inject') + os.pathsep + os.environ.get('PYTHONPATH', '')
        server3 = None
        try:
            server3 = spawn_server(('127.0.0.1', 0))
        finally:
            for k, v in old_env.items():
                if v is None:
                    os.environ.pop(k, None)
                else:
                    os.environ[k] = v
        try:
            w = RemoteWorker(T.square, args=(3,), host=server3.addr, run=False)
            s = raw(server3.addr)
            send_msg(s, (None, True))
            send_msg(s, w)
            time.sleep(0.4)             # the server has read the whole request and is held in the handshake
            s.setsockopt(socket.SOL_SOCKET, socket.SO_LINGER, struct.pack('ii', 1, 0))
            s.close()                   # RST
            time.sleep(1.5)
            obs['alive_after_reset_in_handshake'] = server3.is_alive()
            if not server3.is_alive():
                viol.append('server process died after a client that had sent a complete worker request was reset (RST) before the server answered it')
            else:
                ok, why = server_serves(server3.addr)
                obs['serves_after_reset_in_handshake'] = ok
                if not ok:
                    viol.append('a client reset (RST) during the handshake leaves the server unable to serve healthy clients: ' + why)
        finally:
            try:
                server3.terminate(timeout=2, force=True)
            except Exception:
                pass
    if name in ('close_on_none', 'all'):
        # a server that stops when a client SENDS None (close_on_none=True) must not stop because a client hangs up without sending anything
        server2 = spawn_server(('127.0.0.1', 0), close_on_none=True)
        try:
            for what in ('connect and close', 'half a header'):
                s = raw(server2.addr)
                if what == 'half a header':
                    s.sendall(b'\x00\x00')
                s.close()
                time.sleep(0.5)
                if not server2.is_alive():
                    viol.append(f'close_on_none server: a client that hung up ({what}) without sending a request stopped the server')
                    break
            if server2.is_alive():
                ok, why = server_serves(server2.addr)
                obs['close_on_none_serves'] = ok
                if not ok:
                    viol.append('close_on_none server no longer serves healthy clients after faulty ones: ' + why)
        finally:
            try:
                server2.terminate(timeout=2, force=True)
            except Exception:
                pass
    print(json.dumps({'violates': bool(viol), 'violations': viol, 'observed': obs, 'scenario': sc}, default=repr))


if __name__ == '__main__':
    main()
