"""Native replay for C17: restart() of real persistent workers from every state of the quantifier
{never used, results unread, inputs queued, closed, died by exception, killed, uncooperative target} x {thread, process, remote} x with/without a caller pipe."""
import json
import multiprocessing as mp
import os
import queue
import signal
import sys
import threading
import time

import replay_targets as T


def boom(x):
    raise ValueError('boom', x)


def pid_gone(pid):
    try:
        os.kill(pid, 0)
    except ProcessLookupError:
        return True
    except PermissionError:
        return False
    try:
        with open(f'/proc/{pid}/stat') as f:
            return f.read().split(')')[-1].split()[0] == 'Z'
    except OSError:
        return True


def make(kind, target, server, **kw):
    from pyworkers.persistent_thread import PersistentThreadWorker
    from pyworkers.persistent_process import PersistentProcessWorker
    from pyworkers.persistent_remote import PersistentRemoteWorker
    if kind == 'thread':
        return PersistentThreadWorker(target, name='w', userid=('u', 7), **kw)
    if kind == 'process':
        return PersistentProcessWorker(target, name='w', userid=('u', 7), **kw)
    return PersistentRemoteWorker(target, name='w', userid=('u', 7), host=server.addr, **kw)


def prepare(kind, state, server):
    """returns (worker, description of what the old incarnation still holds)"""
    tgt = {'died': T.set_state_and_raise}.get(state, T.square)
    w = make(kind, tgt, server)
    if state == 'unread':
        for i in range(3):
            w.enqueue(100 + i)
        time.sleep(0.4)
    elif state == 'queued':
        w2 = w
        w2.enqueue(100)
    elif state == 'closed':
        w.enqueue(100)
        w.close()
        time.sleep(0.3)
    elif state == 'died':
        w.enqueue(100)
        time.sleep(0.5)
    elif state == 'killed' and kind != 'thread':
        if kind == 'process':
            os.kill(w.pid, signal.SIGKILL)
            time.sleep(0.3)
        else:
            # the remote child lives in the server's process group on this host
            os.kill(w.pid, signal.SIGKILL)
            time.sleep(0.5)
    return w


def check_restarted(tag, w, kind, old_id, old_pid, viol, obs):
    try:
        alive = w.is_alive()
    except Exception as e:     # noqa
        viol.append(f'{tag}: is_alive() after restart raised {type(e).__name__}: {e}')
        return
    if not alive:
        viol.append(f'{tag}: worker is not alive after restart')
        return
    if w.name != 'w' or w.userid != ('u', 7):
        viol.append(f'{tag}: name/userid changed: {w.name!r} {w.userid!r}')
    if kind != 'thread' and w.id == old_id:
        viol.append(f'{tag}: identity did not change: {w.id}')
    if kind == 'process' and old_pid != os.getpid() and not pid_gone(old_pid):
        viol.append(f'{tag}: the old child process {old_pid} is still present after restart')
    try:
        w.enqueue(7)
        r = w.next_result(timeout=5)
        if r != 49:
            viol.append(f'{tag}: first result of the new incarnation is {r!r}, expected 49 (a result of the previous incarnation, or of another target)')
    except Exception as e:     # noqa
        viol.append(f'{tag}: enqueue/next_result after restart raised {type(e).__name__}: {e}')
    try:
        ep = w.results_endpoint
        extra = None
        try:
            if hasattr(ep, 'poll'):          # PipeEndpoint.get ignores its timeout: probe with poll
                if ep.poll(0.3):
                    extra = ep.get()
            else:
                extra = ep.get(block=True, timeout=0.3)
        except queue.Empty:
            pass
        if extra is not None:
            viol.append(f'{tag}: the result stream of the new incarnation holds an unexpected message {extra!r}')
    except Exception as e:     # noqa
        obs.setdefault('stream_probe_errors', []).append(f'{tag}: {type(e).__name__}: {e}')


def main():
    sc = json.loads(sys.argv[1])
    viol, obs = [], {}
    from pyworkers.remote_server import spawn_server
    from pyworkers.utils import Pipe

    def watchdog():
        print(json.dumps({'violates': True, 'violations': viol + ['watchdog: scenario did not finish within 150 s (hang)'], 'observed': obs, 'scenario': sc}, default=repr))
        sys.stdout.flush()
        for c in mp.active_children():
            c.kill()
        os._exit(0)
    tm = threading.Timer(150, watchdog)
    tm.daemon = True
    tm.start()
    server = spawn_server(('127.0.0.1', 0))
    workers = []
    try:
        # constructor options with falsy values survive a restart as they are (userid 0 / '' / (), a False set_names, an init_state of 0 or [])
        from pyworkers.persistent_thread import PersistentThreadWorker
        from pyworkers.persistent_process import PersistentProcessWorker
        for cls in (PersistentThreadWorker, PersistentProcessWorker):
            for uid in (0, '', ()):
                for st in (0, []):
                    w = cls(T.square, name='falsy', userid=uid, set_names=False, init_state=st)
                    workers.append(w)
                    try:
                        w.restart(timeout=3)
                    except Exception as e:     # noqa
                        viol.append(f'{cls.__name__}/falsy options: restart raised {type(e).__name__}: {e}')
                        continue
                    got = (w.userid, getattr(w, '_set_names', None), w.user_state)
                    if w.userid != uid or type(w.userid) is not type(uid) or w._set_names is not False or w.user_state != st or type(w.user_state) is not type(st):
                        viol.append(f'{cls.__name__}: constructor options with falsy values changed across restart(): userid {uid!r} -> {w.userid!r}, '
                                    f'set_names False -> {w._set_names!r}, user_state {st!r} -> {w.user_state!r}')
                    w.terminate(timeout=2)
        # C16 across a restart: the next incarnation starts from the state the old child assigned last - also when restart() had to TERMINATE a busy child
        for cls in (PersistentThreadWorker, PersistentProcessWorker):
            for how in ('idle (waited for)', 'busy (terminated)'):
                w = cls(T.count_then_maybe_sleep, name='state', init_state={'n': 0})
                workers.append(w)
                try:
                    w.enqueue(0)
                    w.enqueue(0)
                    w.next_result(timeout=5)
                    w.next_result(timeout=5)
                    if how.startswith('busy'):
                        w.enqueue(5)          # third call: state becomes 3, then the child is busy for 5 s
                        time.sleep(0.5)
                        w.restart(timeout=0.3)
                        expect = 3
                    else:
                        w.restart(timeout=3)
                        expect = 2
                    got = w.user_state
                    obs[f'{cls.__name__}/state across restart/{how}'] = got
                    if got != {'n': expect}:
                        viol.append(f'{cls.__name__}, old incarnation {how}: after restart() the new incarnation starts from user_state {got!r}, the old child had '
                                    f'last assigned {{\'n\': {expect}}}')
                except Exception as e:     # noqa
                    viol.append(f'{cls.__name__}/state across restart/{how}: {type(e).__name__}: {e}')
                finally:
                    try:
                        w.terminate(timeout=2)
                    except Exception:     # noqa
                        pass
        for kind in sc.get('kinds', ['thread', 'process', 'remote']):
            for state in ('fresh', 'unread', 'queued', 'closed', 'died', 'killed'):
                if state == 'killed' and kind == 'thread':
                    continue
                for with_pipe in (False, True):
                    tag = f'{kind}/{state}/{"pipe" if with_pipe else "nopipe"}'
                    obs['last'] = tag
                    try:
                        w = prepare(kind, state, server)
                    except Exception as e:     # noqa
                        obs.setdefault('prepare_errors', []).append(f'{tag}: {type(e).__name__}: {e}')
                        continue
                    workers.append(w)
                    old_id, old_pid = w.id, w.pid
                    if state == 'died':
                        w._target = T.square      # same object after restart: make the new incarnation answer
                    try:
                        kw = {'results_pipe': Pipe()} if with_pipe else {}
                        w.restart(timeout=3, **kw)
                    except Exception as e:     # noqa
                        viol.append(f'{tag}: restart raised {type(e).__name__}: {e}')
                        continue
                    check_restarted(tag, w, kind, old_id, old_pid, viol, obs)
                    # a second restart in a row
                    if state == 'unread' and not with_pipe:
                        old_id, old_pid = w.id, w.pid
                        try:
                            w.restart(timeout=3)
                            check_restarted(tag + '/second', w, kind, old_id, old_pid, viol, obs)
                        except Exception as e:     # noqa
                            viol.append(f'{tag}: second restart raised {type(e).__name__}: {e}')
        # uncooperative target: restart must raise, and the old incarnation must still be the one the object talks about
        for kind in sc.get('kinds', ['thread', 'process', 'remote']):
            if kind != 'thread':
                continue            # process/remote children can always be force-killed
            w = make(kind, T.swallow_then_square, server)
            workers.append(w)
            w.enqueue(1)
            time.sleep(0.2)
            old_child = w._child
            try:
                w.restart(timeout=0.3)
                viol.append(f'{kind}/uncooperative: restart returned although the old thread is still running: old thread alive={old_child.is_alive()}')
            except RuntimeError:
                if getattr(w, '_child', None) is not old_child:
                    viol.append(f'{kind}/uncooperative: restart raised but dropped the handle to the running child')
            except Exception as e:     # noqa
                viol.append(f'{kind}/uncooperative: restart raised {type(e).__name__}: {e}')
        # remote/process child that survives even the forced kill (ignores SIGTERM): restart must raise, not start a second child
        for kind in sc.get('kinds', ['thread', 'process', 'remote']):
            if kind == 'thread':
                continue
            w = make(kind, T.stubborn, server)
            w.enqueue(1)
            time.sleep(0.5)
            old_pid = w.pid
            try:
                w.restart(timeout=0.5)
                viol.append(f'{kind}/stubborn: restart returned although the old child (pid {old_pid}) could not be stopped: still running={not pid_gone(old_pid)}; a running child was abandoned')
                workers.append(w)
            except RuntimeError:
                pass
            except Exception as e:     # noqa
                viol.append(f'{kind}/stubborn: restart raised {type(e).__name__}: {e}')
            try:
                os.kill(old_pid, signal.SIGKILL)
            except OSError:
                pass
    finally:
        for w in workers:
            try:
                w.terminate(timeout=0.2)
            except Exception:
                pass
        try:
            server.terminate(timeout=2, force=True)
        except Exception:
            pass
    print(json.dumps({'violates': bool(viol), 'violations': viol, 'observed': obs, 'scenario': sc}, default=repr))
    sys.stdout.flush()
    for c in mp.active_children():
        c.kill()
    os._exit(0)


if __name__ == '__main__':
    main()
