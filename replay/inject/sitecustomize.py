"""Replay instrumentation for landing points (no hook in /repo): when PYVC_INJECT is set, every interpreter started with this
directory on PYTHONPATH (spawned worker children included) raises WorkerTerminatedError - or exits abruptly - when the named
source line of the named function is about to execute, exactly once per process.

PYVC_INJECT = "<file suffix>|<function name>|<substring of the source line>|<WTE|KILL|SLEEP<seconds>>[|<skip pid>][|<phase>]"
  SLEEP<seconds>: nothing is raised; the thread that reaches the line sleeps that long there, once per process (imitates the process being descheduled at
  that point, so that a peer's action can be placed in the window)
  phase 'before' (default): the exception is raised when the line is reached, before it executes
  phase 'after':  raised when the NEXT line event of that frame fires (i.e. after the named statement completed)
"""
import os
import sys
import threading

_spec = os.environ.get('PYVC_INJECT')
if _spec:
    _parts = _spec.split('|')
    _file, _func, _sub, _what = _parts[0], _parts[1], _parts[2], _parts[3]
    _skip = int(_parts[4]) if len(_parts) > 4 and _parts[4] else -1
    _phase = _parts[5] if len(_parts) > 5 else 'before'
    _done = [False]
    _armed = {}
    import linecache

    def _fire():
        _done[0] = True
        marker = os.environ.get('PYVC_INJECT_MARK')
        if marker:
            try:
                with open(marker, 'a') as f:
                    f.write(f'{os.getpid()} fired {_spec}\n')
            except OSError:
                pass
        if _what == 'KILL':
            os._exit(137)
        if _what.startswith('SLEEP'):
            import time
            time.sleep(float(_what[5:] or 0.5))
            return
        from pyworkers.worker import WorkerTerminatedError
        raise WorkerTerminatedError()

    def _local(frame, event, arg):
        if _done[0]:
            return None
        if event == 'line':
            if _armed.get(id(frame)):
                _fire()
            line = linecache.getline(frame.f_code.co_filename, frame.f_lineno)
            if _sub in line:
                if _phase == 'after':
                    _armed[id(frame)] = True
                else:
                    _fire()
        return _local

    def _global(frame, event, arg):
        if _done[0] or os.getpid() == _skip:
            return None
        co = frame.f_code
        if co.co_name == _func and co.co_filename.endswith(_file):
            return _local
        return None

    if os.getpid() != _skip:
        threading.settrace(_global)
        sys.settrace(_global)
