"""Native replay for C03.L1-thread: graceful terminate of a thread worker whose child is WAITING FOR INPUT (persistent kind), with the thread that calls
terminate() losing the CPU between the steps of terminate().  Preemption is imitated with a line tracer on the terminate() frame of the calling thread only,
which sleeps before every line of that frame (sleeping releases the GIL, so the child runs exactly as if the OS had descheduled the caller there); nothing
in the library is patched and the child is not traced.  Every schedule of that kind must end in has_error / WorkerTerminatedError - the only other
admissible outcome, the target's own, is impossible here (a persistent worker that was never closed has not finished on its own)."""
import json
import os
import sys
import threading
import time

import replay_targets as T


def preempt_caller(delay):
    def local_tracer(frame, event, arg):
        if event == 'line':
            time.sleep(delay)
        return local_tracer

    def global_tracer(frame, event, arg):
        code = frame.f_code
        if event == 'call' and code.co_name == 'terminate' and code.co_filename.endswith(os.path.join('pyworkers', 'thread.py')):
            return local_tracer
        return None
    return global_tracer


def observe(worker, delay):
    if delay:
        sys.settrace(preempt_caller(delay))
    try:
        try:
            ret = worker.terminate(timeout=3)
        except BaseException as e:     # noqa
            ret = e
    finally:
        sys.settrace(None)
    return {'terminate()': ret, 'is_alive': worker.is_alive(), 'has_error': worker.has_error, 'result': worker.result, 'error': worker.error}


def main():
    sc = json.loads(sys.argv[1])
    viol, obs = [], {}

    def watchdog():
        print(json.dumps({'violates': True, 'violations': viol + ['watchdog: scenario did not finish within 60 s (hang)'], 'observed': obs, 'scenario': sc}, default=repr))
        sys.stdout.flush()
        os._exit(0)
    tm = threading.Timer(60, watchdog)
    tm.daemon = True
    tm.start()
    from pyworkers.persistent_thread import PersistentThreadWorker
    from pyworkers.thread import ThreadWorker
    from pyworkers.worker import WorkerTerminatedError
    cases = [('persistent thread worker idle after one call, caller runs through', lambda: PersistentThreadWorker(T.square), True, 0),
             ('persistent thread worker idle after one call, caller preempted between the steps of terminate()', lambda: PersistentThreadWorker(T.square), True, 0.15),
             ('persistent thread worker idle, never used, caller preempted between the steps of terminate()', lambda: PersistentThreadWorker(T.square), False, 0.15),
             ('thread worker in a cooperative loop, caller preempted between the steps of terminate()', lambda: ThreadWorker(T.cooperative_loop), False, 0.15)]
    for label, mk, use, delay in cases:
        w = mk()
        if use:
            w.enqueue(3)
            w.next_result(timeout=5) if hasattr(w, 'next_result') else None
        time.sleep(0.2)
        o = observe(w, delay)
        obs[label] = {k: repr(v) for k, v in o.items()}
        ok = (o['terminate()'] is True and o['is_alive'] is False and o['has_error'] is True and o['result'] is None and type(o['error']) is WorkerTerminatedError)
        if not ok:
            viol.append(f'{label}: ' + ', '.join(f'{k}={v!r}' for k, v in o.items()) + ' - a graceful terminate of a live worker must end in WorkerTerminatedError')
    print(json.dumps({'violates': bool(viol), 'violations': viol, 'observed': obs, 'scenario': sc}, default=repr))
    sys.stdout.flush()
    os._exit(0)


if __name__ == '__main__':
    main()
