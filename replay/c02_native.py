"""Native replay for C02: every kind against a direct call, incl. falsy / large results, exceptions with arguments, not-run workers, the factory."""
import json
import multiprocessing as mp
import os
import sys
import threading
import time

import replay_targets as T


def direct(fn, args, kwargs):
    try:
        return (False, fn(*args, **kwargs), None)
    except Exception as e:     # noqa
        return (True, None, e)


def same_error(a, b):
    return type(a) is type(b) and a.args == b.args


def main():
    sc = json.loads(sys.argv[1])
    viol, obs = [], {}
    from pyworkers.worker import Worker, WorkerType
    from pyworkers.persistent import PersistentWorker
    from pyworkers.thread import ThreadWorker
    from pyworkers.process import ProcessWorker
    from pyworkers.remote import RemoteWorker
    from pyworkers.remote_server import spawn_server

    def watchdog():
        print(json.dumps({'violates': True, 'violations': viol + ['watchdog: scenario did not finish within 240 s (hang)'], 'observed': obs, 'scenario': sc}, default=repr))
        sys.stdout.flush()
        for c in mp.active_children():
            c.kill()
        os._exit(0)
    tm = threading.Timer(240, watchdog)
    tm.daemon = True
    tm.start()
    want = sc.get('lemma') or ''
    server = spawn_server(('127.0.0.1', 0))
    kinds = {'thread': lambda *a, **k: ThreadWorker(*a, **k), 'process': lambda *a, **k: ProcessWorker(*a, **k),
             'remote': lambda *a, **k: RemoteWorker(*a, host=server.addr, **k)}
    cases = [('none', T.ret, (None,), {}), ('zero', T.ret, (0,), {}), ('empty', T.ret, ('',), {}), ('emptylist', T.ret, ([],), {}),
             ('nested', T.ret, ({'a': [1, (2, 3)], 'b': None},), {}), ('kw', T.add, (2,), {'b': 5}), ('record', T.record, (1, 'x'), {'k': [1]}),
             ('exc_args', T.raise_value_error, (7, 'seven'), {}), ('exc_noargs', T.raise_value_error, (), {}),
             ('big_200k', T.blob, (200 * 1024,), {}), ('big_1m', T.blob, (1 << 20,), {}), ('big_8m', T.blob, (8 << 20,), {}), ('just_under_buffer', T.blob, (60000,), {})]
    if want.startswith('Lf'):
        cases = [c for c in cases if c[0].startswith('big') or c[0].startswith('just')]
    try:
        for cname, fn, args, kwargs in cases:
            d_err, d_res, d_exc = direct(fn, args, kwargs)
            for kname, mk in kinds.items():
                tag = f'{kname}/{cname}'
                obs['last'] = tag
                try:
                    w = mk(fn, args=args, kwargs=kwargs)
                    t0 = time.time()
                    done = w.wait(timeout=8)
                    if not done:
                        viol.append(f'{tag}: wait(8) returned False after {time.time() - t0:.1f} s although a direct call returns at once '
                                    f'(child alive={w.is_alive()}): the outcome is unobtainable without killing the worker')
                        w.terminate(timeout=1)
                        continue
                    he, res, err = w.has_error, w.result, w.error
                    if he is not d_err:
                        viol.append(f'{tag}: has_error={he!r}, direct call gives {d_err!r}')
                    if d_err:
                        if res is not None or not same_error(err, d_exc):
                            viol.append(f'{tag}: result={res!r} error={err!r}, direct call raises {d_exc!r}')
                    else:
                        if res != d_res or type(res) is not type(d_res) or err is not None:
                            viol.append(f'{tag}: result differs from the direct call (type {type(res).__name__}, len {len(res) if hasattr(res, "__len__") else "-"}), error={err!r}')
                except Exception as e:     # noqa
                    viol.append(f'{tag}: {type(e).__name__}: {e}')
        if not want or want.startswith('Ld'):
            for kname, mk in kinds.items():
                for label, kw in (('run=False', dict(run=False)), ('target=None', {})):
                    w = mk(T.ret if 'run' in kw else None, args=(1,), **kw)
                    ok = (not w.is_alive()) and w.wait(0) is True and w.has_error is False and w.result is None and w.error is None
                    if not ok:
                        viol.append(f'{kname}/{label}: alive={w.is_alive()} has_error={w.has_error!r} result={w.result!r} error={w.error!r}')
        if not want or want.startswith('Le'):
            exp = {WorkerType.THREAD: 'ThreadWorker', WorkerType.PROCESS: 'ProcessWorker', WorkerType.REMOTE: 'RemoteWorker'}
            # both flavours of the factory, in both orders, in this one process: what one of them leaves behind must not change what the other builds
            for base, prefix in ((Worker, ''), (PersistentWorker, 'Persistent'), (Worker, ''), (PersistentWorker, 'Persistent')):
                for wt, cn in exp.items():
                    kw = {'host': server.addr} if wt is WorkerType.REMOTE else {}
                    w = base.create(wt, T.ret, args=(3,), **kw)
                    if type(w).__name__ != prefix + cn:
                        viol.append(f'{base.__name__}.create({wt.name}) built a {type(w).__name__} (after the other flavour of the factory had been used in this process)')
                        try:
                            w.terminate(timeout=1)
                        except Exception:     # noqa
                            pass
                        continue
                    if prefix:
                        w.enqueue()
                        r = w.next_result()
                        w.close()
                    w.wait(3)
                    got = r if prefix else w.result
                    if got != 3:
                        viol.append(f'{base.__name__}.create({wt.name}): result {got!r} instead of 3')
    finally:
        try:
            server.terminate(timeout=2, force=True)
        except Exception:
            pass
    print(json.dumps({'violates': bool(viol), 'violations': viol, 'observed': obs, 'scenario': sc}, default=repr))
    sys.stdout.flush()
    for c in mp.active_children():
        c.kill()
    os._exit(0)


if __name__ == '__main__':
    main()
