"""Native replay for C01: workers ending in awkward ways; after death has_error/result/error must be definite, consistent, stable."""
import json
import os
import signal
import sys
import threading
import time

import replay_targets as T


def observe(w, label, viol, obs):
    seen = []
    for i in range(3):
        try:
            seen.append((w.is_alive(), w.has_error, repr(w.result)[:40], type(w.error).__name__))
        except BaseException as e:      # noqa
            seen.append(('RAISED', f'{type(e).__name__}: {e}'[:80]))
    obs[label] = seen
    if any(s[0] == 'RAISED' for s in seen):
        viol.append(f'{label}: an accessor raised after death: {seen}')
        return
    if len(set(seen)) != 1:
        viol.append(f'{label}: the outcome changed between observations: {seen}')
    alive, he, res, err = seen[-1]
    if alive:
        viol.append(f'{label}: still alive')
    elif he is None:
        viol.append(f'{label}: dead worker with has_error None')
    elif he is False and err != 'NoneType':
        viol.append(f'{label}: has_error False but error set')
    elif he is True and res != 'None':
        viol.append(f'{label}: has_error True but result set')


def guarded(fn, watchdog=25):
    res = {}
    t = threading.Thread(target=lambda: res.update(ok=fn()), daemon=True)
    t.start()
    t.join(watchdog)
    return not t.is_alive()


def main():
    sc = json.loads(sys.argv[1])
    from pyworkers.process import ProcessWorker
    from pyworkers.remote import RemoteWorker
    from pyworkers.remote_server import spawn_server
    viol, obs = [], {}

    def proc_badexc():
        w = ProcessWorker(T.raise_needs_args)
        w.wait(10)
        observe(w, 'process: exception class whose constructor needs arguments', viol, obs)
        return True

    def proc_badexc_polled():
        # the same ending, observed through is_alive() polling only (wait() would receive - and handle - the final message itself)
        w = ProcessWorker(T.raise_needs_args)
        t0 = time.time()
        while w.is_alive() and time.time() - t0 < 10:
            time.sleep(0.02)
        observe(w, 'process: exception class whose constructor needs arguments, death observed by polling is_alive()', viol, obs)
        from pyworkers.persistent_process import PersistentProcessWorker
        pw = PersistentProcessWorker(T.raise_needs_args)
        pw.enqueue(1)
        pw.wait(10)
        observe(pw, 'persistent process: exception class whose constructor needs arguments', viol, obs)
        return True

    def proc_killed_midsend():
        w = ProcessWorker(T.big_result)
        time.sleep(1.0)                   # the child is now blocked writing 1 MiB into the 64 KiB pipe
        os.kill(w.pid, signal.SIGKILL)
        w.wait(10)
        observe(w, 'process: SIGKILL while sending a result larger than the pipe buffer', viol, obs)
        return True

    def proc_polled():
        # a history, not an input: wait() polled with timeout 0 while the child - which has already sent its result - is still exiting
        for k in range(5):
            w = ProcessWorker(T.ret, args=(42,))
            n = 0
            t0 = time.time()
            while not w.wait(0) and time.time() - t0 < 10:
                n += 1
            observe(w, f'process: target returned 42, wait(0) polled {n} times until it returned True (run {k})', viol, obs)
            if w.has_error is not False or w.result != 42:
                viol.append(f'process: target returned 42; after {n} unsuccessful wait(0) calls the dead worker reports has_error={w.has_error!r} result={w.result!r} '
                            f'error={w.error!r} - the result it had already delivered is lost')
                break
        return True

    for fn in (proc_badexc, proc_badexc_polled, proc_killed_midsend, proc_polled):
        if not guarded(fn):
            viol.append(f'{fn.__name__}: parent blocked')
    server = spawn_server(('127.0.0.1', 0))
    try:
        def rem_kbint():
            w = RemoteWorker(T.raise_keyboard_interrupt, host=server.addr)
            w.wait(10)
            observe(w, 'remote: target raising KeyboardInterrupt', viol, obs)
            return True

        def rem_badexc():
            w = RemoteWorker(T.raise_needs_args, host=server.addr)
            w.wait(10)
            time.sleep(0.3)
            observe(w, 'remote: exception class whose constructor needs arguments', viol, obs)
            return True
        def rem_badstate():
            w = RemoteWorker(T.return_with_unrebuildable_state, args=(7,), host=server.addr)
            w.wait(10)
            time.sleep(0.5)
            observe(w, 'remote: work returned normally, its user_state cannot be rebuilt on the parent side', viol, obs)
            return True
        for fn in (rem_kbint, rem_badexc, rem_badstate):
            if not guarded(fn):
                viol.append(f'{fn.__name__}: parent blocked')
    finally:
        try:
            server.terminate(timeout=2, force=True)
        except Exception:
            pass
    print(json.dumps({'violates': bool(viol), 'violations': viol, 'observed': obs, 'scenario': sc}, default=repr))
    sys.stdout.flush()
    os._exit(0)


if __name__ == '__main__':
    main()
