"""Importable targets for native replays (spawned children must be able to import them)."""


def record(*a, **k):
    return ('called', tuple(a), tuple(sorted(k.items())))


def square(x):
    return x * x


def add(a, b=0):
    return a + b


def _me():
    import pyworkers.worker as w
    import gc
    # the worker object running this target in the child: the one whose is_child is True
    for o in gc.get_objects():
        try:
            if isinstance(o, w.Worker) and o._started and o.is_child:
                return o
        except Exception:
            continue
    return None


def set_state_and_return(x):
    me = _me()
    me.user_state = ('child', x)
    return x + 1


def set_states(values, then='return'):
    """assigns the given values to user_state one after the other, then returns / raises"""
    me = _me()
    for v in values:
        me.user_state = v
    if then == 'raise':
        raise ValueError('boom')
    if then == 'raise_unreceivable':
        raise NeedsArgs(1, 2)      # pickles in the child, cannot be rebuilt by the parent
    if then == 'return_none':
        return None
    if then == 'return_false':
        return False
    return len(values)


def update_state_in_place(n, then='return'):
    """updates a mutable user_state IN PLACE n times (take it, change it, assign the same object back), then returns / raises"""
    me = _me()
    for i in range(n):
        s = me.user_state
        s['count'] += 1
        s['log'].append(i)
        me.user_state = s
    if then == 'raise':
        raise ValueError('boom')
    return n


def count_then_maybe_sleep(seconds=0):
    """persistent target: increments user_state['n'] on every call, then sleeps (cooperatively) for `seconds`"""
    import time
    me = _me()
    s = dict(me.user_state or {'n': 0})
    s['n'] = s.get('n', 0) + 1
    me.user_state = s
    t0 = time.time()
    while time.time() - t0 < seconds:
        time.sleep(0.01)
    return s['n']


def set_state_and_raise(x):
    me = _me()
    me.user_state = ('child', x)
    raise ValueError('boom', x)


def cooperative_loop():
    import time
    while True:
        time.sleep(0.01)


def swallowing_loop():
    import time
    while True:
        try:
            while True:
                time.sleep(0.01)
        except Exception:
            pass


def mutating(lst, x=0, acc=None):
    """appends x to both its positional default list and its keyword default list (in place) and returns them"""
    lst.append(x)
    acc.append(x)
    return (list(lst), list(acc))


def _die_at_once():
    import os
    os._exit(17)


class KillsItsLoader:
    """an argument whose unpickling ends the process that unpickles it: the spawned child of a process worker dies while it is still starting up,
    before it could report its identity"""
    def __reduce__(self):
        return (_die_at_once, ())


def square_or_die(x):
    """x*x, but a negative input ends the worker (the target raises)"""
    if x < 0:
        raise ValueError('negative input')
    return x * x


def slow_square(x):
    import time
    time.sleep(0.15)
    return x * x


def labels_of(items=()):
    """works on objects of a class this module does not know (defined by the caller's main script)"""
    return [(i.label, len(i.values)) for i in items]


def call(fn, *a, **k):
    """calls a function this module does not know (defined by the caller's main script)"""
    return fn(*a, **k)


class NeedsArgs(Exception):
    """an exception class that cannot be rebuilt from its args on the receiving side"""
    def __init__(self, a, b):
        super().__init__(f'{a}-{b}')
        self.a, self.b = a, b


def raise_needs_args(*_a):
    raise NeedsArgs(1, 2)


def return_with_unrebuildable_state(x):
    """returns normally; its last user_state pickles in the child and cannot be rebuilt on the parent side"""
    me = _me()
    me.user_state = {'last_error': NeedsArgs(1, 2)}
    return x * x


def big_result(*_a):
    return b'x' * (1 << 20)


def raise_keyboard_interrupt(*_a):
    raise KeyboardInterrupt()


def swallow_then_square(x):
    """a target that never returns and swallows every Exception (uncooperative)"""
    import time
    while True:
        try:
            while True:
                time.sleep(0.01)
        except Exception:
            pass


def swallow_in_long_sleep(*_a):
    """never returns, swallows every Exception around ONE long blocking call; does not touch SIGTERM (so force=True must end it)"""
    import time
    while True:
        try:
            time.sleep(3600)
        except Exception:
            pass


def sleep_for(s):
    import time
    time.sleep(s)
    return s


def stubborn(x):
    """never returns, swallows every Exception AND ignores SIGTERM: cannot be stopped short of SIGKILL"""
    import signal
    import time
    try:
        signal.signal(signal.SIGTERM, signal.SIG_IGN)
    except ValueError:
        pass                      # not the main thread
    while True:
        try:
            while True:
                time.sleep(0.01)
        except Exception:
            pass


def ret(x=None):
    return x


def blob(n):
    return b'x' * n


def raise_value_error(*a):
    raise ValueError(*a)


def linger_then_raise(x):
    """for x == 0: leaves a non-daemon helper thread behind (the process cannot exit on its own) and raises; else x*x"""
    import threading
    import time
    if x == 0:
        threading.Thread(target=time.sleep, args=(60,)).start()
        raise ValueError('poison')
    return x * x


def return_then_linger(seconds):
    """returns 42 at once but leaves a non-daemon helper thread behind: the process reports its result and exits only `seconds` later"""
    import threading
    import time
    threading.Thread(target=time.sleep, args=(seconds,)).start()
    return 42
