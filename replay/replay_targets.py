"""Importable targets for native replays (spawned children must be able to import them)."""


def record(*a, **k):
    return ('called', tuple(a), tuple(sorted(k.items())))


def square(x):
    return x * x


def add(a, b=0):
    return a + b
