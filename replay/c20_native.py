"""Native replay for C20: RemoteWorker construction against servers that fail during the handshake.
The constructor must return a worker or raise within the watchdog; it must not hang."""
import json
import socket
import sys
import threading
import time

from pyworkers.remote import RemoteWorker, send_msg, recv_msg
from pyworkers.remote_server import spawn_server

import replay_targets as T


def construct(addr, context=None, watchdog=6):
    res = {}

    def body():
        try:
            w = RemoteWorker(T.square, args=(3,), host=addr, context=context)
            res['worker'] = repr(w.id)
            res['same_pid_as_parent'] = (w.pid == __import__('os').getpid())
            try:
                w.terminate(timeout=1)
            except Exception:
                pass
        except BaseException as e:      # noqa
            res['raised'] = f'{type(e).__name__}: {e}'
    t = threading.Thread(target=body, daemon=True)
    t.start()
    t.join(watchdog)
    res['hung'] = t.is_alive()
    return res


def fake_server(step):
    """accepts one client and fails at the given step of the server-to-client handshake"""
    ls = socket.socket(socket.AF_INET, socket.SOCK_STREAM)
    ls.bind(('127.0.0.1', 0))
    ls.listen()
    addr = ls.getsockname()

    def run():
        try:
            cli, _ = ls.accept()
            cli.settimeout(3)
            if step == 'close_after_accept':
                cli.close()
                return
            try:
                cli.recv(1 << 16)
            except Exception:
                pass
            if step == 'close_before_ctrl_addr':
                cli.close()
                return
            ctrl = socket.socket(socket.AF_INET, socket.SOCK_STREAM)
            ctrl.bind(('127.0.0.1', 0))
            if step == 'ctrl_refused':
                a = ctrl.getsockname()
                ctrl.close()
                send_msg(cli, a)
                time.sleep(2)
                cli.close()
                return
            ctrl.listen()
            send_msg(cli, ctrl.getsockname())
            c2, _ = ctrl.accept()
            if step == 'close_before_runtime_info':
                c2.close()
                time.sleep(1)
                cli.close()
                return
        except Exception:
            pass
    threading.Thread(target=run, daemon=True).start()
    return addr


def main():
    sc = json.loads(sys.argv[1])
    viol = []
    obs = {}
    for step in ('close_after_accept', 'close_before_ctrl_addr', 'ctrl_refused', 'close_before_runtime_info'):
        r = construct(fake_server(step))
        obs[step] = r
        if r['hung']:
            viol.append(f'server failing at step {step}: the RemoteWorker constructor is still blocked after 6 s')
        elif 'worker' in r and r.get('same_pid_as_parent'):
            viol.append(f'server failing at step {step}: constructor returned a worker whose id is the parent\'s own identity {r["worker"]}')
    # process kind: the child dies during start-up (while unpickling its arguments), before reporting its identity
    from pyworkers.process import ProcessWorker
    res = {}

    def body():
        try:
            w = ProcessWorker(T.square, args=(T.KillsItsLoader(),))
            res['worker'] = f'alive={w.is_alive()}'
            try:
                w.terminate(timeout=1)
            except Exception:
                pass
        except BaseException as e:      # noqa
            res['raised'] = f'{type(e).__name__}: {e}'
    t = threading.Thread(target=body, daemon=True)
    t.start()
    t.join(15)
    res['hung'] = t.is_alive()
    obs['process_child_dies_in_startup'] = res
    if res['hung']:
        viol.append('process worker whose child dies during start-up (before reporting its identity): the constructor is still blocked after 15 s - neither returned nor raised')
        import multiprocessing as mp
        for c in mp.active_children():
            c.kill()
    server = spawn_server(('127.0.0.1', 0))
    try:
        r = construct(server.addr, context=12345)
        obs['unknown_context'] = r
        if r['hung']:
            viol.append('unknown context id: the RemoteWorker constructor is still blocked after 6 s')
        elif 'worker' in r and r.get('same_pid_as_parent'):
            viol.append('unknown context id: constructor returned a worker that was never started')
    finally:
        try:
            server.terminate(timeout=2, force=True)
        except Exception:
            pass
    print(json.dumps({'violates': bool(viol), 'violations': viol, 'observed': obs, 'scenario': sc}, default=repr))
    sys.stdout.flush()
    import os
    os._exit(0)


if __name__ == '__main__':
    main()
