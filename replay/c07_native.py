"""Native replay for C07/C08 on the real Pool with real persistent thread workers.
scenario: {"name": "late_result"|"refuse_livelock"|"refuse_poolerror"|"plain", "extra": int, "retry": bool}
Expected by the property: Pool.run returns exactly one genuine result per input (retry on) or raises PoolError;
never another exception, never blocks for ever; PoolError only when no worker is left."""
import json
import os
import sys
import threading
import time

from pyworkers.pool import Pool, PoolError
from pyworkers.persistent_thread import PersistentThreadWorker


class QuitAfter(PersistentThreadWorker):
    """a worker that ends its own loop after `quit_after` inputs (child-side close(), as a dying worker would)"""
    quit_after = {}

    def run(self, *a, **k):
        r = super().run(*a, **k)
        n = QuitAfter.quit_after.get(self.userid)
        self._n = getattr(self, '_n', 0) + 1
        if n is not None and self._n >= n:
            self.close()
        return r


def sq(x):
    return x * x


def die_on_7(x):
    if x == 7:
        raise RuntimeError('poison')
    return x * x


def by_uid(uid, x):
    # a worker-specific failure: the worker with userid 0 dies on whatever it is given
    if uid == 0:
        raise RuntimeError('worker 0 always fails')
    time.sleep(0.01)
    return x * x


def kill_self_once(x, marker=None):
    """input 2 kills the process that works on it, the first time only (SIGKILL: bare EOF on the results pipe, no end marker)"""
    import signal
    if x == 2:
        try:
            fd = os.open(marker, os.O_CREAT | os.O_EXCL | os.O_WRONLY)
        except FileExistsError:
            pass
        else:
            os.close(fd)
            os.kill(os.getpid(), signal.SIGKILL)
    if x:
        time.sleep(0.2)
    return x * x


def scenario(sc):
    name = sc.get('name', 'late_result')
    out = {'scenario': sc}
    res = {}

    def body():
        try:
            if name == 'late_result':
                QuitAfter.quit_after = {0: 2}
                with Pool(sq, retry=sc.get('retry', True)) as p:
                    p.add_worker(QuitAfter, userid=0)
                    p.add_worker(QuitAfter, userid=1)
                    cb = lambda w, ev, *r: time.sleep(0.15) if ev == 'enqueued' else None
                    res['ret'] = p.run(iter(range(6)), worker_callback=cb, worker_extra_pending_inputs=sc.get('extra', 1))
                    res['expect'] = sorted(x * x for x in range(6))
            elif name == 'refuse_livelock':
                calls = [0]
                with Pool(die_on_7) as p:
                    w0 = p.add_worker(PersistentThreadWorker, userid=0)
                    w1 = p.add_worker(PersistentThreadWorker, userid=1)

                    def enq(w, x):
                        calls[0] += 1
                        if w is w1 and x == 7:
                            return False
                        w.enqueue(x)
                        return True
                    res['calls'] = calls
                    res['ret'] = p.run(iter([7]), enqueue_fn=enq)
            elif name == 'refuse_poolerror':
                with Pool(sq) as p:
                    ws = [p.add_worker(PersistentThreadWorker, userid=i) for i in range(2)]

                    def enq(w, x):
                        if (x % 2) != (w.userid % 2):
                            return False
                        w.enqueue(x)
                        return True
                    try:
                        res['ret'] = p.run(iter([2, 1]), enqueue_fn=enq)
                    except PoolError as e:
                        res['poolerror'] = True
                        res['partial'] = e.partial_results
                        res['alive_at_poolerror'] = [w.is_alive() for w in ws]
            elif name == 'refuse_orphan':
                # one worker, the user function refuses one (worker, input) pair: nothing is pending any more while a
                # retry is left; the property allows PoolError here, not blocking
                with Pool(sq) as p:
                    w0 = p.add_worker(PersistentThreadWorker, userid=0)

                    def enq(w, x):
                        if x == 2:
                            return False
                        w.enqueue(x)
                        return True
                    res['ret'] = p.run(iter(range(4)), enqueue_fn=enq)
            elif name == 'enqueue_raises_once':
                # the user's enqueue function fails transiently for one input while the worker stays alive: the input must still be processed
                failed = []
                with Pool(sq) as p:
                    for i in range(2):
                        p.add_worker(PersistentThreadWorker, userid=i)

                    def enq(w, x):
                        if x == 3 and not failed:
                            failed.append(x)
                            raise OSError('transient failure while enqueueing 3')
                        w.enqueue(x)
                        return True
                    res['ret'] = p.run(iter(range(6)), enqueue_fn=enq, worker_extra_pending_inputs=sc.get('extra', 0))
                    res['expect'] = sorted(x * x for x in range(6))
            elif name == 'dead_first_worker':
                # the first worker in pool order died before run() without the pool having noticed: the live ones must do the work
                with Pool(sq, retry=sc.get('retry', True)) as p:
                    ws = [p.add_worker(PersistentThreadWorker, userid=i) for i in range(3)]
                    ws[0].terminate()
                    try:
                        res['ret'] = p.run(iter(range(6)))
                        res['expect'] = sorted(x * x for x in range(6))
                    except PoolError as e:
                        res['poolerror'] = True
                        res['partial'] = e.partial_results
                        res['alive_at_poolerror'] = [w.is_alive() for w in ws]
            elif name == 'death_restart_death':
                # ids of workers that died in an earlier run stay in Pool._closed across restart_workers(): they are not workers of the new generation.
                # run 1: worker 0 dies, worker 1 finishes; restart_workers(); run 2: worker 0 dies again, worker 1 must finish again - no PoolError
                with Pool(by_uid, retry=True) as p:
                    ws = [p.add_worker(PersistentThreadWorker, userid=i) for i in range(2)]

                    def enq(w, x):
                        w.enqueue(w.userid, x)
                        return True
                    r1 = p.run(iter(range(6)), enqueue_fn=enq)
                    p.restart_workers()
                    try:
                        res['ret'] = (r1 or []) + (p.run(iter(range(6, 12)), enqueue_fn=enq) or [])
                        res['expect'] = sorted(x * x for x in range(12))
                    except PoolError as e:
                        res['poolerror'] = True
                        res['partial'] = e.partial_results
                        res['alive_at_poolerror'] = [w.is_alive() for w in ws]
            elif name == 'sigkill_owning_input':
                # a process worker with one extra pending input delivers a result and is then SIGKILLed while it still owns an input; a slow callback
                # makes the pool try to refill it (and find it dead while enqueueing) before it has read the EOF from its pipe
                import tempfile
                from pyworkers.worker import WorkerType
                marker = os.path.join(tempfile.mkdtemp(prefix='c07kill'), 'killed-once')
                seen = []

                def cb(worker, event, *rest):
                    seen.append((worker.userid, event))
                    if event == 'finished' and worker.userid == 0 and seen.count((0, 'finished')) == 1:
                        deadline = time.monotonic() + 10
                        while worker.is_alive() and time.monotonic() < deadline:
                            time.sleep(0.01)
                p = Pool(kill_self_once, kwargs={'marker': marker})
                try:
                    for i in range(2):
                        p.add_worker(WorkerType.PROCESS, userid=i)
                    res['ret'] = p.run(iter(range(8)), worker_callback=cb, worker_extra_pending_inputs=1)
                    res['expect'] = sorted(x * x for x in range(8))
                finally:
                    threading.Thread(target=lambda: p.terminate(timeout=2, force=True), daemon=True).start()
                    time.sleep(0.5)
            elif name == 'dead_before_run_noretry':
                handed = []
                with Pool(sq, retry=False) as p:
                    ws = [p.add_worker(PersistentThreadWorker, userid=i) for i in range(3)]
                    ws[0].terminate()

                    def enq(w, x):
                        handed.append((w.userid, x))
                        w.enqueue(x)
                        return True
                    res['ret'] = p.run(iter(range(12)), enqueue_fn=enq, worker_extra_pending_inputs=sc.get('extra', 1))
                    got = set(int(r ** 0.5) for r in res['ret'])
                    missing = [x for x in range(12) if x not in got]
                    res['missing'] = missing
                    res['never_handed'] = [x for x in missing if not any(h[1] == x for h in handed)]
            else:
                with Pool(sq) as p:
                    for i in range(2):
                        p.add_worker(PersistentThreadWorker, userid=i)
                    res['ret'] = p.run(iter(range(8)), worker_extra_pending_inputs=sc.get('extra', 0))
                    res['expect'] = sorted(x * x for x in range(8))
        except PoolError as e:
            res['poolerror'] = True
            res['partial'] = e.partial_results
        except BaseException as e:   # noqa
            res['exception'] = f'{type(e).__name__}: {e}'
    t = threading.Thread(target=body, daemon=True)
    t.start()
    wd = sc.get('watchdog', 25 if name == 'sigkill_owning_input' else 8)
    t.join(wd)
    viol = []
    if t.is_alive():
        viol.append(f'Pool.run still running after {wd} s' + (f' ({res.get("calls", [0])[0]} enqueue_fn calls)' if 'calls' in res else ''))
    if 'exception' in res:
        viol.append('internal error escaped Pool.run: ' + res['exception'])
    if 'ret' in res and 'expect' in res and sorted(res['ret'] or []) != res['expect']:
        viol.append(f"results {sorted(res['ret'] or [])} != one per input {res['expect']}")
    if res.get('never_handed'):
        viol.append(f"retry off: inputs {res['never_handed']} are missing from the result although they were never handed to any worker")
    if sc.get('check_poolerror', name in ('refuse_poolerror', 'dead_first_worker', 'death_restart_death')) and res.get('poolerror') and any(res.get('alive_at_poolerror', [])):
        viol.append(f"PoolError raised while workers are alive: {res.get('alive_at_poolerror')}, partial {res.get('partial')}")
    out.update(violates=bool(viol), violations=viol, observed={k: v for k, v in res.items() if k != 'calls'})
    return out


def main():
    sc = json.loads(sys.argv[1])
    names = [sc['name']] if sc.get('name') else ['late_result', 'refuse_livelock', 'refuse_orphan', 'dead_before_run_noretry', 'dead_first_worker', 'death_restart_death', 'sigkill_owning_input', 'enqueue_raises_once', 'plain']
    outs = []
    for n in names:
        o = scenario(dict(sc, name=n))
        outs.append(o)
        if o['violates']:
            break
    last = outs[-1]
    last['tried'] = [o['scenario']['name'] for o in outs]
    print(json.dumps(last, default=repr))
    sys.stdout.flush()
    os._exit(0)


if __name__ == '__main__':
    main()
