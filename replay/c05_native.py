"""Native replay for C05 on real persistent workers.
scenario: {"kind": "thread"|"process"|"remote", "args_kind": "list"|"tuple", "seed": int}
Checks, against direct calls of the target: one result per enqueue, in order, merged arguments, pristine defaults,
final result == number of enqueues == number of delivered results, enqueue after close raises WorkerClosedError,
call(x) returns the target's value."""
import json
import queue
import sys
import threading
import time

import replay_targets as T


def make(kind, target, args, kwargs, server_addr=None):
    if kind == 'thread':
        from pyworkers.persistent_thread import PersistentThreadWorker as W
        return W(target, args=args, kwargs=kwargs)
    if kind == 'process':
        from pyworkers.persistent_process import PersistentProcessWorker as W
        return W(target, args=args, kwargs=kwargs)
    from pyworkers.persistent_remote import PersistentRemoteWorker as W
    return W(target, args=args, kwargs=kwargs, host=server_addr)


def expected(defaults, dkw, a, k):
    d = list(defaults)
    d[0:len(a)] = a
    kw = dict(dkw)
    kw.update(k)
    return T.record(*d, **kw)


def run(sc):
    from pyworkers.persistent import WorkerClosedError
    kind = sc.get('kind', 'thread')
    defaults = [10, 20] if sc.get('args_kind', 'list') == 'list' else (10, 20)
    dkw = {'k': 1}
    inputs = [((1,), {}), ((), {'k': 5}), ((1, 2), {}), ((1, 2, 3), {'z': 9}), ((), {})]
    server = None
    addr = None
    viol = []
    obs = {}
    if kind == 'remote':
        from pyworkers.remote_server import spawn_server
        server = spawn_server(('127.0.0.1', 0))
        addr = server.addr
    w = None
    try:
        # enqueue, close() and read WITHOUT waiting for the end: the child is still working, its results and its end marker are still to come
        w0 = make(kind, T.slow_square, [0], {}, addr)
        try:
            for x in (1, 2, 0, 5):
                w0.enqueue(x)
            w0.close()
            early = list(w0.results_iter())
            obs['read_after_close'] = early
            if early != [1, 4, 0, 25]:
                viol.append(f'enqueue 1, 2, 0, 5; close(); list(results_iter()) while the child is still working delivered {early!r} instead of [1, 4, 0, 25]: '
                            f'the stream was reported as ended before its end marker')
        finally:
            try:
                w0.terminate(timeout=1)
            except Exception:
                pass
        # "whatever the values are": results that are None / falsy are results like any other - the stream ends at its end marker only
        wn = make(kind, T.ret, [0], {}, addr)
        try:
            vals = [3, None, 0, None, 7]
            for x in vals:
                wn.enqueue(x)
            wn.close()
            res = {}

            def read_all(res=res):
                try:
                    res['got'] = list(wn.results_iter())
                except BaseException as e:     # noqa
                    res['exc'] = f'{type(e).__name__}: {e}'
            th = threading.Thread(target=read_all, daemon=True)
            th.start()
            th.join(20)
            obs['none_results'] = res.get('got', res.get('exc', 'blocked'))
            if res.get('got') != vals:
                viol.append(f'enqueue {vals!r}; close(); list(results_iter()) delivered {obs["none_results"]!r}: results that are None (or falsy) must be yielded like any '
                            f'other and must not end the iteration')
            wn2 = make(kind, T.ret, [0], {}, addr)
            try:
                for x in vals:
                    wn2.enqueue(x)
                got2 = list(wn2.results_iter(maxitems=3))
                if got2 != vals[:3]:
                    viol.append(f'enqueue {vals!r}; list(results_iter(maxitems=3)) delivered {got2!r} instead of {vals[:3]!r}')
            finally:
                try:
                    wn2.terminate(timeout=1)
                except Exception:
                    pass
        finally:
            try:
                wn.terminate(timeout=1)
            except Exception:
                pass
        # a worker that died ON ITS OWN (its target raised) was never closed by anybody: enqueue / call on it must still raise WorkerClosedError
        wd = make(kind, T.square_or_die, [0], {}, addr)
        try:
            wd.enqueue(-1)
            t0 = time.time()
            while wd.is_alive() and time.time() - t0 < 10:
                time.sleep(0.05)
            obs['died_on_its_own'] = not wd.is_alive()
            for what, op in (('enqueue(10)', lambda: wd.enqueue(10)), ('call(10)', lambda: wd.call(10))):
                res = {}

                def attempt(op=op, res=res):
                    try:
                        res['value'] = op()
                    except WorkerClosedError:
                        res['closed'] = True
                    except BaseException as e:     # noqa
                        res['other'] = f'{type(e).__name__}: {e}'
                th = threading.Thread(target=attempt, daemon=True)
                th.start()
                th.join(8)
                if th.is_alive():
                    viol.append(f'{what} on a worker whose target had raised (dead, never closed) is still blocked after 8 s instead of raising WorkerClosedError')
                elif not res.get('closed'):
                    viol.append(f'{what} on a worker whose target had raised (dead, never closed) did not raise WorkerClosedError: ' +
                                (f'raised {res["other"]}' if 'other' in res else f'returned {res.get("value")!r} (the input is accepted and never processed)'))
        finally:
            try:
                wd.terminate(timeout=1)
            except Exception:
                pass
        w = make(kind, T.record, defaults, dkw, addr)
        got = []
        for a, k in inputs:
            w.enqueue(*a, **k)
        deadline = time.time() + 20
        while len(got) < len(inputs) and time.time() < deadline:
            try:
                got.append(w.next_result(timeout=5) if kind != 'process' else w.next_result())
            except queue.Empty:
                break
        exp = [expected(defaults, dkw, a, k) for a, k in inputs]
        obs['got'] = got
        obs['expected'] = exp
        if got != exp:
            viol.append(f'results differ from direct calls: got {got!r}, expected {exp!r}')
        # pristine defaults: a target that mutates its (mutable) default arguments in place must not be visible to later calls
        w2 = make(kind, T.mutating, [[]], {'acc': []}, addr)
        try:
            outs = []
            for x in (1, 2, 3):
                w2.enqueue(x=x)
            for _ in range(3):
                try:
                    outs.append(w2.next_result(timeout=5) if kind != 'process' else w2.next_result())
                except queue.Empty:
                    break
            obs['mutating'] = outs
            if outs != [([1], [1]), ([2], [2]), ([3], [3])]:
                viol.append(f'calls do not see pristine defaults: a target appending x to its default list/kwarg returned {outs!r}')
        finally:
            try:
                w2.terminate(timeout=1)
            except Exception:
                pass
        # call() with no outstanding results
        if w.is_alive():
            c = w.call(7)
            if c != expected(defaults, dkw, (7,), {}):
                viol.append(f'call(7) returned {c!r}')
            n_expected = len(inputs) + 1
        else:
            viol.append(f'worker died: error={w.error!r}')
            n_expected = None
        w.close()
        try:
            w.enqueue(1)
            viol.append('enqueue after close() did not raise WorkerClosedError')
        except WorkerClosedError:
            pass
        ok = w.wait(10)
        obs['wait'] = ok
        obs['result'] = w.result
        obs['has_error'] = w.has_error
        if n_expected is not None and w.result != n_expected:
            viol.append(f'result after wait() is {w.result!r}, expected {n_expected}')
        try:
            w.next_result()
            viol.append('stream did not end after wait()')
        except queue.Empty:
            pass
    except Exception as e:      # noqa
        viol.append(f'unexpected {type(e).__name__}: {e}')
    finally:
        if w is not None:
            try:
                w.terminate(timeout=1)
            except Exception:
                pass
        if server is not None:
            server.terminate(timeout=2, force=True)
    return {'violates': bool(viol), 'violations': viol, 'observed': obs, 'scenario': sc}


def main():
    sc = json.loads(sys.argv[1])
    res = {}
    t = threading.Thread(target=lambda: res.update(run(sc)), daemon=True)
    t.start()
    t.join(60)
    if t.is_alive():
        res = {'violates': True, 'violations': ['scenario still running after 60 s (hang)'], 'scenario': sc}
    print(json.dumps(res, default=repr))
    sys.stdout.flush()
    import os
    os._exit(0)


if __name__ == '__main__':
    main()
