"""Native replay for C12: stop a real server (terminate with a short timeout so that the graceful path is overtaken by SIGTERM,
then plain SIGTERM) with children in mixed states; every child process must be gone and every parent-side worker dead."""
import json
import os
import signal
import sys
import threading
import time

from pyworkers.remote import RemoteWorker
from pyworkers.remote_server import spawn_server

import replay_targets as T


def pid_exists(pid):
    try:
        os.kill(pid, 0)
    except ProcessLookupError:
        return False
    except PermissionError:
        return True
    # zombie children of other processes still "exist": check state
    try:
        with open(f'/proc/{pid}/stat') as f:
            return f.read().split(')')[-1].split()[0] != 'Z'
    except OSError:
        return False


def scenario(kind):
    viol = []
    obs = {}
    server = spawn_server(('127.0.0.1', 0))
    ws = []
    try:
        ws.append(RemoteWorker(T.swallowing_loop, host=server.addr))
        ws.append(RemoteWorker(T.cooperative_loop, host=server.addr))
        time.sleep(0.5)
        pids = [w.pid for w in ws]
        if kind == 'terminate_short':
            server.terminate(timeout=0.3, force=True)
        else:
            os.kill(server.pid, signal.SIGTERM)
        time.sleep(4)
        obs['pids_left'] = [p for p in pids if pid_exists(p)]
        if obs['pids_left']:
            viol.append(f'{kind}: child processes {obs["pids_left"]} still exist 4 s after the server was stopped')
        for i, w in enumerate(ws):
            res = {}
            t = threading.Thread(target=lambda: res.update(dead=w.wait(2)), daemon=True)
            t.start()
            t.join(6)
            if t.is_alive():
                viol.append(f'{kind}: parent-side wait() of worker {i} blocks')
            elif not res.get('dead'):
                viol.append(f'{kind}: parent-side worker {i} still considered alive')
            elif w.has_error is not True:
                viol.append(f'{kind}: worker {i} has_error is {w.has_error!r}')
    finally:
        for p in [w.pid for w in ws] + [server.pid]:
            try:
                os.kill(p, signal.SIGKILL)
            except Exception:
                pass
    return viol, obs


def main():
    sc = json.loads(sys.argv[1])
    viol, obs = [], {}
    for kind in ('terminate_short', 'sigterm'):
        v, o = scenario(kind)
        viol += v
        obs[kind] = o
    print(json.dumps({'violates': bool(viol), 'violations': viol, 'observed': obs, 'scenario': sc}, default=repr))
    sys.stdout.flush()
    os._exit(0)


if __name__ == '__main__':
    main()
