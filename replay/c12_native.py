"""Native replay for C12: stop a real server (terminate with a short timeout so that the graceful path is overtaken by SIGTERM,
then plain SIGTERM) with children in mixed states; every child process must be gone and every parent-side worker dead."""
import json
import os
import signal
import sys
import threading
import time

from pyworkers.remote import RemoteWorker
from pyworkers.remote_server import spawn_server

import replay_targets as T


def pid_exists(pid):
    try:
        os.kill(pid, 0)
    except ProcessLookupError:
        return False
    except PermissionError:
        return True
    # zombie children of other processes still "exist": check state
    try:
        with open(f'/proc/{pid}/stat') as f:
            return f.read().split(')')[-1].split()[0] != 'Z'
    except OSError:
        return False


def scenario(kind):
    viol = []
    obs = {}
    server = spawn_server(('127.0.0.1', 0))
    ws = []
    try:
        ws.append(RemoteWorker(T.swallowing_loop, host=server.addr))
        ws.append(RemoteWorker(T.cooperative_loop, host=server.addr))
        time.sleep(0.5)
        pids = [w.pid for w in ws]
        if kind == 'terminate_short':
            server.terminate(timeout=0.3, force=True)
        else:
            os.kill(server.pid, signal.SIGTERM)
        time.sleep(4)
        obs['pids_left'] = [p for p in pids if pid_exists(p)]
        if obs['pids_left']:
            viol.append(f'{kind}: child processes {obs["pids_left"]} still exist 4 s after the server was stopped')
        for i, w in enumerate(ws):
            res = {}
            t = threading.Thread(target=lambda: res.update(dead=w.wait(2)), daemon=True)
            t.start()
            t.join(6)
            if t.is_alive():
                viol.append(f'{kind}: parent-side wait() of worker {i} blocks')
            elif not res.get('dead'):
                viol.append(f'{kind}: parent-side worker {i} still considered alive')
            elif w.has_error is not True:
                viol.append(f'{kind}: worker {i} has_error is {w.has_error!r}')
    finally:
        for p in [w.pid for w in ws] + [server.pid]:
            try:
                os.kill(p, signal.SIGKILL)
            except Exception:
                pass
    return viol, obs


def _stat(pid):
    try:
        with open(f'/proc/{pid}/stat') as f:
            data = f.read()
    except OSError:
        return None
    rest = data[data.rindex(')') + 2:].split()
    return {'state': rest[0], 'ppid': int(rest[1]), 'start': rest[19]}


def descendants(root):
    table = {}
    for name in os.listdir('/proc'):
        if name.isdigit():
            st = _stat(int(name))
            if st is not None:
                table[int(name)] = st
    found, frontier = {}, [root]
    while frontier:
        cur = frontier.pop()
        for pid, st in table.items():
            if st['ppid'] == cur and pid not in found:
                found[pid] = st['start']
                frontier.append(pid)
    return found


def survivors(procs):
    out = []
    for pid, start in procs.items():
        st = _stat(pid)
        if st is not None and st['start'] == start and st['state'] not in 'ZX':
            out.append(pid)
    return sorted(out)


def context_scenario():
    """SIGTERM to a server that holds a context with two persistent workers (one idle from the start, one idle after work) and a plain
    child: every descendant of the server must be gone shortly afterwards and every parent-side worker must find out"""
    from pyworkers.persistent_remote import PersistentRemoteWorker
    from pyworkers.remote_context import RemoteContext
    viol, obs = [], {}
    server = spawn_server(('127.0.0.1', 0))
    procs = {}
    try:
        workers = [('one-shot child', RemoteWorker(T.cooperative_loop, host=server.addr))]
        ctx = RemoteContext(12, target=T.square, host=server.addr)
        workers.append(('persistent worker in a context, idle', PersistentRemoteWorker(None, host=ctx.host, context=ctx.context_id)))
        busy = PersistentRemoteWorker(None, host=ctx.host, context=ctx.context_id)
        workers.append(('persistent worker in a context, idle after work', busy))
        busy.enqueue(3)
        obs['first_result'] = busy.next_result()
        time.sleep(0.5)
        procs = descendants(server.pid)
        obs['descendants'] = len(procs)
        t0 = time.monotonic()
        os.kill(server.pid, signal.SIGTERM)
        deadline = t0 + 6
        while (survivors(procs) or server.is_alive()) and time.monotonic() < deadline:
            time.sleep(0.05)
        left = survivors(procs)
        obs['left'] = left
        if left:
            viol.append(f'context: processes spawned by the server still running 6 s after SIGTERM: {left} (of {sorted(procs)})')
        # only is_alive(): wait() of a persistent worker closes its input, which would release a left-over child
        for desc, w in workers:
            alive = w.is_alive()
            while alive and time.monotonic() < deadline + 2:
                time.sleep(0.05)
                alive = w.is_alive()
            if alive:
                viol.append(f'context: [{desc}] the parent-side worker did not find out: is_alive() is still True, has_error={w.has_error}')
            elif w.has_error is not True:
                viol.append(f'context: [{desc}] dead but has_error={w.has_error!r}')
    except Exception as e:     # noqa
        viol.append(f'context scenario could not be set up: {type(e).__name__}: {e}')
        obs['setup_error'] = True
    finally:
        for p in list(survivors(procs)) + [server.pid]:
            try:
                os.kill(p, signal.SIGKILL)
            except Exception:
                pass
    return viol, obs


def main():
    sc = json.loads(sys.argv[1])
    viol, obs = [], {}

    def watchdog():
        print(json.dumps({'violates': True, 'violations': viol + ['watchdog: the scenarios did not finish within 150 s (something blocks)'], 'observed': obs, 'scenario': sc}, default=repr))
        sys.stdout.flush()
        os._exit(0)
    tm = threading.Timer(150, watchdog)
    tm.daemon = True
    tm.start()
    for kind in ('terminate_short', 'sigterm'):
        v, o = scenario(kind)
        viol += v
        obs[kind] = o
    v, o = context_scenario()
    viol += v
    obs['context'] = o
    print(json.dumps({'violates': bool(viol), 'violations': viol, 'observed': obs, 'scenario': sc}, default=repr))
    sys.stdout.flush()
    os._exit(0)


if __name__ == '__main__':
    main()
