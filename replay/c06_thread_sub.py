"""Sub-process of c06_native.py (started with the line injector active in THIS process): a PersistentThreadWorker finishes two inputs, is closed, and a
graceful terminate (WorkerTerminatedError, as raised by ThreadWorker.terminate through foreign_raise) lands inside its _cleanup() on the line that writes the
end marker.  What does a consumer of the results pipe see afterwards?"""
import json
import queue
import sys
import time

import replay_targets as T


def main():
    from pyworkers.persistent_thread import PersistentThreadWorker
    obs, viol = {}, []
    w = PersistentThreadWorker(T.square)
    w.enqueue(2)
    w.enqueue(3)
    dead = w.wait(5)
    time.sleep(0.3)
    obs['dead'] = dead
    msgs = []
    ep = w.results_endpoint
    while True:
        try:
            msgs.append(ep.get_nowait())
        except queue.Empty:
            break
    obs['messages'] = [list(m[:3]) for m in msgs]
    results = [m[2] for m in msgs if m[1]]
    if results != [4, 9]:
        viol.append(f'the delivered results are not the expected prefix: {results}')
    if not msgs or msgs[-1][1] is not False:
        viol.append('the thread worker is dead and its results pipe holds NO end marker: a consumer multiplexing result pipes (the Pool) that waits for the '
                    'end-of-stream message of this worker waits for ever (a LocalPipe has no EOF)')
    print(json.dumps({'violates': bool(viol), 'violations': viol, 'observed': obs}, default=repr))


if __name__ == '__main__':
    main()
