"""Native replay for C19 on the real pyworkers.worker registry (thread workers; no network)."""
import json
import sys
import time

from pyworkers.worker import Worker, autoclose_active_children
from pyworkers.thread import ThreadWorker
from pyworkers.persistent_thread import PersistentThreadWorker


def fn(x):
    return x * x


def registry():
    """the registered workers, whatever container the registry is kept in (list, set-like, or a mapping to the workers)"""
    r = Worker._active_children
    if hasattr(r, 'values') and callable(r.values):
        return list(r.values())
    return list(r)


def main():
    sc = json.loads(sys.argv[1])
    obs = {}
    viol = []
    # L1: dead workers are neither yielded nor retained
    ws = [ThreadWorker(fn, args=(i,)) for i in range(5)]
    for w in ws:
        w.wait()
    live = PersistentThreadWorker(fn)
    yielded = list(Worker.active_children())
    obs['yielded_dead'] = sum(1 for w in yielded if not w.is_alive())
    obs['yielded_live'] = sum(1 for w in yielded if w is live)
    obs['registry_len_after_prune'] = len(registry())
    obs['registry_dead_retained'] = sum(1 for w in registry() if not w.is_alive())
    if obs['yielded_dead']:
        viol.append(f"active_children() yielded {obs['yielded_dead']} dead workers")
    if obs['registry_dead_retained']:
        viol.append(f"registry retains {obs['registry_dead_retained']} dead workers after active_children()")
    if obs['yielded_live'] != 1:
        viol.append(f"live worker yielded {obs['yielded_live']} times")
    # L2: not-run workers and restarts are not registered
    before = len(registry())
    nr = ThreadWorker(fn, run=False)
    obs['notrun_registered'] = sum(1 for w in registry() if w is nr)
    if obs['notrun_registered']:
        viol.append('a not-run worker was registered')
    live.restart(timeout=2)
    obs['live_registered_times_after_restart'] = sum(1 for w in registry() if w is live)
    if obs['live_registered_times_after_restart'] != 1:
        viol.append(f"restarted worker registered {obs['live_registered_times_after_restart']} times")
    # L2c: a worker whose dead incarnation was pruned from the registry is registered again when it is restarted
    # (otherwise graceful termination and autoclose never reach the new incarnation)
    again = PersistentThreadWorker(fn)
    again.wait(2)
    list(Worker.active_children())          # prunes the dead incarnation
    again.restart(timeout=2)
    obs['restarted_after_prune_alive'] = again.is_alive()
    obs['restarted_after_prune_registered'] = sum(1 for w in registry() if w is again)
    if again.is_alive() and obs['restarted_after_prune_registered'] != 1:
        viol.append(f"a worker restarted after its dead incarnation had been pruned is registered {obs['restarted_after_prune_registered']} times: "
                    "active_children(), autoclose and the SIGTERM handler do not see the live worker")
    again.terminate(timeout=1)
    # L2a: every worker that starts gets registered, whatever is (still) in the registry - in particular a dead, not yet pruned worker whose
    # id (host, pid, thread id) the operating system has handed out again; and a worker nobody else refers to stays registered while it lives
    import gc
    import threading as _th
    list(Worker.active_children())
    seen_ids = set()
    reused = None
    for _ in range(200):
        w = ThreadWorker(fn, args=(1,))
        w.wait()
        if w.id in seen_ids:
            break
        seen_ids.add(w.id)
        nxt = PersistentThreadWorker(fn)
        if nxt.id in seen_ids:
            reused = nxt
            break
        seen_ids.add(nxt.id)
        nxt.terminate(timeout=1)
    obs['id_reused'] = reused is not None
    if reused is not None:
        obs['reused_id_registered'] = sum(1 for w in registry() if w is reused)
        obs['reused_id_yielded'] = sum(1 for w in Worker.active_children() if w is reused)
        if reused.is_alive() and (obs['reused_id_registered'] != 1 or obs['reused_id_yielded'] != 1):
            viol.append(f"a live worker whose id equals that of a dead, not yet pruned worker is registered {obs['reused_id_registered']} times and "
                        f"yielded {obs['reused_id_yielded']} times by active_children()")
        reused.terminate(timeout=1)
    n0 = sum(1 for w in Worker.active_children())
    PersistentThreadWorker(fn)                     # no reference kept by the caller
    gc.collect()
    anon = [w for w in Worker.active_children()]
    obs['unreferenced_live_yielded'] = len(anon) - n0
    if len(anon) - n0 != 1 and _th.active_count() > 1:
        viol.append(f'a live worker the caller keeps no reference to is yielded {len(anon) - n0} times by active_children() while its thread runs')
    for w in anon:
        if w is not live:
            w.terminate(timeout=1)
    del anon
    # the same for a process worker: its OS process runs on whether or not the caller holds the Worker object
    import multiprocessing as _mp
    import replay_targets as T
    from pyworkers.process import ProcessWorker
    gc.collect()
    n0 = sum(1 for w in Worker.active_children())
    pids0 = {p.pid for p in _mp.active_children()}
    ProcessWorker(T.sleep_for, args=(20,))         # fire and forget: no reference kept by the caller
    gc.collect()
    time.sleep(0.2)
    new_procs = [p for p in _mp.active_children() if p.pid not in pids0 and p.is_alive()]
    anon = [w for w in Worker.active_children()]
    obs['unreferenced_live_process_yielded'] = len(anon) - n0
    obs['unreferenced_live_process_running'] = len(new_procs)
    if new_procs and len(anon) - n0 != 1:
        viol.append(f'a process worker the caller keeps no reference to is yielded {len(anon) - n0} times by active_children() while its process '
                    f'(pid {new_procs[0].pid}) is running: autoclose and the SIGTERM handler cannot reach it')
    for w in anon:
        if w is not live:
            w.terminate(timeout=1)
    for p in new_procs:
        if p.is_alive():
            p.kill()
    del anon
    # L1, liveness is only good for the critical section it was observed in: a dead, not yet pruned persistent worker is restarted by this thread while
    # another thread is inside active_children() and has already looked at it (that thread is held in the liveness check of a later worker, standing for a
    # remote worker whose is_alive() takes time).  The restarted worker is alive: it must not be lost from the registry
    import threading as _th2

    class SlowProbe(ThreadWorker):
        armed, prober, entered, resume = False, None, _th2.Event(), _th2.Event()

        def is_alive(self):
            if SlowProbe.armed and _th2.current_thread() is SlowProbe.prober:
                SlowProbe.armed = False
                SlowProbe.entered.set()
                SlowProbe.resume.wait(2)
            return super().is_alive()
    list(Worker.active_children())
    stop_evt = _th2.Event()
    w1 = PersistentThreadWorker(fn)
    probe = SlowProbe(stop_evt.wait, args=(30,))
    w1.wait(5)
    if not w1.is_alive() and probe.is_alive():
        th = _th2.Thread(target=lambda: list(Worker.active_children()))
        SlowProbe.prober, SlowProbe.armed = th, True
        th.start()
        if SlowProbe.entered.wait(10):
            rt = _th2.Thread(target=lambda: w1.restart(timeout=2))      # with one critical section this blocks on the registry lock until the poller is done
            rt.start()
            rt.join(1.0)
            SlowProbe.resume.set()
            rt.join(10)
        th.join(10)
        obs['restarted_during_poll_alive'] = w1.is_alive()
        obs['restarted_during_poll_yielded'] = sum(1 for w in Worker.active_children() if w is w1)
        if w1.is_alive() and obs['restarted_during_poll_yielded'] != 1:
            viol.append('a dead persistent worker that was restarted while another thread was inside active_children() (after that thread had found it dead, before '
                        f"it wrote the registry) is alive but yielded {obs['restarted_during_poll_yielded']} times afterwards: dropped from the registry for good")
    stop_evt.set()
    probe.wait(2)
    w1.terminate(timeout=1)
    # L1 under interference: another thread registers a worker at the first moment the registry lock is free during
    # active_children() (a legal schedule, forced here by a lock wrapper of the harness): the registration must survive
    class SpyLock:
        def __init__(self, inner):
            self.inner, self.on_release = inner, None

        def acquire(self, *a, **k):
            return self.inner.acquire(*a, **k)

        def release(self):
            self.inner.release()
            cb, self.on_release = self.on_release, None
            if cb:
                cb()

        def __enter__(self):
            self.inner.acquire()
            return self

        def __exit__(self, *exc):
            self.release()
    spy = SpyLock(Worker._children_lock)
    Worker._children_lock = spy
    late = []
    spy.on_release = lambda: late.append(PersistentThreadWorker(fn))
    list(Worker.active_children())
    Worker._children_lock = spy.inner
    obs['registered_during_prune_survives'] = bool(late) and sum(1 for w in registry() if w is late[0])
    if late and obs['registered_during_prune_survives'] != 1:
        viol.append('a worker registered by another thread while active_children() was pruning is missing from the registry afterwards '
                    f"(registered {obs['registered_during_prune_survives']} times)")
    for w in late:
        w.terminate(timeout=1)
    # L3: autoclose leaves nothing alive, also when the block raises
    import replay_targets as T
    try:
        with autoclose_active_children():
            p2 = PersistentThreadWorker(fn)
            busy = ThreadWorker(T.cooperative_loop)          # still working when the block is left: must be terminated
            raise KeyError('boom')
    except KeyError:
        pass
    time.sleep(0.6)
    obs['alive_after_autoclose'] = [repr(w) for w in (live, p2, busy) if w.is_alive()]
    if busy.is_alive():
        busy.terminate(timeout=1)
    if obs['alive_after_autoclose']:
        viol.append('workers alive after autoclose block: ' + ', '.join(obs['alive_after_autoclose']))
    print(json.dumps({'violates': bool(viol), 'observed': obs, 'violations': viol, 'scenario': sc}))


if __name__ == '__main__':
    main()
