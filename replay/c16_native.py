"""Native replay for C16: user_state synchronisation for process workers (and setter guard)."""
import json
import multiprocessing as mp
import os
import sys
import threading

import replay_targets as T
from pyworkers.process import ProcessWorker
from pyworkers.thread import ThreadWorker


def main():
    viol = []
    obs = {}
    sc = json.loads(sys.argv[1])
    lemma = (sc.get('lemma') or '').split(' ')[0].split('.')[-1]

    def watchdog():
        print(json.dumps({'violates': True, 'violations': viol + ['watchdog: scenario did not finish within 150 s (hang)'], 'observed': obs, 'scenario': sc}, default=repr))
        sys.stdout.flush()
        for c in mp.active_children():
            c.kill()
        os._exit(0)
    tm = threading.Timer(150, watchdog)
    tm.daemon = True
    tm.start()
    if not lemma.endswith('r'):
        process_part(viol, obs)
    if not lemma or lemma.endswith('r'):
        remote_part(viol, obs)
    print(json.dumps({'violates': bool(viol), 'violations': viol, 'observed': obs, 'scenario': sc}, default=repr))


def remote_part(viol, obs):
    """the remote kind: whatever the child returns (also None / False) or raises, the state it assigned last is what the parent sees after the end, and the
    next incarnation of a re-creation chain starts from it"""
    from pyworkers.remote import RemoteWorker
    from pyworkers.remote_server import spawn_server
    server = spawn_server(('127.0.0.1', 0))
    try:
        in_place(viol, obs, {'remote': lambda *a, **k: RemoteWorker(*a, host=server.addr, **k)})
        for init, values in (('initial', [5, None]), (1, [2, 0]), (None, [3, ['a', 'b']]), ('same', ['x', 'same'])):
            for then in ('return', 'return_none', 'return_false', 'raise', 'raise_unreceivable'):
                w = RemoteWorker(T.set_states, args=(values, then), init_state=init, host=server.addr)
                alive_state = w.user_state
                if not w.wait(20):
                    viol.append(f'remote/{init!r}->{values!r}/{then}: wait(20) returned False')
                    w.terminate(timeout=1, force=True)
                    continue
                got = w.user_state
                obs[f'remote/{init!r}->{values!r}/{then}'] = got
                if got != values[-1] or type(got) is not type(values[-1]):
                    viol.append(f"remote worker, init_state={init!r}, the child assigns {values!r} and ends by {then}: after the end user_state is {got!r}, "
                                f"the child's last value was {values[-1]!r}")
                try:
                    w.user_state = 5
                    viol.append('remote worker: assigning user_state from the parent did not raise')
                except RuntimeError:
                    pass
    finally:
        try:
            server.terminate(timeout=2, force=True)
        except Exception:     # noqa
            pass


def in_place(viol, obs, kinds):
    """a mutable state updated in place: the LAST VALUE ASSIGNED is the same object the child started with, with new content"""
    for kname, mk in kinds.items():
        for then in ('return', 'raise'):
            w = mk(T.update_state_in_place, args=(3, then), init_state={'count': 0, 'log': []})
            if not w.wait(20):
                viol.append(f'{kname}/in-place/{then}: wait(20) returned False')
                w.terminate(timeout=1)
                continue
            got = w.user_state
            obs[f'{kname}/in-place/{then}'] = got
            if got != {'count': 3, 'log': [0, 1, 2]}:
                viol.append(f"{kname} worker, init_state={{'count': 0, 'log': []}} updated in place three times by the child (ending by {then}): after the end the parent's "
                            f"user_state is {got!r}, the child's last value was {{'count': 3, 'log': [0, 1, 2]}}")


def process_part(viol, obs):
    in_place(viol, obs, {'process': lambda *a, **k: ProcessWorker(*a, **k)})
    w = ProcessWorker(T.set_state_and_return, args=(41,), init_state='initial')
    obs['alive_state'] = w.user_state
    ok = w.wait(20)
    obs['wait'] = ok
    obs['state_right_after_wait'] = w.user_state
    if w.user_state != ('child', 41):
        viol.append(f"after wait() user_state is {w.user_state!r}, the child's last value was ('child', 41)")
    obs['result'] = w.result
    obs['state_after_result'] = w.user_state
    try:
        w.user_state = 5
        viol.append('assigning user_state from the parent did not raise')
    except RuntimeError:
        pass
    w2 = ProcessWorker(T.set_state_and_raise, args=(7,), init_state=None)
    w2.wait(20)
    if w2.user_state != ('child', 7):
        viol.append(f"worker that raised: user_state is {w2.user_state!r}, expected ('child', 7)")
    # the last value the child assigns is what the parent sees after the end, whatever it is: None, falsy values, a value equal to the initial one
    for init, values in (('initial', [5, None]), (1, [2, 0]), ([1], [[], '']), (None, [3, None]), ('same', ['x', 'same'])):
        for then in ('return', 'return_none', 'raise', 'raise_unreceivable'):
            w3 = ProcessWorker(T.set_states, args=(values, then), init_state=init)
            w3.wait(20)
            got = w3.user_state
            obs[f'{init!r}->{values!r}/{then}'] = got
            if got != values[-1] or type(got) is not type(values[-1]):
                viol.append(f"init_state={init!r}, the child assigns {values!r} and {then}s: after the end user_state is {got!r}, the child's last value was {values[-1]!r}")


if __name__ == '__main__':
    main()
