"""Native replay for C16: user_state synchronisation for process workers (and setter guard)."""
import json
import sys

import replay_targets as T
from pyworkers.process import ProcessWorker
from pyworkers.thread import ThreadWorker


def main():
    viol = []
    obs = {}
    w = ProcessWorker(T.set_state_and_return, args=(41,), init_state='initial')
    obs['alive_state'] = w.user_state
    ok = w.wait(20)
    obs['wait'] = ok
    obs['state_right_after_wait'] = w.user_state
    if w.user_state != ('child', 41):
        viol.append(f"after wait() user_state is {w.user_state!r}, the child's last value was ('child', 41)")
    obs['result'] = w.result
    obs['state_after_result'] = w.user_state
    try:
        w.user_state = 5
        viol.append('assigning user_state from the parent did not raise')
    except RuntimeError:
        pass
    w2 = ProcessWorker(T.set_state_and_raise, args=(7,), init_state=None)
    w2.wait(20)
    if w2.user_state != ('child', 7):
        viol.append(f"worker that raised: user_state is {w2.user_state!r}, expected ('child', 7)")
    # the last value the child assigns is what the parent sees after the end, whatever it is: None, falsy values, a value equal to the initial one
    for init, values in (('initial', [5, None]), (1, [2, 0]), ([1], [[], '']), (None, [3, None]), ('same', ['x', 'same'])):
        for then in ('return', 'raise'):
            w3 = ProcessWorker(T.set_states, args=(values, then), init_state=init)
            w3.wait(20)
            got = w3.user_state
            obs[f'{init!r}->{values!r}/{then}'] = got
            if got != values[-1] or type(got) is not type(values[-1]):
                viol.append(f"init_state={init!r}, the child assigns {values!r} and {then}s: after the end user_state is {got!r}, the child's last value was {values[-1]!r}")
    print(json.dumps({'violates': bool(viol), 'violations': viol, 'observed': obs, 'scenario': json.loads(sys.argv[1])}, default=repr))


if __name__ == '__main__':
    main()
