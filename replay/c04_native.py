"""Native replay for C04: bounds and truthfulness of wait()/terminate() on real workers, incl. an unresponsive (SIGSTOPped) child."""
import json
import os
import signal
import sys
import threading
import time

import replay_targets as T


def timed(fn, watchdog):
    res = {}

    def body():
        t0 = time.time()
        try:
            res['ret'] = fn()
        except BaseException as e:     # noqa
            res['exc'] = f'{type(e).__name__}: {e}'
        res['dt'] = time.time() - t0
    t = threading.Thread(target=body, daemon=True)
    t.start()
    t.join(watchdog)
    res['hung'] = t.is_alive()
    return res


def main():
    sc = json.loads(sys.argv[1])
    from pyworkers.process import ProcessWorker
    from pyworkers.remote import RemoteWorker
    from pyworkers.remote_server import spawn_server
    viol, obs = [], {}
    # 1. stopped child: terminate(timeout=0.5, force=True) must come back within a small multiple of 0.5 s
    w = ProcessWorker(T.cooperative_loop)
    os.kill(w.pid, signal.SIGSTOP)
    r = timed(lambda: w.terminate(timeout=0.5, force=True), 6)
    obs['terminate_on_stopped_child'] = r
    if r['hung']:
        viol.append('ProcessWorker.terminate(timeout=0.5, force=True) on a SIGSTOPped child is still blocked after 6 s (unbounded wait on the control pipe)')
    try:
        os.kill(w.pid, signal.SIGCONT)
        os.kill(w.pid, signal.SIGKILL)
    except Exception:
        pass
    # 2. truthfulness / idempotence on a live cooperative worker
    w2 = ProcessWorker(T.cooperative_loop)
    r = timed(lambda: w2.wait(0.3), 5)
    obs['wait_0.3_live'] = r
    if r['hung'] or r.get('dt', 9) > 1.5 or r.get('ret') is not False:
        viol.append(f'wait(0.3) on a live worker: {r}')
    r = timed(lambda: w2.terminate(timeout=1), 8)
    obs['terminate_live'] = r
    if r.get('ret') is not True or w2.is_alive():
        viol.append(f'terminate(1) on a cooperative worker: {r}, alive={w2.is_alive()}')
    for name, fn in (('wait', lambda: w2.wait(0)), ('terminate', lambda: w2.terminate(timeout=0)), ('is_alive', lambda: not w2.is_alive())):
        r = timed(fn, 3)
        if r['hung'] or r.get('ret') is not True or r.get('dt', 9) > 0.5:
            viol.append(f'{name} on a dead worker is not immediate/True: {r}')
    for name, fn in (('wait', lambda: w2.wait(-1)), ('terminate', lambda: w2.terminate(timeout=-1))):
        r = timed(fn, 3)
        if 'ValueError' not in r.get('exc', ''):
            viol.append(f'{name}(-1) did not raise ValueError: {r}')
    # 2b. a child that has delivered its result but does not exit yet (a non-daemon helper thread keeps it alive for 6 s): wait(t) stays bounded and truthful
    w4 = ProcessWorker(T.return_then_linger, args=(6,))
    time.sleep(1.0)
    for tmo in (0, 0.3):
        r = timed(lambda: w4.wait(tmo), 12)
        obs[f'wait_{tmo}_lingering'] = r
        if r['hung'] or r.get('dt', 99) > 4 * tmo + 1.0:
            viol.append(f'wait({tmo}) on a child that has reported but not exited took {r.get("dt")} s (hung={r["hung"]}): not bounded by its timeout')
        elif r.get('ret') is not False:
            viol.append(f'wait({tmo}) on a child that is still running returned {r.get("ret")!r}')
    try:
        w4.terminate(timeout=1, force=True)
    except Exception:
        pass
    # 2c. force=True leaves a process child dead whatever the target does, as long as it does not block SIGTERM: a target that swallows every Exception
    #     around one long blocking call (the graceful request stays pending while it sleeps)
    w5 = ProcessWorker(T.swallow_in_long_sleep)
    time.sleep(0.8)
    r = timed(lambda: w5.terminate(timeout=0.5, force=True), 10)
    time.sleep(0.2)
    obs['force_terminate_swallowing_sleeper'] = dict(r, alive_after=w5.is_alive())
    if r['hung'] or r.get('ret') is not True or w5.is_alive():
        viol.append(f'terminate(timeout=0.5, force=True) on a process child that swallows exceptions inside one long sleep (SIGTERM not blocked): {r}, '
                    f'child alive afterwards: {w5.is_alive()}')
    try:
        os.kill(w5.pid, signal.SIGKILL)
    except Exception:
        pass
    # 3. remote: wait(0) on a running worker returns at once with False
    server = spawn_server(('127.0.0.1', 0))
    try:
        w3 = RemoteWorker(T.sleep_for, args=(4,), host=server.addr)
        r = timed(lambda: w3.wait(0), 8)
        obs['remote_wait_0'] = r
        if r['hung'] or r.get('dt', 9) > 1.5 or r.get('ret') is not False:
            viol.append(f'RemoteWorker.wait(0) on a running worker took {r.get("dt")} s and returned {r.get("ret")!r} (bound 1.5 s, expected False)')
        w3.terminate(timeout=1)
    finally:
        try:
            server.terminate(timeout=2, force=True)
        except Exception:
            pass
    print(json.dumps({'violates': bool(viol), 'violations': viol, 'observed': obs, 'scenario': sc}, default=repr))
    sys.stdout.flush()
    os._exit(0)


if __name__ == '__main__':
    main()
