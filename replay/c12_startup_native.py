"""Native replay for C12.L6: the server is stopped while the backend process of a worker is still starting up (importing a slow module).  That process is in
nobody's list yet; afterwards no process the server spawned may be left and the thread that was creating the worker must not be stuck."""
import json
import os
import shutil
import signal
import sys
import tempfile
import threading
import time

import replay_heavy      # slow import (2 s), see there


def proc_state(pid):
    try:
        with open(f'/proc/{pid}/stat') as f:
            data = f.read()
    except OSError:
        return None
    rest = data[data.rfind(')') + 2:].split()
    return rest[0], int(rest[1])


def is_running(pid):
    st = proc_state(pid)
    return st is not None and st[0] not in ('Z', 'X')


def children_of(pid):
    ret = set()
    for name in os.listdir('/proc'):
        if name.isdigit():
            st = proc_state(int(name))
            if st is not None and st[1] == pid and st[0] not in ('Z', 'X'):
                ret.add(int(name))
    return ret


def read_beat(path):
    try:
        with open(path) as f:
            pid, n = f.read().split()
        return int(pid), int(n)
    except (OSError, ValueError):
        return None


def wait_for(cond, timeout, interval=0.02):
    deadline = time.monotonic() + timeout
    while time.monotonic() < deadline:
        r = cond()
        if r:
            return r
        time.sleep(interval)
    return cond()


def main():
    sc = json.loads(sys.argv[1])
    viol, obs = [], {}
    seen = set()
    tmpdir = tempfile.mkdtemp(prefix='c12_startup_')

    def finish():
        for pid in list(seen):
            if is_running(pid):
                try:
                    os.kill(pid, signal.SIGKILL)
                except OSError:
                    pass
        shutil.rmtree(tmpdir, ignore_errors=True)
        print(json.dumps({'violates': bool(viol), 'violations': viol, 'observed': obs, 'scenario': sc}, default=repr))
        sys.stdout.flush()
        os._exit(0)

    def watchdog():
        viol.append('watchdog: the scenario did not finish within 90 s (something blocks)')
        finish()
    tm = threading.Timer(90, watchdog)
    tm.daemon = True
    tm.start()
    from pyworkers.remote import RemoteWorker
    from pyworkers.remote_server import spawn_server
    from pyworkers.worker import WorkerTerminatedError
    beat1, beat2 = os.path.join(tmpdir, 'beat1'), os.path.join(tmpdir, 'beat2')
    server = spawn_server(('127.0.0.1', 0))
    seen.add(server.pid)
    w1 = RemoteWorker(target=replay_heavy.beat_loop, args=[beat1], host=server.addr)
    if not wait_for(lambda: read_beat(beat1), 20):
        obs['setup'] = 'the first worker never started to work'
        finish()
    before = children_of(server.pid)
    seen.update(before)
    box = {}

    def create():
        try:
            box['worker'] = RemoteWorker(target=replay_heavy.beat_loop, args=[beat2], host=server.addr)
        except Exception as e:     # noqa
            box['error'] = repr(e)
    creator = threading.Thread(target=create, daemon=True)
    creator.start()
    new = wait_for(lambda: children_of(server.pid) - before, 20)
    if not new:
        obs['setup'] = 'the server never spawned a process for the second worker'
        finish()
    seen.update(new)
    time.sleep(0.3)          # the new process is busy importing, the server waits for it to report in
    t0 = time.monotonic()
    stopped = server.terminate(timeout=5, force=True)
    obs['server.terminate'] = {'returned': stopped, 'seconds': round(time.monotonic() - t0, 1)}
    seen.update(children_of(server.pid))
    wait_for(lambda: not any(is_running(p) for p in seen), 6)
    creator.join(5)
    if not stopped or is_running(server.pid):
        viol.append(f'the server (pid {server.pid}) is still alive after terminate()')
    b2 = read_beat(beat2)
    for pid in sorted(seen):
        if is_running(pid):
            what = 'the process of the worker that was still starting up' if pid in new else 'a process spawned by the server'
            extra = ''
            if b2 is not None and b2[0] == pid:
                time.sleep(0.5)
                later = read_beat(beat2)
                extra = f'; it runs its target: heartbeat {b2[1]} -> {later[1] if later else None}'
            viol.append(f'{what} (pid {pid}, parent pid now {proc_state(pid)[1]}) is still running {time.monotonic() - t0:.1f} s after the server was terminated{extra}')
    if w1.is_alive():
        viol.append('established worker: the parent side still says is_alive() after the server was terminated')
    elif w1.has_error is not True or type(w1.error) is not WorkerTerminatedError:
        viol.append(f'established worker: has_error={w1.has_error!r}, error={w1.error!r} instead of a WorkerTerminatedError')
    if creator.is_alive():
        viol.append('the thread creating the second worker is still blocked in the RemoteWorker constructor')
    obs['second worker'] = box.get('error') or repr(box.get('worker'))
    finish()


if __name__ == '__main__':
    main()
