"""Native replay of landing points (C03 / C01 / C16): a WorkerTerminatedError is raised in the child exactly when the named source
line of the named function is about to execute (or has just executed), by the line injector in replay/inject/sitecustomize.py.
scenario: {"kind": "thread"|"process", "points": [{"file","func","text","phase"}], "target": "returns"|"raises"|"loop"}"""
import importlib.util
import json
import os
import sys
import threading
import time

HERE = os.path.dirname(os.path.abspath(__file__))


def arm(kind, pt, what='WTE'):
    spec = f"{pt['file']}|{pt['func']}|{pt['text'][:40]}|{what}|{os.getpid() if kind != 'thread' else ''}|{pt.get('phase', 'before')}"
    os.environ['PYVC_INJECT'] = spec
    os.environ['PYTHONPATH'] = os.path.join(HERE, 'inject') + os.pathsep + os.environ.get('PYTHONPATH', '')
    if kind == 'thread':
        s = importlib.util.spec_from_file_location('pyvc_inject_sitecustomize', os.path.join(HERE, 'inject', 'sitecustomize.py'))
        m = importlib.util.module_from_spec(s)
        s.loader.exec_module(m)
    return spec


def main():
    sc = json.loads(sys.argv[1])
    kind = sc.get('kind', 'process')
    pts = sc.get('points') or []
    import replay_targets as T
    from pyworkers.worker import WorkerTerminatedError
    viol = []
    obs = {}
    targets = [sc['target']] if sc.get('target') else ['raises', 'returns']
    for tm in targets:
        if not pts:
            break
        spec = arm(kind, pts[0])
        from pyworkers.thread import ThreadWorker
        from pyworkers.process import ProcessWorker
        server = None
        if kind == 'remote':
            # the injector is inherited by the server process and by the backend it spawns; only the backend executes the named function
            from pyworkers.remote import RemoteWorker
            from pyworkers.remote_server import spawn_server
            server = spawn_server(('127.0.0.1', 0))
            cls = (lambda srv: (lambda fn_, **kw: RemoteWorker(fn_, host=srv.addr, **kw)))(server)
        else:
            cls = ThreadWorker if kind == 'thread' else ProcessWorker
        fn = {'raises': T.set_state_and_raise, 'returns': T.set_state_and_return, 'loop': T.cooperative_loop}[tm]
        args = () if tm == 'loop' else (5,)
        res = {}

        def body():
            try:
                w = cls(fn, args=args, init_state='initial')
                dead = w.wait(8)
                res.update(dead=dead, has_error=w.has_error, error=repr(w.error), error_type=type(w.error).__name__, result=w.result,
                           user_state=w.user_state)
                if not dead:
                    w.terminate(timeout=1)
            except BaseException as e:   # noqa
                res['exception'] = f'{type(e).__name__}: {e}'
        t = threading.Thread(target=body, daemon=True)
        t.start()
        t.join(15)
        os.environ.pop('PYVC_INJECT', None)
        if server is not None:
            try:
                server.terminate(timeout=2, force=True)
            except Exception:
                pass
        sys.settrace(None)
        threading.settrace(None)
        obs[tm] = dict(res, inject=spec)
        if t.is_alive():
            viol.append(f'[{tm}] parent blocked')
            continue
        if 'exception' in res:
            viol.append(f'[{tm}] accessor/constructor raised {res["exception"]}')
            continue
        if not res.get('dead'):
            continue            # the landing point was not reached in this target mode
        he, et, rs = res['has_error'], res['error_type'], res['result']
        own_ok = (tm == 'returns' and he is False and rs == 6)
        own_err = (tm == 'raises' and he is True and et == 'ValueError')
        term = (he is True and et == 'WorkerTerminatedError' and rs is None)
        if not (own_ok or own_err or term):
            viol.append(f'[{tm}] after a graceful terminate landing at "{pts[0]["text"][:50]}" ({pts[0].get("phase")}) the worker reports '
                        f'has_error={he!r}, error={res["error"]}, result={rs!r}: neither WorkerTerminatedError nor the target\'s own outcome')
        if res.get('user_state') != ('child', 5):
            viol.append(f'[{tm}] user_state {res.get("user_state")!r} is not the child\'s last value')
    print(json.dumps({'violates': bool(viol), 'violations': viol, 'observed': obs, 'scenario': sc}, default=repr))
    sys.stdout.flush()
    os._exit(0)


if __name__ == '__main__':
    main()
