"""Targets in a module that is slow to import (stands for an application whose modules pull in heavy dependencies): a remote worker that runs one of them
spends seconds in its start-up, which makes 'the server is stopped while a worker is still starting' a schedule that can be selected (C12.L6)."""
import os
import time

time.sleep(2.0)     # "heavy imports"


def beat_loop(path):
    """cooperative target: works for ever, leaves a heartbeat (pid, counter) in path, swallows nothing"""
    n = 0
    while True:
        n += 1
        tmp = f'{path}.{os.getpid()}'
        with open(tmp, 'w') as f:
            f.write(f'{os.getpid()} {n}')
        os.replace(tmp, path)
        time.sleep(0.05)
