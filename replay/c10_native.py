"""Native replay for C10: runs the REAL pyworkers.remote.send_msg / recv_msg over a scripted socket.
usage: c10_native.py '<json scenario>'   (run under /venv/bin/python with PYTHONPATH=<repo>)
scenario: {"msgs": [...], "sizes": [first read sizes...], "trunc": null | offset, "search": bool, "seed": int}
Prints one JSON line: {"violates": bool, "observed": ..., "scenario": ...}"""
import json
import random
import sys
import threading

from pyworkers.remote import send_msg, recv_msg, ConnectionClosedError


class ScriptSock:
    def __init__(self, data=b'', sizes=()):
        self.data = data
        self.pos = 0
        self.sizes = list(sizes)
        self.out = b''
        self.reads = 0

    def recv(self, n):
        self.reads += 1
        if self.reads > 200000:
            raise SystemExit('spin')
        left = len(self.data) - self.pos
        if left <= 0 or n <= 0:
            return b''
        k = min(n, left)
        if self.sizes:
            k = max(1, min(k, self.sizes.pop(0)))
        b = self.data[self.pos:self.pos + k]
        self.pos += k
        return b

    def sendall(self, b):
        self.out += b


def frame_bytes(msgs):
    s = ScriptSock()
    for m in msgs:
        send_msg(s, m)
    return s.out


def run_recv(data, sizes, count, timeout=3.0):
    s = ScriptSock(data, sizes)
    res = {'received': [], 'error': None, 'hung': False}

    def work():
        try:
            for _ in range(count):
                res['received'].append(recv_msg(s))
        except ConnectionClosedError:
            res['error'] = 'ConnectionClosedError'
        except SystemExit as e:
            res['error'] = 'spin(>200000 recv calls)'
            res['hung'] = True
        except BaseException as e:
            res['error'] = type(e).__name__ + ': ' + str(e)[:100]
    t = threading.Thread(target=work, daemon=True)
    t.start()
    t.join(timeout)
    if t.is_alive():
        res['hung'] = True
        res['error'] = f'still running after {timeout}s'
        s.reads = 10 ** 9   # make it stop
    res['pos'] = s.pos
    return res


def judge(msgs, sizes, trunc):
    data = frame_bytes(msgs)
    # framing as the property states it: 4-byte big-endian length + body per message
    if trunc is None:
        r = run_recv(data, sizes, len(msgs))
        ok = (r['error'] is None and r['received'] == msgs and r['pos'] == len(data))
        return (not ok), r
    cut = data[:trunc]
    # messages wholly contained in the cut must still arrive; then ConnectionClosedError, promptly
    whole = 0
    off = 0
    for m in msgs:
        fl = len(frame_bytes([m]))
        if off + fl <= trunc:
            whole += 1
            off += fl
        else:
            break
    r = run_recv(cut, sizes, whole + 1)
    ok = (r['received'] == msgs[:whole] and r['error'] == 'ConnectionClosedError' and not r['hung'])
    return (not ok), r


def main():
    sc = json.loads(sys.argv[1])
    msgs = [tuple(m) if isinstance(m, list) else m for m in sc.get('msgs', [['hello', 1]])]
    sizes = sc.get('sizes', [])
    trunc = sc.get('trunc')
    v, r = judge(msgs, sizes, trunc)
    out = {'violates': v, 'observed': r, 'scenario': {'msgs': msgs, 'sizes': sizes, 'trunc': trunc}}
    if not v and sc.get('search'):
        rnd = random.Random(sc.get('seed', 0))
        data = frame_bytes(msgs)
        tried = 0
        cands = []
        for k in range(1, min(len(data), 12)):
            cands.append(([k], None))
            cands.append(([1] * k, None))
        for tr in list(range(0, min(len(data), 16))) + [len(data) - 1]:
            cands.append(([], tr))
            cands.append(([1] * 8, tr))
        for _ in range(40):
            cands.append(([rnd.randint(1, 7) for _ in range(rnd.randint(1, 10))], rnd.choice([None, rnd.randint(0, len(data) - 1)])))
        for sz, tr in cands:
            tried += 1
            v2, r2 = judge(msgs, list(sz), tr)
            if v2:
                out = {'violates': True, 'observed': r2, 'scenario': {'msgs': msgs, 'sizes': sz, 'trunc': tr}, 'found_by_search_after': tried}
                break
        else:
            out['searched'] = tried
    print(json.dumps(out, default=repr))


if __name__ == '__main__':
    main()
