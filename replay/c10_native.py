"""Native replay for C10: runs the REAL pyworkers.remote.send_msg / recv_msg over a scripted socket.
usage: c10_native.py '<json scenario>'   (run under /venv/bin/python with PYTHONPATH=<repo>)
scenario: {"msgs": [...], "sizes": [first read sizes...], "trunc": null | offset, "search": bool, "seed": int}
Prints one JSON line: {"violates": bool, "observed": ..., "scenario": ...}"""
import json
import random
import sys
import threading

from pyworkers.remote import send_msg, recv_msg, ConnectionClosedError


class ScriptSock:
    def __init__(self, data=b'', sizes=()):
        self.data = data
        self.pos = 0
        self.sizes = list(sizes)
        self.out = b''
        self.reads = 0

    def recv(self, n):
        self.reads += 1
        if self.reads > 200000:
            raise SystemExit('spin')
        left = len(self.data) - self.pos
        if left <= 0 or n <= 0:
            return b''
        k = min(n, left)
        if self.sizes:
            k = max(1, min(k, self.sizes.pop(0)))
        b = self.data[self.pos:self.pos + k]
        self.pos += k
        return b

    def sendall(self, b, *flags):
        self.out += b


class ShortWriteSock(ScriptSock):
    """a socket whose send() / sendmsg() accept at most 5 bytes per call and say so (what a full send buffer, a signal or a time-out make of a real one);
    sendall() writes everything, as the real one does"""
    def send(self, b):
        k = min(len(b), 5)
        self.out += bytes(b[:k])
        return k

    def sendmsg(self, buffers, *rest):
        data = b''.join(bytes(x) for x in buffers)
        k = min(len(data), 5)
        self.out += data[:k]
        return k


class Interrupted(BaseException):
    """stands for an asynchronous exception (a graceful terminate) surfacing in the sending thread"""


class SecondCallInterrupted(ScriptSock):
    """the first socket call of a message goes through; if the sender comes back for a second one, the asynchronous exception lands first (between two
    statements of send_msg, where the interpreter delivers it)"""
    calls = 0

    def _call(self):
        self.calls += 1
        if self.calls > 1:
            raise Interrupted()

    def sendall(self, b, *flags):
        self._call()
        self.out += bytes(b)

    def send(self, b, *flags):
        self._call()
        self.out += bytes(b)
        return len(b)

    def sendmsg(self, buffers, *rest):
        self._call()
        data = b''.join(bytes(x) for x in buffers)
        self.out += data
        return len(data)


def frame_bytes(msgs, cls=ScriptSock):
    s = cls()
    for m in msgs:
        send_msg(s, m)
    return s.out


def run_recv(data, sizes, count, timeout=3.0):
    s = ScriptSock(data, sizes)
    res = {'received': [], 'error': None, 'hung': False}

    def work():
        try:
            for _ in range(count):
                res['received'].append(recv_msg(s))
        except ConnectionClosedError:
            res['error'] = 'ConnectionClosedError'
        except SystemExit as e:
            res['error'] = 'spin(>200000 recv calls)'
            res['hung'] = True
        except BaseException as e:
            res['error'] = type(e).__name__ + ': ' + str(e)[:100]
    t = threading.Thread(target=work, daemon=True)
    t.start()
    t.join(timeout)
    if t.is_alive():
        res['hung'] = True
        res['error'] = f'still running after {timeout}s'
        s.reads = 10 ** 9   # make it stop
    res['pos'] = s.pos
    return res


def judge(msgs, sizes, trunc):
    data = frame_bytes(msgs)
    # the sender side: whatever primitive send_msg uses, every byte of every message is on the wire when it returns - also over a socket whose
    # send()/sendmsg() write short
    # size: the framing carries any message whose pickle fits the 4-byte length - there is no smaller limit on either side
    big = ['x' * (5 << 20)]
    rb = run_recv(frame_bytes(big), [], 1, timeout=20)
    if rb['error'] is not None or rb['received'] != big:
        return True, {'received': [], 'error': f'a message of 5 MiB was not delivered: {rb["error"]!r} (received {len(rb["received"])} message(s))', 'hung': rb['hung'], 'pos': rb['pos']}
    # failure classification: ANY failure of the socket while sending is reported as ConnectionClosedError (what the server's accept loop, the context
    # helper and the workers' clean-up paths are prepared for) - also errors that are not ConnectionError subclasses, e.g. EBADF on a socket another
    # thread has just closed
    import errno
    for err in (OSError(errno.EBADF, 'Bad file descriptor'), BrokenPipeError(), ConnectionResetError(), TimeoutError('timed out')):
        class FailingSock(ScriptSock):
            def sendall(self, b, *flags):
                raise err
            send = sendall

            def sendmsg(self, buffers, *rest):
                raise err
        try:
            send_msg(FailingSock(), msgs[0])
            return True, {'received': [], 'error': f'send_msg returned normally although the socket raised {err!r}', 'hung': False, 'pos': 0}
        except ConnectionClosedError:
            pass
        except BaseException as e:     # noqa
            return True, {'received': [], 'error': f'send_msg let {type(e).__name__}({e}) escape when the socket failed with {err!r}; every socket failure must surface as '
                                                   f'ConnectionClosedError', 'hung': False, 'pos': 0}
    # atomicity: a terminate landing inside send_msg leaves whole frames only on the wire (a message is handed over by ONE socket call)
    s = SecondCallInterrupted()
    sent_whole = 0
    try:
        for m in msgs:
            s.calls = 0
            send_msg(s, m)
            sent_whole += 1
    except Interrupted:
        pass
    boundary = len(frame_bytes(msgs[:sent_whole]))
    if len(s.out) != boundary:
        return True, {'received': [], 'error': f'send_msg needs more than one socket call per message: a terminate landing between them (after message {sent_whole}) leaves '
                                               f'{len(s.out) - boundary} bytes of a frame on the wire - a stump the peer takes for the start of the next message',
                      'hung': False, 'pos': 0}
    short = frame_bytes(msgs, ShortWriteSock)
    if short != data:
        return True, {'received': [], 'error': f'send_msg over a socket whose send()/sendmsg() accept 5 bytes per call put {len(short)} bytes on the wire and returned '
                                               f'normally; the messages take {len(data)} bytes', 'hung': False, 'pos': 0}
    # framing as the property states it: 4-byte big-endian length + body per message
    if trunc is None:
        r = run_recv(data, sizes, len(msgs))
        ok = (r['error'] is None and r['received'] == msgs and r['pos'] == len(data))
        return (not ok), r
    cut = data[:trunc]
    # messages wholly contained in the cut must still arrive; then ConnectionClosedError, promptly
    whole = 0
    off = 0
    for m in msgs:
        fl = len(frame_bytes([m]))
        if off + fl <= trunc:
            whole += 1
            off += fl
        else:
            break
    r = run_recv(cut, sizes, whole + 1)
    ok = (r['received'] == msgs[:whole] and r['error'] == 'ConnectionClosedError' and not r['hung'])
    return (not ok), r


def main():
    sc = json.loads(sys.argv[1])
    msgs = [tuple(m) if isinstance(m, list) else m for m in sc.get('msgs', [['hello', 1]])]
    sizes = sc.get('sizes', [])
    trunc = sc.get('trunc')
    v, r = judge(msgs, sizes, trunc)
    out = {'violates': v, 'observed': r, 'scenario': {'msgs': msgs, 'sizes': sizes, 'trunc': trunc}}
    if not v and sc.get('search'):
        rnd = random.Random(sc.get('seed', 0))
        data = frame_bytes(msgs)
        tried = 0
        cands = []
        for k in range(1, min(len(data), 12)):
            cands.append(([k], None))
            cands.append(([1] * k, None))
        for tr in list(range(0, min(len(data), 16))) + [len(data) - 1]:
            cands.append(([], tr))
            cands.append(([1] * 8, tr))
        for _ in range(40):
            cands.append(([rnd.randint(1, 7) for _ in range(rnd.randint(1, 10))], rnd.choice([None, rnd.randint(0, len(data) - 1)])))
        for sz, tr in cands:
            tried += 1
            v2, r2 = judge(msgs, list(sz), tr)
            if v2:
                out = {'violates': True, 'observed': r2, 'scenario': {'msgs': msgs, 'sizes': sz, 'trunc': tr}, 'found_by_search_after': tried}
                break
        else:
            out['searched'] = tried
    print(json.dumps(out, default=repr))


if __name__ == '__main__':
    main()
