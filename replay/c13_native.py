"""Native replay for C13: remote_pickle vs pickle on values of non-opt-in types, incl. types pickled through copyreg."""
import copyreg
import datetime
import decimal
import json
import pickle
import re
import sys

import pyworkers.remote_pickle as rp


def main():
    viol = []
    samples = [re.compile('a+b'), 12, 'x', (1, [2, {3: 4}]), datetime.date(2020, 1, 2), decimal.Decimal('1.5'), complex(1, 2),
               ValueError('a', 1), {1, 2}, frozenset([1]), range(3)]
    for remote in (True, False):
        for v in samples:
            try:
                std = pickle.loads(pickle.dumps(v))
            except Exception as e:       # noqa
                continue
            try:
                got = rp.loads(rp.dumps(v, remote=remote))
                same = (got == std) or (repr(got) == repr(std))
                if not same:
                    viol.append(f'remote={remote}: {v!r} round-trips to {got!r}, standard pickle gives {std!r}')
            except Exception as e:       # noqa
                viol.append(f'remote={remote}: remote_pickle fails on {v!r} ({type(e).__name__}: {e}) although pickle handles it')
    # table level: every copyreg-registered type must be looked up like copyreg does
    import io
    for remote in (True, False):
        p = rp.RemotePickler(io.BytesIO(), remote=remote)
        for t, red in list(copyreg.dispatch_table.items()):
            try:
                r = p.dispatch_table[t]
                if r is not red:
                    viol.append(f'remote={remote}: table maps {t.__name__} to {r!r}, copyreg to {red!r}')
            except KeyError:
                viol.append(f'remote={remote}: table has no entry for {t.__name__} although copyreg.dispatch_table has')
    viol += optin_sweep()
    viol += protocol_sweep()
    print(json.dumps({'violates': bool(viol), 'violations': viol[:8], 'scenario': json.loads(sys.argv[1])}))


class AskedProtocol:
    """does not opt in; records the protocol its __reduce_ex__ is asked for"""
    def __init__(self, seen=None):
        self.seen = seen

    def __reduce_ex__(self, protocol):
        return (AskedProtocol, (protocol,))


class Slotted:
    """__slots__ without __getstate__: standard pickle refuses it below protocol 2"""
    __slots__ = ('a',)

    def __init__(self):
        self.a = 1


def protocol_sweep():
    """L4: dump / dumps with every protocol (None, 0 .. HIGHEST) must do what pickle does with that protocol"""
    import io
    out = []

    def outcome(fn):
        try:
            return ('ok', fn())
        except Exception as e:     # noqa
            return ('raises', type(e).__name__)
    for remote in (True, False):
        for proto in [None] + list(range(0, pickle.HIGHEST_PROTOCOL + 1)):
            std = outcome(lambda: pickle.loads(pickle.dumps([AskedProtocol(), 1], protocol=proto))[0].seen)
            got = outcome(lambda: rp.loads(rp.dumps([AskedProtocol(), 1], protocol=proto, remote=remote))[0].seen)
            if std != got:
                out.append(f'dumps(protocol={proto!r}, remote={remote}): a non-opt-in object is asked to reduce itself for protocol {got}, standard pickle asks for {std}')

            def via_dump():
                b = io.BytesIO()
                rp.dump([AskedProtocol(), 1], b, protocol=proto, remote=remote)
                return rp.loads(b.getvalue())[0].seen
            got = outcome(via_dump)
            if std != got:
                out.append(f'dump(protocol={proto!r}, remote={remote}): a non-opt-in object is asked to reduce itself for protocol {got}, standard pickle asks for {std}')
            std = outcome(lambda: type(pickle.loads(pickle.dumps(Slotted(), protocol=proto))).__name__)
            got = outcome(lambda: type(rp.loads(rp.dumps(Slotted(), protocol=proto, remote=remote))).__name__)
            if std != got:
                out.append(f'dumps(protocol={proto!r}, remote={remote}) of a __slots__ object without __getstate__: {got}, standard pickle: {std}')
    return out[:6]


def optin_sweep():
    """L3 on real classes: generated single-inheritance chains (depth <= 4) whose members define nothing / a reduce hook / a plain __getstate__ /
    a **kwargs pass-through __getstate__ / a remote-aware __getstate__.  issubclass(C, SupportRemoteGetState) must be what the property text says:
    no class below object defines a reduce hook and one has a remote-aware __getstate__; a remote-aware class below a plain one (more derived plain)
    is rejected with a Warning; and a class that does not opt in pickles exactly like standard pickle."""
    import itertools
    out = []
    KINDS = ('none', 'reduce', 'plain', 'varkw', 'remote')

    def body(kind):
        if kind == 'reduce':
            return {'__reduce__': lambda self: (object.__new__, (type(self),))}
        if kind == 'plain':
            return {'__getstate__': lambda self: dict(self.__dict__)}
        if kind == 'varkw':
            return {'__getstate__': lambda self, **kw: dict(self.__dict__)}
        if kind == 'remote':
            return {'__getstate__': lambda self, remote=False: dict(self.__dict__, seen_remote=remote)}
        return {}
    n = 0
    for depth in (1, 2, 3, 4):
        for chain in itertools.product(KINDS, repeat=depth):
            # chain[0] is the most derived class; build from the root
            cls = object
            for i, kind in enumerate(reversed(chain)):
                cls = type(f'K{n}_{i}', (cls,), body(kind))
            n += 1
            mro_kinds = list(chain)         # in MRO order, object excluded
            stop = mro_kinds.index('reduce') if 'reduce' in mro_kinds else len(mro_kinds)
            seen_plain, warn = False, False
            for k in mro_kinds[:stop]:
                if k == 'remote' and seen_plain:
                    warn = True
                    break
                if k == 'plain':
                    seen_plain = True
            expect = ('reduce' not in mro_kinds) and ('remote' in mro_kinds)
            try:
                got = issubclass(cls, rp.SupportRemoteGetState)
                if warn:
                    out.append(f'chain {chain} (most derived first): an inconsistent chain was not rejected with a Warning (answer {got})')
                elif got != expect:
                    out.append(f'chain {chain} (most derived first): issubclass(C, SupportRemoteGetState) is {got}, the property says {expect}')
            except Warning:
                if not warn:
                    out.append(f'chain {chain} (most derived first): a consistent chain was rejected with a Warning')
                else:
                    # a rejection must leave no verdict behind: asked again (the next dump of such an object), the class is rejected again
                    try:
                        again = issubclass(cls, rp.SupportRemoteGetState)
                        out.append(f'chain {chain} (most derived first): rejected with a Warning the first time, but the SECOND question is answered {again} without a '
                                   f'Warning (a later dump would serialise the object silently, without the remote flag)')
                    except Warning:
                        pass
            if len(out) >= 6:
                return out
    return out


if __name__ == '__main__':
    main()
