"""Native replay for C13: remote_pickle vs pickle on values of non-opt-in types, incl. types pickled through copyreg."""
import copyreg
import datetime
import decimal
import json
import pickle
import re
import sys

import pyworkers.remote_pickle as rp


def main():
    viol = []
    samples = [re.compile('a+b'), 12, 'x', (1, [2, {3: 4}]), datetime.date(2020, 1, 2), decimal.Decimal('1.5'), complex(1, 2),
               ValueError('a', 1), {1, 2}, frozenset([1]), range(3)]
    for remote in (True, False):
        for v in samples:
            try:
                std = pickle.loads(pickle.dumps(v))
            except Exception as e:       # noqa
                continue
            try:
                got = rp.loads(rp.dumps(v, remote=remote))
                same = (got == std) or (repr(got) == repr(std))
                if not same:
                    viol.append(f'remote={remote}: {v!r} round-trips to {got!r}, standard pickle gives {std!r}')
            except Exception as e:       # noqa
                viol.append(f'remote={remote}: remote_pickle fails on {v!r} ({type(e).__name__}: {e}) although pickle handles it')
    # table level: every copyreg-registered type must be looked up like copyreg does
    import io
    for remote in (True, False):
        p = rp.RemotePickler(io.BytesIO(), remote=remote)
        for t, red in list(copyreg.dispatch_table.items()):
            try:
                r = p.dispatch_table[t]
                if r is not red:
                    viol.append(f'remote={remote}: table maps {t.__name__} to {r!r}, copyreg to {red!r}')
            except KeyError:
                viol.append(f'remote={remote}: table has no entry for {t.__name__} although copyreg.dispatch_table has')
    print(json.dumps({'violates': bool(viol), 'violations': viol[:8], 'scenario': json.loads(sys.argv[1])}))


if __name__ == '__main__':
    main()
