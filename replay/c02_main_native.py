"""Native replay for C02.Lm: the target lives in an importable module (replay_targets) while the VALUES AND CALLABLES it is given are defined in the main
script (this file).  The server is started the way a real one is - an independent `python -m pyworkers.remote_server` - so nothing re-runs this script in
the backend unless the worker asks for it (main_path).  Thread, process and remote kinds must agree with a direct call."""
import json
import os
import signal
import socket
import subprocess
import sys
import threading
import time

import replay_targets as T

HERE = os.path.dirname(os.path.abspath(__file__))


class Item:
    def __init__(self, label, values):
        self.label = label
        self.values = list(values)


def main_count(label, n):
    return [label] * n


def main_fail(code, what):
    raise ValueError(code, what)


def free_port():
    with socket.socket() as s:
        s.bind(('127.0.0.1', 0))
        return s.getsockname()[1]


def start_server():
    port = free_port()
    env = dict(os.environ)
    proc = subprocess.Popen([sys.executable, '-m', 'pyworkers.remote_server', '--addr', '127.0.0.1', '--port', str(port)],
                            env=env, cwd='/', stdout=subprocess.DEVNULL, stderr=subprocess.DEVNULL, start_new_session=True)
    deadline = time.monotonic() + 30
    while time.monotonic() < deadline:
        if proc.poll() is not None:
            raise RuntimeError('the server exited')
        try:
            with socket.create_connection(('127.0.0.1', port), timeout=1):
                return proc, ('127.0.0.1', port)
        except OSError:
            time.sleep(0.1)
    raise RuntimeError('the server did not come up')


def stop_server(proc):
    try:
        os.killpg(proc.pid, signal.SIGTERM)
        try:
            proc.wait(5)
        except subprocess.TimeoutExpired:
            pass
        os.killpg(proc.pid, signal.SIGKILL)
    except (ProcessLookupError, PermissionError):
        pass


def direct(fn, args, kwargs):
    try:
        return (False, fn(*args, **kwargs), None)
    except Exception as e:     # noqa
        return (True, None, e)


def main():
    sc = json.loads(sys.argv[1])
    viol, obs = [], {}
    proc = None

    def finish():
        if proc is not None:
            stop_server(proc)
        print(json.dumps({'violates': bool(viol), 'violations': viol, 'observed': obs, 'scenario': sc}, default=repr))
        sys.stdout.flush()
        os._exit(0)

    def watchdog():
        viol.append('watchdog: the scenario did not finish within 150 s')
        finish()
    tm = threading.Timer(150, watchdog)
    tm.daemon = True
    tm.start()
    import logging
    logging.disable(logging.CRITICAL)
    from pyworkers.process import ProcessWorker
    from pyworkers.remote import RemoteWorker
    from pyworkers.thread import ThreadWorker
    proc, addr = start_server()
    kinds = {'thread': lambda *a, **k: ThreadWorker(*a, **k), 'process': lambda *a, **k: ProcessWorker(*a, **k),
             'remote': lambda *a, **k: RemoteWorker(*a, host=addr, **k)}
    cases = [('library target, main-script objects among the arguments', T.labels_of, ([Item('a', [1, 2]), Item('b', [])],), {}),
             ('library target, main-script object as keyword argument', T.labels_of, (), {'items': [Item('k', [0, None, ''])]}),
             ('library target calling a main-script function', T.call, (main_count, 'z', 3), {}),
             ('library target calling a main-script function that raises', T.call, (main_fail, 7), {'what': 'boom'}),
             ('library target, plain values (control)', T.add, (2,), {'b': 5}),
             ('main-script target (control)', main_count, ('m', 4), {})]
    for cname, fn, args, kwargs in cases:
        d_err, d_res, d_exc = direct(fn, args, kwargs)
        for kname, mk in kinds.items():
            tag = f'{kname} worker, {cname}'
            try:
                w = mk(fn, args=args, kwargs=kwargs)
                if not w.wait(timeout=30):
                    viol.append(f'{tag}: wait(30) returned False')
                    w.terminate(timeout=1)
                    continue
                he, res, err = w.has_error, w.result, w.error
                obs[tag] = f'has_error={he!r} result={res!r} error={err!r}'
                if d_err:
                    ok = he is True and res is None and type(err) is type(d_exc) and err.args == d_exc.args
                else:
                    ok = he is False and err is None and type(res) is type(d_res) and res == d_res
                if not ok:
                    viol.append(f'{tag}: has_error={he!r} result={res!r} error={err!r}; a direct call gives '
                                + (f'the exception {d_exc!r}' if d_err else f'the result {d_res!r}'))
            except Exception as e:     # noqa
                viol.append(f'{tag}: {type(e).__name__}: {e}')
    finish()


if __name__ == '__main__':
    main()
