"""Native replay for C06: the result stream of a persistent worker must end (consumer blocked in results_iter() wakes up)
however the worker dies.  Scenarios for the remote kind (forwarding loop): backend killed after n results; backend force-killed
by the server (final outcome fabricated by the server, no end marker from the backend)."""
import json
import os
import signal
import sys
import threading
import time

import replay_targets as T


def consume(w, got, done):
    try:
        for r in w.results_iter():
            got.append(r)
    except BaseException as e:      # noqa
        got.append(f'EXC {type(e).__name__}')
    done.set()


def main():
    sc = json.loads(sys.argv[1])
    from pyworkers.persistent_remote import PersistentRemoteWorker
    from pyworkers.remote_server import spawn_server
    viol, obs = [], {}
    want = sc.get('lemma') or ''
    if 'L7' in want:
        # a graceful terminate landing inside PersistentThreadWorker._cleanup: run in a sub-process that has the line injector active in itself
        import subprocess
        here = os.path.dirname(os.path.abspath(__file__))
        injs = sc.get('injections') or []
        line = 'self._results_pipe.child_end.put((self._counter, False'
        if injs and injs[0] and len(injs[0]) > 3 and 'put' not in str(injs[0][3]):
            line = str(injs[0][3])[:40]
        env = dict(os.environ, PYVC_INJECT=f'persistent_thread.py|_cleanup|{line}|WTE||before',
                   PYTHONPATH=os.path.join(here, 'inject') + os.pathsep + os.environ.get('PYTHONPATH', ''))
        p = subprocess.run([sys.executable, os.path.join(here, 'c06_thread_sub.py')], capture_output=True, text=True, timeout=60, env=env, cwd=here)
        try:
            r = json.loads(p.stdout.strip().splitlines()[-1])
        except Exception:
            r = {'violates': False, 'violations': [], 'observed': {'stdout': p.stdout[-500:], 'stderr': p.stderr[-800:]}}
        r['scenario'] = sc
        r['injected_line'] = line
        print(json.dumps(r, default=repr))
        sys.stdout.flush()
        os._exit(0)
    server = spawn_server(('127.0.0.1', 0))
    try:
      if not want or 'L5' in want:
        # D: a graceful terminate reaching the backend before it has run _init_child() (line injector): _cleanup must still work and the outcome must arrive
        os.environ['PYVC_INJECT'] = f"remote.py|_run_backend|self._init_child()|WTE|{os.getpid()}|before"
        os.environ['PYTHONPATH'] = os.path.join(os.path.dirname(os.path.abspath(__file__)), 'inject') + os.pathsep + os.environ.get('PYTHONPATH', '')
        server4 = spawn_server(('127.0.0.1', 0))
        try:
            w4 = PersistentRemoteWorker(T.square, host=server4.addr)
            dead = w4.wait(6)
            time.sleep(0.3)
            from pyworkers.worker import WorkerTerminatedError
            obs['terminate_before_init_child'] = {'dead': dead, 'has_error': w4.has_error, 'error': repr(w4.error)}
            if not dead:
                viol.append('terminate landing before _init_child() in the backend: the worker did not die')
                w4.terminate(timeout=1)
            elif not isinstance(w4.error, WorkerTerminatedError):
                viol.append(f'terminate landing before _init_child() in the remote backend: _cleanup crashed on the missing _counter, the outcome was never sent - '
                            f'dead worker with has_error={w4.has_error!r}, error={w4.error!r} instead of WorkerTerminatedError')
        finally:
            os.environ.pop('PYVC_INJECT', None)
            try:
                server4.terminate(timeout=2, force=True)
            except Exception:
                pass
      if not want or 'L5' not in want:
          # A: child delivers 2 results then is SIGKILLed while the consumer is blocked
          w = PersistentRemoteWorker(T.square, host=server.addr)
          got, done = [], threading.Event()
          threading.Thread(target=consume, args=(w, got, done), daemon=True).start()
          w.enqueue(2); w.enqueue(3)
          time.sleep(0.7)
          os.kill(w.pid, signal.SIGKILL)
          ok = done.wait(6)
          obs['killed_after_results'] = {'got': list(got), 'ended': ok}
          if not ok:
              viol.append(f'backend SIGKILLed after delivering {got}: results_iter() is still blocked 6 s later (no end of stream)')
          elif got != [4, 9]:
              viol.append(f'results are not a correct prefix: {got}')
          # B: uncooperative backend, force-terminated through the server
          w2 = PersistentRemoteWorker(T.swallow_then_square, host=server.addr)
          got2, done2 = [], threading.Event()
          threading.Thread(target=consume, args=(w2, got2, done2), daemon=True).start()
          w2.enqueue(5)
          time.sleep(0.7)
          res = {}
          t = threading.Thread(target=lambda: res.update(r=w2.terminate(timeout=0.5, force=True)), daemon=True)
          t.start(); t.join(10)
          ok2 = done2.wait(6)
          obs['force_terminated'] = {'got': list(got2), 'ended': ok2, 'terminate': res.get('r'), 'has_error': w2.has_error if not t.is_alive() else None}
          if not ok2:
              viol.append('backend force-killed by the server (final outcome fabricated server-side): results_iter() is still blocked 6 s later (no end marker forwarded or fabricated)')
          # C: graceful terminate landing in the backend between "counter incremented" and "result sent" (line injector)
          os.environ['PYVC_INJECT'] = f"persistent_remote.py|_send_result|send_msg(self._socket, (self._counter, True|WTE|{os.getpid()}|before"
          os.environ['PYTHONPATH'] = os.path.join(os.path.dirname(os.path.abspath(__file__)), 'inject') + os.pathsep + os.environ.get('PYTHONPATH', '')
          server2 = spawn_server(('127.0.0.1', 0))
          try:
              w3 = PersistentRemoteWorker(T.square, host=server2.addr)
              got3, done3 = [], threading.Event()
              threading.Thread(target=consume, args=(w3, got3, done3), daemon=True).start()
              w3.enqueue(6)
              ok3 = done3.wait(6)
              dead = w3.wait(5)
              time.sleep(0.3)
              obs['terminate_between_count_and_send'] = {'got': list(got3), 'ended': ok3, 'dead': dead, 'has_error': w3.has_error, 'error': repr(w3.error)}
              if not ok3:
                  viol.append('terminate landing between counter increment and send in the backend: results_iter() still blocked')
              if dead and w3.has_error is None:
                  viol.append('terminate landing between counter increment and send in the backend: the front-end thread dies on its own assert '
                              '(remote_counter == counter) and the dead worker reports has_error None')
          finally:
              os.environ.pop('PYVC_INJECT', None)
              try:
                  server2.terminate(timeout=2, force=True)
              except Exception:
                  pass
    finally:
        try:
            server.terminate(timeout=2, force=True)
        except Exception:
            pass
    print(json.dumps({'violates': bool(viol), 'violations': viol, 'observed': obs, 'scenario': sc}, default=repr))
    sys.stdout.flush()
    os._exit(0)


if __name__ == '__main__':
    main()
