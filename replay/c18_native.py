"""Native replay for the context helper (C18.L3/L4): workers sent to a context run the context's work; deleting the context ends ALL of them."""
import json
import multiprocessing as mp
import os
import sys
import threading
import time

import replay_targets as T


def main():
    sc = json.loads(sys.argv[1])
    viol, obs = [], {}
    from pyworkers.remote_server import spawn_server
    from pyworkers.remote_context import RemoteContext
    from pyworkers.persistent_remote import PersistentRemoteWorker

    def watchdog():
        print(json.dumps({'violates': True, 'violations': viol + ['watchdog: scenario did not finish within 100 s'], 'observed': obs, 'scenario': sc}, default=repr))
        sys.stdout.flush()
        for c in mp.active_children():
            c.kill()
        os._exit(0)
    tm = threading.Timer(100, watchdog)
    tm.daemon = True
    tm.start()
    server = spawn_server(('127.0.0.1', 0))
    try:
        # context ids are arbitrary picklable keys: falsy ones (0, '', False) are ids like any other
        for k, cid in enumerate((0, '', 'ctx', False)):
            c2 = RemoteContext(cid, host=server.addr, target=T.add, args=(0,), kwargs={'b': 100 * (k + 1)})
            try:
                w = PersistentRemoteWorker(None, host=server.addr, context=cid)
                w.enqueue(1)
                v = w.next_result(timeout=5)
                obs[f'id {cid!r}'] = v
                if v != 100 * (k + 1) + 1:
                    viol.append(f'worker created with context id {cid!r} returned {v!r} for input 1 instead of {100 * (k + 1) + 1} (the context\'s target add with its default b={100 * (k + 1)})')
            except Exception as e:     # noqa
                viol.append(f'worker created with context id {cid!r}: {type(e).__name__}: {e}')
            finally:
                c2.wait()
        # registering an id that is taken fails with ValueError and leaves the first context - and its workers - intact
        first = RemoteContext('dup', host=server.addr, target=T.add, args=(0,), kwargs={'b': 10})
        try:
            wa = PersistentRemoteWorker(None, host=server.addr, context='dup')
            second = None
            try:
                second = RemoteContext('dup', host=server.addr, target=T.add, args=(0,), kwargs={'b': 20})
                viol.append('registering a context id that is already taken did not raise ValueError')
            except ValueError:
                pass
            try:
                wb = PersistentRemoteWorker(None, host=server.addr, context='dup')
                wb.enqueue(1)
                v = wb.next_result(timeout=5)
                obs['after_duplicate_registration'] = v
                if v != 11:
                    viol.append(f'after a second registration of the same id a new worker of that id returned {v!r} for input 1 instead of 11 (the FIRST context\'s default b=10)')
                wa.enqueue(2)
                v = wa.next_result(timeout=5)
                if v != 12:
                    viol.append(f'a worker of the first context returned {v!r} for input 2 instead of 12 after the second registration')
            except Exception as e:     # noqa
                viol.append(f'after a second registration of the same id the first context no longer serves its workers: {type(e).__name__}: {e}')
            if second is not None:
                try:
                    second.wait()
                except Exception:     # noqa
                    pass
        finally:
            try:
                first.wait()
            except Exception:     # noqa
                pass
        ctx = RemoteContext(1, host=server.addr, target=T.add, args=(0,), kwargs={'b': 10})
        ws = [PersistentRemoteWorker(None, host=server.addr, context=1) for _ in range(3)]
        vals = []
        for i, w in enumerate(ws):
            w.enqueue(i)
            vals.append(w.next_result(timeout=5))
        obs['values'] = vals
        if vals != [10, 11, 12]:
            viol.append(f'workers of a context did not run the context\'s target with its defaults: {vals} instead of [10, 11, 12]')
        t0 = time.time()
        ok = ctx.close() if False else ctx.wait()
        obs['delete'] = {'returned': ok, 'seconds': round(time.time() - t0, 2)}
        t1 = time.time()
        alive = [True] * len(ws)
        while time.time() - t1 < 6 and any(alive):
            alive = [w.is_alive() for w in ws]
            time.sleep(0.1)
        obs['alive_after_delete'] = alive
        if any(alive):
            viol.append(f'after deleting the context {sum(alive)} of its {len(ws)} workers are still alive (positions {[i for i, a in enumerate(alive) if a]})')
            for w in ws:
                try:
                    w.terminate(timeout=1)
                except Exception:
                    pass
    except Exception as e:     # noqa
        viol.append(f'{type(e).__name__}: {e}')
    finally:
        try:
            server.terminate(timeout=3, force=True)
        except Exception:
            pass
    print(json.dumps({'violates': bool(viol), 'violations': viol, 'observed': obs, 'scenario': sc}, default=repr))
    sys.stdout.flush()
    for c in mp.active_children():
        c.kill()
    os._exit(0)


if __name__ == '__main__':
    main()
