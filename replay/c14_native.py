"""Native replay for C14 / C15 on the real remote_pickle: graph shapes with opt-in objects (bounded: <= 4 opt-in instances, depth <= 3),
every one checked against what standard pickle would rebuild, with a per-instance log of __getstate__(remote=...) / __setstate__ calls;
patches addressed to the top level / a direct child / a nested child; loads after a failed loads."""
import json
import pickle
import sys

from pyworkers import remote_pickle as rp
from pyworkers._remote_pickle.state import RemoteState

LOG = []


class Opt(rp.SupportRemoteGetState):
    def __init__(self, name, **attrs):
        self.name = name
        self.__dict__.update(attrs)

    def __getstate__(self, remote=False):
        LOG.append(('get', self.name, remote))
        return dict(self.__dict__)

    def __setstate__(self, st):
        LOG.append(('set', st.get('name')))
        self.__dict__.update(st)


class NoSet(rp.SupportRemoteGetState):
    """remote-aware __getstate__, no __setstate__"""
    def __init__(self, name, **attrs):
        self.name = name
        self.__dict__.update(attrs)

    def __getstate__(self, remote=False):
        LOG.append(('get', self.name, remote))
        return dict(self.__dict__)


class Duck:
    """not derived from the marker class"""
    def __init__(self, name, **attrs):
        self.name = name
        self.__dict__.update(attrs)

    def __getstate__(self, remote=False):
        LOG.append(('get', self.name, remote))
        return dict(self.__dict__)

    def __setstate__(self, st):
        LOG.append(('set', st.get('name')))
        self.__dict__.update(st)


class Pair(rp.SupportRemoteGetState):
    """non-dict state (a tuple of len(state) items) handed to its own __setstate__"""
    def __init__(self, name, *items):
        self.name = name
        self.items = items

    def __getstate__(self, remote=False):
        LOG.append(('get', self.name, remote))
        return (self.name,) + tuple(self.items)

    def __setstate__(self, st):
        LOG.append(('set', st[0] if isinstance(st, tuple) and st else repr(st)))
        self.name, self.items = st[0], tuple(st[1:])


class Slotted(rp.SupportRemoteGetState):
    """no __setstate__, the (dict, slots) pair of a class with __slots__ as its state"""
    __slots__ = ('name', 's')          # the base class has a __dict__, so instances have both

    def __init__(self, name, s, **attrs):
        self.name = name
        self.s = s
        self.__dict__.update(attrs)

    def __getstate__(self, remote=False):
        LOG.append(('get', self.name, remote))
        return (dict(self.__dict__), {'name': self.name, 's': self.s})


class EmptyState(rp.SupportRemoteGetState):
    """its state is the empty dict (falsy) - and its __setstate__ still has to run: it re-creates what the state does not carry"""
    def __init__(self, name):
        self.name = name
        self.cache = {}

    def __getstate__(self, remote=False):
        LOG.append(('get', 'empty', remote))
        return {}

    def __setstate__(self, st):
        LOG.append(('set', 'empty'))
        self.__dict__.update(st)
        self.name = 'restored'
        self.cache = {}


class Plain:
    def __init__(self, **a):
        self.__dict__.update(a)


class Boom(rp.SupportRemoteGetState):
    def __getstate__(self, remote=False):
        return {}

    def __setstate__(self, st):
        raise ValueError('boom')


def show(o, seen=None):
    seen = seen if seen is not None else {}
    if id(o) in seen:
        return f'<ref {seen[id(o)]}>'
    if isinstance(o, (Opt, NoSet, Duck, Plain)):
        seen[id(o)] = getattr(o, 'name', 'plain')
        return f'{type(o).__name__}({", ".join(f"{k}={show(v, seen)}" for k, v in sorted(o.__dict__.items()))})'
    if isinstance(o, EmptyState):
        seen[id(o)] = 'empty'
        return f'EmptyState({", ".join(f"{k}={show(v, seen)}" for k, v in sorted(o.__dict__.items()))})'
    if isinstance(o, Pair):
        seen[id(o)] = o.name
        return f'Pair({o.name!r}, items={show(o.items, seen)})'
    if isinstance(o, Slotted):
        seen[id(o)] = o.name
        return f'Slotted({o.name!r}, s={show(o.s, seen)}, dict={show(o.__dict__, seen)})'
    if isinstance(o, list):
        return '[' + ', '.join(show(x, seen) for x in o) + ']'
    if isinstance(o, tuple):
        return '(' + ', '.join(show(x, seen) for x in o) + ')'
    if isinstance(o, dict):
        return '{' + ', '.join(f'{k}: {show(v, seen)}' for k, v in o.items()) + '}'
    return repr(o)


def shapes():
    yield 'top', lambda: Opt('p', x=1)
    yield 'top without __setstate__', lambda: NoSet('p', x=1)
    yield 'top duck-typed', lambda: Duck('p', x=1)
    yield 'top with __setstate__ and a 2-tuple state', lambda: Pair('p', 1)
    yield 'top with __setstate__ and a 3-tuple state', lambda: Pair('p', 1, 2)
    yield 'top with __setstate__ and a 1-tuple state', lambda: Pair('p')
    yield 'child with __setstate__ and a 2-tuple state', lambda: Opt('p', a=Pair('a', [1, 2]))
    yield 'top without __setstate__ and a (dict, slots) state', lambda: Slotted('p', 5, x=1)
    yield 'child without __setstate__ and a (dict, slots) state', lambda: Opt('p', a=Slotted('a', 5, x=1))
    yield 'top with __setstate__ and an empty (falsy) state', lambda: EmptyState('e')
    yield 'child with __setstate__ and an empty (falsy) state', lambda: Opt('p', a=EmptyState('e'))
    yield 'one child', lambda: Opt('p', a=Opt('a'))
    yield 'one child without __setstate__', lambda: Opt('p', a=NoSet('a'))
    yield 'two siblings', lambda: Opt('p', a=Opt('a'), b=Opt('b'))
    yield 'three siblings', lambda: Opt('p', a=Opt('a'), b=Opt('b'), c=Opt('c'))
    yield 'two siblings one level down', lambda: Opt('p', m=Opt('m', a=Opt('a'), b=Opt('b')))
    yield 'child in list', lambda: Opt('p', l=[Opt('a')])
    yield 'two in list', lambda: Opt('p', l=[Opt('a'), Opt('b')])
    yield 'child in dict', lambda: Opt('p', d={'k': Opt('a')})
    yield 'child in tuple', lambda: Opt('p', t=(Opt('a'), 1))
    yield 'chain of three', lambda: Opt('p', a=Opt('a', b=Opt('b')))
    yield 'child under plain object', lambda: Opt('p', q=Plain(a=Opt('a')))
    yield 'top-level list of two', lambda: [Opt('a'), Opt('b')]
    yield 'plain top with opt-in attribute', lambda: Plain(a=Opt('a'), x=1)

    def shared():
        s = Opt('s')
        return Opt('p', a=s, l=[s])
    yield 'shared between attribute and list', shared

    def cyc():
        p = Opt('p')
        p.a = Opt('a', back=p)
        return p
    yield 'cycle', cyc

    def shared2():
        s = Opt('s')
        return [Opt('h1', x=s), Opt('h2', x=s)]
    yield 'child shared between two holders (direct attribute of both)', shared2

    def selfref():
        a = Opt('a')
        a.me = a
        return a
    yield 'self reference as a direct attribute', selfref

    def shared_duck():
        s = Duck('s')
        return [Duck('h1', x=s), Duck('h2', x=s)]
    yield 'duck-typed child shared between two holders', shared_duck


def check_shape(label, build, viol, obs):
    LOG.clear()
    g = build()
    want = show(pickle.loads(pickle.dumps(g)))          # what standard pickle rebuilds
    n_opt = sum(1 for x in LOG if x[0] == 'get')
    LOG.clear()
    try:
        data = rp.dumps(g)
        gets = [x for x in LOG if x[0] == 'get']
        LOG.clear()
        back = rp.loads(data)
    except BaseException as e:     # noqa
        viol.append(f'{label}: {type(e).__name__} {str(e)[:80]!r} (standard pickle round-trips this graph)')
        return
    if show(back) != want:
        viol.append(f'{label}: loaded {show(back)} instead of {want}')
    if any(not r for (_, _, r) in gets):
        viol.append(f'{label}: __getstate__ called with remote=False: {gets}')
    if len(gets) != n_opt or len(set(n for (_, n, _) in gets)) != len(gets):
        viol.append(f'{label}: __getstate__ calls {gets}, expected one per opt-in instance ({n_opt})')


def patched(label, build, patches, expect, viol):
    try:
        back = rp.loads(rp.dumps(build()), extra_kwargs=patches)
    except BaseException as e:     # noqa
        viol.append(f'{label}: {type(e).__name__} {str(e)[:80]!r}')
        return
    if show(back) != expect:
        viol.append(f'{label}: patches {patches} gave {show(back)}, expected {expect}')


def main():
    sc = json.loads(sys.argv[1])
    viol, obs = [], {}
    want = sc.get('lemma') or ''
    prop = sc.get('prop', 'C14')
    if prop == 'C14' or not want:
        for label, build in shapes():
            if want.startswith('L2') and 'sibling' not in label:
                continue
            if want.startswith('L4') and '__setstate__' not in label and label != 'top' and not any(w in label for w in ('shared', 'cycle', 'self reference')):
                continue
            check_shape(label, build, viol, obs)
    if prop == 'C15' or not want:
        P = [('top patched', lambda: Opt('p', x=1), {'x': 2}, "Opt(name='p', x=2)"),
             ('one child, root patch', lambda: Opt('p', x=1, a=Opt('a', y=1)), {'x': 2}, "Opt(a=Opt(name='a', y=1), name='p', x=2)"),
             ('one child, child patch', lambda: Opt('p', x=1, a=Opt('a', y=1)), {'a': {'y': 2}}, "Opt(a=Opt(name='a', y=2), name='p', x=1)"),
             ('one child, child replaced', lambda: Opt('p', x=1, a=Opt('a', y=1)), {'a': 'replaced'}, "Opt(a='replaced', name='p', x=1)"),
             ('chain of three, root patch', lambda: Opt('p', x=1, a=Opt('a', x=1, b=Opt('b', x=1))), {'x': 2}, "Opt(a=Opt(b=Opt(name='b', x=1), name='a', x=1), name='p', x=2)"),
             ('chain of three, patch for the middle one', lambda: Opt('p', x=1, a=Opt('a', x=1, b=Opt('b', x=1))), {'a': {'x': 2}}, "Opt(a=Opt(b=Opt(name='b', x=1), name='a', x=2), name='p', x=1)"),
             ('chain of three, nested patch', lambda: Opt('p', a=Opt('a', b=Opt('b', z=1))), {'a': {'b': {'z': 2}}}, "Opt(a=Opt(b=Opt(name='b', z=2), name='a'), name='p')"),
             ('duck-typed child (opts in by the signature of its __getstate__ only), root patch', lambda: Opt('p', x=1, a=Duck('a', x=1)), {'x': 2}, "Opt(a=Duck(name='a', x=1), name='p', x=2)"),
             ('duck-typed child, child patch', lambda: Opt('p', x=1, a=Duck('a', y=1)), {'a': {'y': 2}}, "Opt(a=Duck(name='a', y=2), name='p', x=1)"),
             ('child in list, root patch', lambda: Opt('p', x=1, l=[Opt('a', x=1)]), {'x': 2}, "Opt(l=[Opt(name='a', x=1)], name='p', x=2)"),
             ('child under plain object, root patch', lambda: Opt('p', x=1, q=Plain(a=Opt('a', x=1))), {'x': 2}, "Opt(name='p', q=Plain(a=Opt(name='a', x=1)), x=2)"),
             ('child in dict, root patch', lambda: Opt('p', x=1, d={'k': Opt('a', x=1)}), {'x': 2}, "Opt(d={k: Opt(name='a', x=1)}, name='p', x=2)"),
             ('child without __setstate__, child patch', lambda: Opt('p', a=NoSet('a', y=1)), {'a': {'y': 2}}, "Opt(a=NoSet(name='a', y=2), name='p')")]
        for label, build, patches, expect in P:
            if want.startswith('L5') and 'root patch' not in label:
                continue
            patched(label, build, patches, expect, viol)
        if not want or want.startswith('L1'):
            # independence: a failed loads must not influence the next one on this thread
            try:
                rp.loads(rp.dumps(Opt('p', a=Boom())), extra_kwargs={'x': 1})
                viol.append('a raising __setstate__ did not make loads raise')
            except ValueError:
                pass
            except BaseException as e:     # noqa
                viol.append(f'raising __setstate__: loads raised {type(e).__name__} instead of the ValueError of the object')
            patched('after a failed loads: top patched', lambda: Opt('p', x=1), {'x': 2}, "Opt(name='p', x=2)", viol)
            patched('after a failed loads: no patches', lambda: Opt('p', x=1), None, "Opt(name='p', x=1)", viol)
            try:
                rp.loads(b'\x80\x04garbage', extra_kwargs={'x': 1})
            except BaseException:     # noqa
                pass
            patched('after a corrupt stream: one child, child patch', lambda: Opt('p', x=1, a=Opt('a', y=1)), {'a': {'y': 2}}, "Opt(a=Opt(name='a', y=2), name='p', x=1)", viol)
            # non-dict state with patches: the intended TypeError
            class NonDict(rp.SupportRemoteGetState):
                def __getstate__(self, remote=False):
                    return (1, 2)

                def __setstate__(self, st):
                    self.st = st
            globals()['NonDict'] = NonDict
            NonDict.__qualname__ = 'NonDict'
            try:
                rp.loads(rp.dumps(NonDict()), extra_kwargs={'x': 1})
                viol.append('patching a non-dict state did not raise')
            except TypeError:
                pass
            except BaseException as e:     # noqa
                viol.append(f'patching a non-dict state raised {type(e).__name__} instead of TypeError')
        if not want or want.startswith('Lg') or want.startswith('L1'):
            concurrent_loads(viol, obs)
    print(json.dumps({'violates': bool(viol), 'violations': viol, 'observed': obs, 'scenario': sc}, default=repr))


class Gate(rp.SupportRemoteGetState):
    """child whose __setstate__ parks the loading thread until it is released"""
    parked = None
    release = None

    def __init__(self, name, **attrs):
        self.name = name
        self.__dict__.update(attrs)

    def __getstate__(self, remote=False):
        return dict(self.__dict__)

    def __setstate__(self, st):
        self.__dict__.update(st)
        if Gate.parked is not None and st.get('park'):
            Gate.parked.set()
            Gate.release.wait(10)


def concurrent_loads(viol, obs):
    """two loads with different patches on two threads, interleaved: thread A is parked inside its child's __setstate__ while thread B runs a complete
    patched loads; each must see its own patches only"""
    import threading
    Gate.parked, Gate.release = threading.Event(), threading.Event()
    blob_a = rp.dumps(Opt('pa', x=1, c=Gate('ca', y=1, park=True)))
    blob_b = rp.dumps(Opt('pb', x=1, c=Gate('cb', y=1, park=False)))
    res = {}

    def load(tag, blob, patches):
        try:
            o = rp.loads(blob, extra_kwargs=patches)
            res[tag] = (o.x, o.c.y)
        except BaseException as e:     # noqa
            res[tag] = f'{type(e).__name__}: {e}'
    ta = threading.Thread(target=load, args=('A', blob_a, {'x': 100, 'c': {'y': 101}}))
    ta.start()
    if not Gate.parked.wait(10):
        viol.append('concurrent loads: thread A never reached the __setstate__ of its child')
    tb = threading.Thread(target=load, args=('B', blob_b, {'x': 200, 'c': {'y': 201}}))
    tb.start()
    tb.join(10)
    Gate.release.set()
    ta.join(10)
    Gate.parked = Gate.release = None
    obs['concurrent'] = dict(res)
    if res.get('A') != (100, 101) or res.get('B') != (200, 201):
        viol.append(f'concurrent loads on two threads interfere: thread A (patches x=100, c.y=101) got {res.get("A")!r}, thread B (patches x=200, c.y=201) got {res.get("B")!r}')


if __name__ == '__main__':
    main()
