"""C14 - every opt-in object, wherever it sits, is serialised remotely exactly once (and restored the standard way).

dump side  L5      remote_reduce calls __getstate__(remote=<the pickler's flag>) exactly once per object it reduces and returns the standard reduce value with
                   the restore callable and the child names (the pickler reaches every instance of an opt-in class through its dispatch table: C13).
load side  L4r-*   recreate_obj_and_patch_setstate creates the object the standard way, installs the one-shot wrapper, pushes the child frames.
           L4-*    the wrapper passes the state on exactly once - to the class's __setstate__ if it defines one, else into the instance __dict__ as standard
                   unpickling does (found and fixed: classes without __setstate__ could not be loaded) - removes itself, and closes its frame.
           L2/L3   break_patches / child_restored keep the stack discipline; the protocol step "after break_patches the restore of the first leaf child finds the
                   state child_restored asserts" holds only for ONE opt-in child per parent: known finding F-C14-1 (two opt-in siblings: AssertionError in loads).
           L1-*    the context manager (shared with C15)."""
import z3

from pyvc import smt
from pyvc.values import *  # noqa
from . import rstate

ID = 'C14'
MIN_OBLIGATIONS = 40
TRUSTED = [rstate.T5, 'C13: the pickler dispatches every instance of an opt-in class to remote_reduce', 'T1 dict/list semantics of the symbolic containers']
ASSUMPTIONS = [
    'shape of the loaded graph, shared references and cycles are the pickle machine\'s memo (T5); the contracts cover what pyworkers adds: one __getstate__(remote=True) per reduce, one standard restore per object, and the stack discipline',
    'stand-ins from the repository are used for "a class with __setstate__" (PersistentProcessWorker) and "a class without" (utils.Pipe); nothing in the contracts depends on them beyond the presence of the method',
    'a state of None makes pickle skip BUILD: the wrapper is then never called (T5); not covered',
    'the induction over the order in which pickle visits a graph is T5 plus the step obligations, not a machine-checked induction',
]
MUTANTS = [
    ('pyworkers/_remote_pickle/remote_pickler_3_6.py', "        state = obj.__getstate__(remote=self._remote)\n", "        state = obj.__getstate__()\n", '__getstate__ called without the remote flag'),
    ('pyworkers/_remote_pickle/remote_pickler_3_6.py', "        state = obj.__getstate__(remote=self._remote)\n", "        obj.__getstate__(remote=self._remote)\n        state = obj.__getstate__(remote=self._remote)\n", '__getstate__ called twice'),
    ('pyworkers/_remote_pickle/remote_pickler_3_6.py', "                if RemotePickler36.subject_to_custom_reduce(value):\n                    children_names.append(key)", "                if not RemotePickler36.subject_to_custom_reduce(value):\n                    children_names.append(key)", 'child names are the non-opt-in entries'),
    ('pyworkers/_remote_pickle/state.py', "        RemoteState.break_patches(children_names)\n        return ret", "        return ret", 'child frames are never pushed'),
    ('pyworkers/_remote_pickle/state.py', "            del obj.__setstate__\n", "", 'the one-shot wrapper stays on the instance'),
    ('pyworkers/_remote_pickle/state.py', "            RemoteState.child_restored(obj)\n", "", 'the frame of a restored object is never closed'),
    ('pyworkers/_remote_pickle/state.py', "        cls.decrement_patches_iter()\n", "", 'iter does not step back when a frame is closed'),
    ('pyworkers/_remote_pickle/state.py', "            cls._active_contexts.stack[it+1:it+1] = sub_patches\n", "            cls._active_contexts.stack[it:it] = sub_patches\n", 'child frames pushed in front of the parent frame'),
]


def build(ex):
    rstate.install(ex)
    lemmas = []
    lemmas.append(rstate.reduce_lemma(ex, 'C14', delivery=False))
    lemmas += rstate.setstate_lemmas(ex, 'C14')
    lemmas.append(rstate.break_patches_lemma(ex, 'C14', with_protocol_step=True))
    lemmas.append(rstate.child_restored_lemma(ex, 'C14'))
    lemmas += rstate.context_lemmas(ex, 'C14')
    return lemmas


# F-C14-1 (obligation L2 .../post#2): witnesses for that lemma only; the last three are F-C15-1 (run only when no lemma is selected)
KNOWN_NATIVE = ('two siblings:', 'three siblings:', 'two siblings one level down:',
                'child in list, root patch', 'child under plain object, root patch', 'child in dict, root patch')


def _new(r, lemma=''):
    return [v for v in r.get('violations', []) if lemma.startswith('L2') or not any(v.startswith(k) for k in KNOWN_NATIVE)]


def replay(ob, repo):
    from pyvc.native import run_script
    lemma = ob['lemma'].split(' ')[0].split('.')[-1]
    r = run_script('c14_native.py', {'prop': 'C14', 'lemma': lemma}, repo, timeout=120)
    r['violations_not_in_known_findings'] = _new(r, lemma)
    return bool(r['violations_not_in_known_findings']), r


def replay_file(path, repo):
    import json
    from pyvc.native import run_script
    r = run_script('c14_native.py', {'prop': 'C14'}, repo, timeout=120)
    print(json.dumps(r, indent=1, default=str))
    if _new(r):
        print(f'VIOLATION property=C14 replay={path}')
        return 1
    return 0
