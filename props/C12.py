"""C12 - stopping the server reaps its children and every parent finds out.

L1  RemoteServer.run's finally block invokes terminate(timeout=1, force=True) on the child at an arbitrary position and on the
    context under an arbitrary key, SIGTERM if still alive, a failure of one not skipping the others (shared cone, props/C11.py).
L2a the SIGTERM handler signals every live member of self.children (loop contract of install_handlers.<cleanup>).
L4  at EVERY statement boundary of run() (where the handler may run) a registered child on which terminate() has not been invoked
    yet is still a member of self.children (at-all-points obligation; also a loop invariant of both loops).
L2b/L3 (context helpers and their workers exit through pipe EOF; the parent side turns a closed or answered data socket into a
    final result) are compositions with the persistent-process and C01 cones and are NOT re-proved here (see ASSUMPTIONS)."""
import z3

from pyvc import smt
from pyvc.smt import Val, ValList, SeqVal
from pyvc.values import *  # noqa
from pyvc.contracts import Contract, Loop
from . import common, server, C11 as _c11
from .server import RS, F

ID = 'C12'
MIN_OBLIGATIONS = 40
TRUSTED = _c11.TRUSTED + ['os.kill(pid, SIGTERM) delivers SIGTERM; a process that neither blocks nor handles it ends (T4)']
ASSUMPTIONS = _c11.ASSUMPTIONS + [
    'L2b: context helper processes and the workers inside a context are not signalled by the handler; they end because PersistentProcessWorker.do_work leaves its loop on pipe EOF when the server dies and RemoteContextWorker.do_work then runs _create_worker(_clean=True) (design probe P-17 observed all descendants gone within 3 s); not under contract in this round',
    'L3: that each parent-side worker becomes dead with has_error True (WorkerTerminatedError if the child could report) is the composition of the server-side forced terminate answering/closing the data socket with C10 and C01.L2; the server-side RemoteWorker.terminate is in the C04 cone',
    '"shortly afterwards" and OS process-table facts are T4/T9',
]
MUTANTS = [m for m in _c11.MUTANTS if 'terminate' in m[3] or 'signalled' in m[3] or 'forget' in m[3]] + [
    ('pyworkers/remote_server.py', "            for child in self.children:\n                if child.is_alive():\n                    os.kill(child.pid, signal.SIGTERM)\n\n            self.children.clear()",
     "            self.children.clear()\n            for child in self.children:\n                if child.is_alive():\n                    os.kill(child.pid, signal.SIGTERM)\n", 'SIGTERM handler forgets the children before signalling them'),
    ('pyworkers/remote_server.py', "            self.children.clear()\n            self.contexts.clear()\n\n        logger.info('Remote server closed')", "        logger.info('Remote server closed')", None),
]
MUTANTS = [m for m in MUTANTS if m[3] is not None]


def build(ex):
    server.install(ex)
    run = _c11.build_run_contract(ex, 'C12')

    def closure_env(ex_, frame):
        env = {}
        server.server_state(ex_, env)
        a = ex_.heap[env['self'].addr].attrs
        ch = ex_.alloc(HSymList(ex_.fresh('children', SeqVal)))
        ex_.heap[ch.addr].elem_hint = ('abs', 'RCtx')
        a['children'] = ch
        ex_.ghost['__specenv__'] = env
        env['children0'] = VSeq(ex_.heap[ch.addr].seq)
        return {'self': env['self']}

    def signalled(c):
        ex_ = c.ex
        env = ex_.ghost['__specenv__']
        s = env['children0'].e
        p0 = env['p0'].e
        x = Val.vakey(s[p0])
        pid = Val.v_tup(smt.mk_list([Val.v_str(z3.IntVal(smt.str_code('<pid of>'))), x]))
        return z3.Implies(z3.And(p0 >= 0, p0 < z3.Length(s)),
                          z3.Or(z3.Not(F(ex_, 'RCtx', VAbs('RCtx', x), 'alive')), z3.Select(ex_.ghost['killed_pids'], pid)))
    signalled.__doc__ = 'the child at an arbitrary position p0 of self.children is dead or has been sent SIGTERM'

    def loop_inv(c):
        ex_ = c.ex
        env = ex_.ghost['__specenv__']
        s = env['children0'].e
        p0 = env['p0'].e
        i = c.env['__i__'].e
        x = Val.vakey(s[p0])
        pid = Val.v_tup(smt.mk_list([Val.v_str(z3.IntVal(smt.str_code('<pid of>'))), x]))
        return z3.Implies(z3.And(p0 >= 0, p0 < i),
                          z3.Or(z3.Not(F(ex_, 'RCtx', VAbs('RCtx', x), 'alive')), z3.Select(ex_.ghost['killed_pids'], pid)))
    loop_inv.__doc__ = 'children before position __i__ are dead or signalled'

    def same_list(c):
        ex_ = c.ex
        env = ex_.ghost['__specenv__']
        return c.env['__seq__'].e == env['children0'].e
    same_list.__doc__ = 'the loop runs over self.children as it was when the handler started'
    ex.ext_models['signal.signal'] = lambda ex_, a, k: NONE
    L2a = Contract(
        RS + '.install_handlers.<cleanup>', lid='L2a', name='C12.L2a the SIGTERM handler signals every live member of self.children before re-raising the signal',
        closure_env=closure_env, self_class=RS, params={'args': ('const', VTuple([]))},
        ensures=[signalled], raises={}, raises_only=[],
        loops={0: Loop(invariant=[loop_inv, same_list], variant='__n__ - __i__', modifies=['ghost:killed_pids', 'abs:RCtx.alive'])},
        options={'recv_closed_check': False})
    return [(run, None), (L2a, None)]


def replay(ob, repo):
    from pyvc.native import run_script
    r = run_script('c12_native.py', {}, repo, timeout=150)
    return bool(r.get('violates')), r


def replay_file(path, repo):
    import json
    from pyvc.native import run_script
    r = run_script('c12_native.py', {}, repo, timeout=150)
    print(json.dumps(r, indent=1, default=str))
    if r.get('violates'):
        print(f'VIOLATION property=C12 replay={path}')
        return 1
    return 0
