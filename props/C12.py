"""C12 - stopping the server reaps its children and every parent finds out.

L1  RemoteServer.run's finally block invokes terminate(timeout=1, force=True) on the child at an arbitrary position and on the
    context under an arbitrary key, SIGTERM if still alive, a failure of one not skipping the others (shared cone, props/C11.py).
L2a the SIGTERM handler signals every live member of self.children (loop contract of install_handlers.<cleanup>) and nothing but
    members of self.children and the server itself (frame obligation at every os.kill of the handler: a context helper that is
    killed cannot terminate the workers it created, which is the only way they end - see L2b).
L4  at EVERY statement boundary of run() (where the handler may run) a registered child on which terminate() has not been invoked
    yet is still a member of self.children (at-all-points obligation; also a loop invariant of both loops).
L2b/L3 (context helpers and their workers exit through pipe EOF; the parent side turns a closed or answered data socket into a
    final result) are compositions with the persistent-process and C01 cones and are NOT re-proved here (see ASSUMPTIONS)."""
import z3

from pyvc import smt
from pyvc.smt import Val, ValList, SeqVal
from pyvc.values import *  # noqa
from pyvc.contracts import Contract, Loop
from . import common, server, C11 as _c11
from .server import RS, F

ID = 'C12'
MIN_OBLIGATIONS = 40
TRUSTED = _c11.TRUSTED + ['os.kill(pid, SIGTERM) delivers SIGTERM; a process that neither blocks nor handles it ends (T4)']
ASSUMPTIONS = _c11.ASSUMPTIONS + [
    'L2b: context helper processes and the workers inside a context are not signalled by the handler (that much is checked: L2a frame obligation); they end because PersistentProcessWorker.do_work leaves its loop on pipe EOF when the server dies and RemoteContextWorker.do_work then runs _create_worker(_clean=True) (design probe P-17 observed all descendants gone within 3 s); not under contract in this round',
    'L3: that each parent-side worker becomes dead with has_error True (WorkerTerminatedError if the child could report) is the composition of the server-side forced terminate answering/closing the data socket with C10 and C01.L2; the server-side RemoteWorker.terminate is in the C04 cone',
    '"shortly afterwards" and OS process-table facts are T4/T9',
]
MUTANTS = [m for m in _c11.MUTANTS if 'terminate' in m[3] or 'signalled' in m[3] or 'forget' in m[3]] + [
    ('pyworkers/remote_server.py', "            for child in self.children:\n                if child.is_alive():\n                    os.kill(child.pid, signal.SIGTERM)\n\n            self.children.clear()",
     "            self.children.clear()\n            for child in self.children:\n                if child.is_alive():\n                    os.kill(child.pid, signal.SIGTERM)\n", 'SIGTERM handler forgets the children before signalling them'),
    ('pyworkers/remote_server.py', "            self.children.clear()\n            self.contexts.clear()\n\n        logger.info('Remote server closed')", "        logger.info('Remote server closed')", None),
    ('pyworkers/remote_server.py', "            self.children.clear()\n            signal.signal(signal.SIGTERM, signal.SIG_DFL)",
     "            for ctx in self.contexts.values():\n                if ctx.is_alive():\n                    os.kill(ctx.pid, signal.SIGTERM)\n            self.children.clear()\n            signal.signal(signal.SIGTERM, signal.SIG_DFL)",
     'SIGTERM handler also kills the context helpers (their workers are orphaned)'),
]
MUTANTS = [m for m in MUTANTS if m[3] is not None]


IS_CHILD_PID = z3.Function('is_child_pid', Val, smt.Bool)
OWN_PID = Val.v_str(z3.IntVal(smt.str_code('<pid of the server>')))


def pid_of(key):
    return Val.v_tup(smt.mk_list([Val.v_str(z3.IntVal(smt.str_code('<pid of>'))), key]))


def build(ex):
    server.install(ex)
    run = _c11.build_run_contract(ex, 'C12')
    # a registered context object gives access to its helper process
    ex.abs_classes['RCtx'].attrs['_worker'] = lambda I, o: VAbs('RCtx', Val.v_tup(smt.mk_list([Val.v_str(z3.IntVal(smt.str_code('<helper process of>'))), o.key])))

    def kill_checked(ex_, a, k):
        pid = lower(a[0], ex_)
        ex_.oblige('frame', z3.Or(pid == OWN_PID, IS_CHILD_PID(pid)),
                   'the SIGTERM handler signals only members of self.children and the server itself (a context helper that is killed cannot '
                   'terminate the workers it created: they would outlive the server)', ex_.ghost.get('__cur_node__'),
                   key=('kill-frame', getattr(ex_.ghost.get('__cur_node__'), 'lineno', 0)))
        return server.os_kill(ex_, a, k)

    def children_bound(ex_, fr):
        """is_child_pid is by definition membership of the process in self.children as the handler found it: instantiated at the element the loop binds"""
        env = ex_.ghost['__specenv__']
        seq, i = fr.locals.get('__seq__'), fr.locals.get('__i__')
        if seq is None or i is None:
            return
        ex_.assume(z3.Implies(seq.e == env['children0'].e, IS_CHILD_PID(pid_of(Val.vakey(seq.e[i.e])))))

    def closure_env(ex_, frame):
        env = {}
        server.server_state(ex_, env)
        a = ex_.heap[env['self'].addr].attrs
        ch = ex_.alloc(HSymList(ex_.fresh('children', SeqVal)))
        ex_.heap[ch.addr].elem_hint = ('abs', 'RCtx')
        a['children'] = ch
        ex_.ghost['__specenv__'] = env
        env['children0'] = VSeq(ex_.heap[ch.addr].seq)
        # one registered context (run() has set self.contexts): neither the context nor its helper process is a member of self.children
        ctxkey = Val.v_str(z3.IntVal(smt.str_code('<a registered context>')))
        ctx = VAbs('RCtx', ctxkey)
        helper = ex_.abs_classes['RCtx'].attrs['_worker'](ex_.interp, ctx)
        for o in (ctx, helper):
            server.S(ex_, 'RCtx', o, 'alive', ex_.fresh('ctx_alive', smt.Bool))
            ex_.assume(z3.Not(IS_CHILD_PID(pid_of(o.key))))
        a['contexts'] = ex_.alloc(HDict({'<ctx id>': ctx}))
        ex_.ext_models['os.getpid'] = lambda ex2, a2, k2: VSym(OWN_PID)
        ex_.ext_models['os.kill'] = kill_checked
        return {'self': env['self']}

    def signalled(c):
        ex_ = c.ex
        env = ex_.ghost['__specenv__']
        s = env['children0'].e
        p0 = env['p0'].e
        x = Val.vakey(s[p0])
        pid = Val.v_tup(smt.mk_list([Val.v_str(z3.IntVal(smt.str_code('<pid of>'))), x]))
        return z3.Implies(z3.And(p0 >= 0, p0 < z3.Length(s)),
                          z3.Or(z3.Not(F(ex_, 'RCtx', VAbs('RCtx', x), 'alive')), z3.Select(ex_.ghost['killed_pids'], pid)))
    signalled.__doc__ = 'the child at an arbitrary position p0 of self.children is dead or has been sent SIGTERM'

    def loop_inv(c):
        ex_ = c.ex
        env = ex_.ghost['__specenv__']
        s = env['children0'].e
        p0 = env['p0'].e
        i = c.env['__i__'].e
        x = Val.vakey(s[p0])
        pid = Val.v_tup(smt.mk_list([Val.v_str(z3.IntVal(smt.str_code('<pid of>'))), x]))
        return z3.Implies(z3.And(p0 >= 0, p0 < i),
                          z3.Or(z3.Not(F(ex_, 'RCtx', VAbs('RCtx', x), 'alive')), z3.Select(ex_.ghost['killed_pids'], pid)))
    loop_inv.__doc__ = 'children before position __i__ are dead or signalled'

    def same_list(c):
        ex_ = c.ex
        env = ex_.ghost['__specenv__']
        return c.env['__seq__'].e == env['children0'].e
    same_list.__doc__ = 'the loop runs over self.children as it was when the handler started'
    ex.ext_models['signal.signal'] = lambda ex_, a, k: NONE
    L2a = Contract(
        RS + '.install_handlers.<cleanup>', lid='L2a', name='C12.L2a the SIGTERM handler signals every live member of self.children before re-raising the signal',
        closure_env=closure_env, self_class=RS, params={'args': ('const', VTuple([]))},
        ensures=[signalled], raises={}, raises_only=[],
        loops={0: Loop(invariant=[loop_inv, same_list], variant='__n__ - __i__', modifies=['ghost:killed_pids', 'abs:RCtx.alive'], on_bind=children_bound)},
        options={'recv_closed_check': False})
    return [(run, None), (L2a, None)]


def replay(ob, repo):
    from pyvc.native import run_script
    r = run_script('c12_native.py', {'lemma': ob.get('lemma', ''), 'kind': ob.get('kind', '')}, repo, timeout=200)
    return bool(r.get('violates')), r


def replay_file(path, repo):
    import json
    from pyvc.native import run_script
    r = run_script('c12_native.py', {}, repo, timeout=200)
    print(json.dumps(r, indent=1, default=str))
    if r.get('violates'):
        print(f'VIOLATION property=C12 replay={path}')
        return 1
    return 0
