"""C12 - stopping the server reaps its children and every parent finds out.

L1  RemoteServer.run's finally block invokes terminate(timeout=1, force=True) on the child at an arbitrary position and on the
    context under an arbitrary key, SIGTERM if still alive, a failure of one not skipping the others (shared cone, props/C11.py).
L2a the SIGTERM handler signals every live member of self.children (loop contract of install_handlers.<cleanup>) and nothing but
    members of self.children and the server itself (frame obligation at every os.kill of the handler: a context helper that is
    killed cannot terminate the workers it created, which is the only way they end - see L2b).
L4  at EVERY statement boundary of run() (where the handler may run) a registered child on which terminate() has not been invoked
    yet is still a member of self.children (at-all-points obligation; also a loop invariant of both loops).
L3s the server-side RemoteWorker.terminate (what L1 invokes on every child): truthful; asks the child once; with force=True a child
    that survives the request is sent SIGTERM and the parent is told: exactly one fabricated (False, None) on the data socket, which is
    then closed (unless the connection is already gone); nothing is fabricated for a child that ended by itself.
L2b/L3 (context helpers and their workers exit through pipe EOF; the parent side turns a closed or answered data socket into a
    final result) are compositions with the persistent-process and C01 cones and are NOT re-proved here (see ASSUMPTIONS)."""
import z3

from pyvc import smt
from pyvc.smt import Val, ValList, SeqVal
from pyvc.values import *  # noqa
from pyvc.contracts import Contract, Loop
from . import common, server, C11 as _c11
from .server import RS, F

ID = 'C12'
MIN_OBLIGATIONS = 40
TRUSTED = _c11.TRUSTED + ['os.kill(pid, SIGTERM) delivers SIGTERM; a process that neither blocks nor handles it ends (T4)']
ASSUMPTIONS = _c11.ASSUMPTIONS + [
    'L2b: context helper processes and the workers inside a context are not signalled by the handler (that much is checked: L2a frame obligation); they end because PersistentProcessWorker.do_work leaves its loop on pipe EOF when the server dies (C05/C06 cone, not re-proved here) and RemoteContextWorker.do_work then always runs _create_worker(_clean=True), whose loop terminates every worker of the context (lemmas L2b-L4b / L2b-L4, the contracts of the C18 cone)',
    'L3: that each parent-side worker becomes dead with has_error True (WorkerTerminatedError if the child could report) is the composition of the server-side forced terminate answering/closing the data socket (lemma L3s) with C10 and C01.L2 (the parent turns a closed or answered data socket into a final result); the composition is argued, not one formula',
    '"shortly afterwards" and OS process-table facts are T4/T9',
]
MUTANTS = [m for m in _c11.MUTANTS if 'terminate' in m[3] or 'signalled' in m[3] or 'forget' in m[3]] + [
    ('pyworkers/remote_server.py', "            for child in self.children:\n                if child.is_alive():\n                    os.kill(child.pid, signal.SIGTERM)\n\n            self.children.clear()",
     "            self.children.clear()\n            for child in self.children:\n                if child.is_alive():\n                    os.kill(child.pid, signal.SIGTERM)\n", 'SIGTERM handler forgets the children before signalling them'),
    ('pyworkers/remote_server.py', "            self.children.clear()\n            self.contexts.clear()\n\n        logger.info('Remote server closed')", "        logger.info('Remote server closed')", None),
    ('pyworkers/remote_server.py', "            self.children.clear()\n            signal.signal(signal.SIGTERM, signal.SIG_DFL)",
     "            for ctx in self.contexts.values():\n                if ctx.is_alive():\n                    os.kill(ctx.pid, signal.SIGTERM)\n            self.children.clear()\n            signal.signal(signal.SIGTERM, signal.SIG_DFL)",
     'SIGTERM handler also kills the context helpers (their workers are orphaned)'),
]
MUTANTS += [
    ('pyworkers/remote_server.py', "        signal.signal(signal.SIGTERM, cleanup)\n", "        signal.signal(signal.SIGINT, cleanup)\n", 'the clean-up handler is registered for SIGINT instead of SIGTERM'),
    ('pyworkers/remote_server.py', "                cli.connect(('127.0.0.1', self.addr[1]))", "                cli.connect(('127.0.0.1', self.addr[0]))", 'break_accept connects to a wrong port when bound to 0.0.0.0'),
    ('pyworkers/remote.py', "                        send_msg(self._socket, (False, None), comment='data: force terminate result')\n                        self._socket.close()\n", "                        self._socket.close()\n", 'server-side forced terminate no longer tells the parent'),
    ('pyworkers/remote.py', "            if self._child.is_alive():\n                if force:\n                    self._child.terminate()\n                    self._child.join(timeout)\n                    try:", "            if self._child.is_alive():\n                if True:\n                    self._child.terminate()\n                    self._child.join(timeout)\n                    try:", 'server-side terminate kills without force'),
    ('pyworkers/remote.py', "            alive = self._child.is_alive()\n            if not alive:\n                self._dead = True\n                self._ctrl_comms.parent_end.close()", "            alive = False\n            if not alive:\n                self._dead = True\n                self._ctrl_comms.parent_end.close()", 'server-side terminate always claims the child is dead'),
]
MUTANTS = [m for m in MUTANTS if m[3] is not None]


IS_CHILD_PID = z3.Function('is_child_pid', Val, smt.Bool)
OWN_PID = Val.v_str(z3.IntVal(smt.str_code('<pid of the server>')))


def pid_of(key):
    return Val.v_tup(smt.mk_list([Val.v_str(z3.IntVal(smt.str_code('<pid of>'))), key]))


def build(ex):
    server.install(ex)
    run = _c11.build_run_contract(ex, 'C12')
    # a registered context object gives access to its helper process
    ex.abs_classes['RCtx'].attrs['_worker'] = lambda I, o: VAbs('RCtx', Val.v_tup(smt.mk_list([Val.v_str(z3.IntVal(smt.str_code('<helper process of>'))), o.key])))

    def kill_checked(ex_, a, k):
        pid = lower(a[0], ex_)
        ex_.oblige('frame', z3.Or(pid == OWN_PID, IS_CHILD_PID(pid)),
                   'the SIGTERM handler signals only members of self.children and the server itself (a context helper that is killed cannot '
                   'terminate the workers it created: they would outlive the server)', ex_.ghost.get('__cur_node__'),
                   key=('kill-frame', getattr(ex_.ghost.get('__cur_node__'), 'lineno', 0)))
        return server.os_kill(ex_, a, k)

    def children_bound(ex_, fr):
        """is_child_pid is by definition membership of the process in self.children as the handler found it: instantiated at the element the loop binds"""
        env = ex_.ghost['__specenv__']
        seq, i = fr.locals.get('__seq__'), fr.locals.get('__i__')
        if seq is None or i is None:
            return
        ex_.assume(z3.Implies(seq.e == env['children0'].e, IS_CHILD_PID(pid_of(Val.vakey(seq.e[i.e])))))

    def closure_env(ex_, frame):
        env = {}
        server.server_state(ex_, env)
        a = ex_.heap[env['self'].addr].attrs
        ch = ex_.alloc(HSymList(ex_.fresh('children', SeqVal)))
        ex_.heap[ch.addr].elem_hint = ('abs', 'RCtx')
        a['children'] = ch
        ex_.ghost['__specenv__'] = env
        env['children0'] = VSeq(ex_.heap[ch.addr].seq)
        # one registered context (run() has set self.contexts): neither the context nor its helper process is a member of self.children
        ctxkey = Val.v_str(z3.IntVal(smt.str_code('<a registered context>')))
        ctx = VAbs('RCtx', ctxkey)
        helper = ex_.abs_classes['RCtx'].attrs['_worker'](ex_.interp, ctx)
        for o in (ctx, helper):
            server.S(ex_, 'RCtx', o, 'alive', ex_.fresh('ctx_alive', smt.Bool))
            ex_.assume(z3.Not(IS_CHILD_PID(pid_of(o.key))))
        a['contexts'] = ex_.alloc(HDict({'<ctx id>': ctx}))
        ex_.ext_models['os.getpid'] = lambda ex2, a2, k2: VSym(OWN_PID)
        ex_.ext_models['os.kill'] = kill_checked
        return {'self': env['self']}

    def signalled(c):
        ex_ = c.ex
        env = ex_.ghost['__specenv__']
        s = env['children0'].e
        p0 = env['p0'].e
        x = Val.vakey(s[p0])
        pid = Val.v_tup(smt.mk_list([Val.v_str(z3.IntVal(smt.str_code('<pid of>'))), x]))
        return z3.Implies(z3.And(p0 >= 0, p0 < z3.Length(s)),
                          z3.Or(z3.Not(F(ex_, 'RCtx', VAbs('RCtx', x), 'alive')), z3.Select(ex_.ghost['killed_pids'], pid)))
    signalled.__doc__ = 'the child at an arbitrary position p0 of self.children is dead or has been sent SIGTERM'

    def loop_inv(c):
        ex_ = c.ex
        env = ex_.ghost['__specenv__']
        s = env['children0'].e
        p0 = env['p0'].e
        i = c.env['__i__'].e
        x = Val.vakey(s[p0])
        pid = Val.v_tup(smt.mk_list([Val.v_str(z3.IntVal(smt.str_code('<pid of>'))), x]))
        return z3.Implies(z3.And(p0 >= 0, p0 < i),
                          z3.Or(z3.Not(F(ex_, 'RCtx', VAbs('RCtx', x), 'alive')), z3.Select(ex_.ghost['killed_pids'], pid)))
    loop_inv.__doc__ = 'children before position __i__ are dead or signalled'

    def same_list(c):
        ex_ = c.ex
        env = ex_.ghost['__specenv__']
        return c.env['__seq__'].e == env['children0'].e
    same_list.__doc__ = 'the loop runs over self.children as it was when the handler started'
    ex.ext_models['signal.signal'] = lambda ex_, a, k: NONE
    L2a = Contract(
        RS + '.install_handlers.<cleanup>', lid='L2a', name='C12.L2a the SIGTERM handler signals every live member of self.children before re-raising the signal',
        closure_env=closure_env, self_class=RS, params={'args': ('const', VTuple([]))},
        ensures=[signalled], raises={}, raises_only=[],
        loops={0: Loop(invariant=[loop_inv, same_list], variant='__n__ - __i__', modifies=['ghost:killed_pids', 'abs:RCtx.alive'], on_bind=children_bound)},
        options={'recv_closed_check': False})
    return [(run, None), (L2a, None)] + server_side_terminate(ex) + registration_lemmas(ex) + startup_lemma(ex) + context_cleanup_lemmas(ex)


def context_cleanup_lemmas(ex):
    """L2b: the workers INSIDE a context are reaped by nobody but the context's helper process (the server signals only its own children, L2a): when the helper
    stops serving - deleted, or its pipe from the server at EOF because the server is gone - it runs the clean-up loop, and that loop terminates EVERY worker the
    context created.  These are the contracts of the C18 cone on RemoteContext._create_worker(_clean=True) and RemoteContextWorker.do_work."""
    from . import C18 as _c18
    out = []
    saved_abs, saved_ext, saved_hooks = dict(ex.abs_classes), dict(ex.ext_models), dict(ex.call_hooks)
    built = _c18.build(ex)
    # C18.build re-installs the shared server models; this check's own lemmas keep the instances they were built against
    ex.abs_classes.update(saved_abs)
    ex.ext_models.update(saved_ext)
    ex.call_hooks.update(saved_hooks)
    for con, v in built:
        if con.lid in ('L4', 'L4b'):
            con.name = con.name.replace('C18.' + con.lid, 'C12.L2b-' + con.lid)
            con.lid = 'L2b-' + con.lid
            out.append((con, v))
    return out


def startup_lemma(ex):
    """L6: a backend whose server vanishes while it is still starting up is in nobody's list yet (the server adds the worker to self.children only once
    __setstate__ has returned), so neither run()'s finally block nor the SIGTERM handler can reach it: it must end BY ITSELF.  It does because the start-up
    acknowledgement it waits for on the pipe from the server never arrives (EOF).  Contract on the real RemoteWorker._run_backend: the target is called only
    after that acknowledgement has been received."""
    from . import childrun, workers
    con = childrun.backend_run_contract(ex, 'L6', 'C12')
    inner = con.setup

    def setup(ex_, env):
        workers.install(ex_)          # the child-side models (process handle, identity of the running process) for this lemma only
        inner(ex_, env)
    con.setup = setup

    def ack_before_target(c):
        ex_ = c.ex
        ipos = ex_.abs_classes['Conn'].get(ex_, c.env['comms_child'], 'ipos')
        return z3.Or(ex_.ghost['ncalls'] == 0, ipos >= 1)
    ack_before_target.__doc__ = ('the target is called only after the start-up acknowledgement of the server has been received on the start-up pipe: a backend whose '
                                 'server is gone at that point (EOF / OSError on the pipe) ends without running the target - nobody else could end it, it is not '
                                 'registered anywhere yet')
    con.name = 'C12.L6 RemoteWorker._run_backend never runs the target of a worker whose server vanished during start-up'
    con.all_exits = [ack_before_target]
    return [(con, None)]


def registration_lemmas(ex):
    """L2r: install_handlers registers the clean-up closure of L2a for SIGTERM (and nothing else on this platform); L5: break_accept, which the control
    thread of the server process calls right after raising the terminate request in the main thread, makes one dummy connection to the server's own
    listening address (loop-back when bound to 0.0.0.0) and closes it - that is what lets a blocked accept() return so that the request can surface"""
    from pyvc.contracts import AbsClass
    repo = ex.repo
    out = []

    def ih_setup(ex_, env):
        server.server_state(ex_, env)
        ex_.ghost['registered'] = []

        def sig(ex2, a, k):
            who = a[1]
            ex2.ghost['registered'] = ex2.ghost['registered'] + [(getattr(a[0], 'name', repr(a[0])), who.fi.qualname if isinstance(who, VFunc) else repr(who))]
            return NONE
        ex_.ext_models['signal.signal'] = sig

    def registered_ok(c):
        r = c.ex.ghost['registered']
        return z3.BoolVal(r == [('signal.SIGTERM', RS + '.install_handlers.<cleanup>')])
    registered_ok.__doc__ = 'exactly one handler is registered: the clean-up closure (L2a), for SIGTERM'
    out.append((Contract(RS + '.install_handlers', lid='L2r', name='C12.L2r install_handlers registers the clean-up closure for SIGTERM',
                         params={'self': ('const', None)}, self_class=RS, setup=ih_setup, ensures=[registered_ok], raises={}, raises_only=[],
                         options={'recv_closed_check': False}), None))

    def ba_setup(ex_, env):
        I = ex_.interp
        server.server_state(ex_, env)
        a = ex_.heap[env['self'].addr].attrs
        host, port = I.sym('bound_host'), I.sym('bound_port')
        a['addr'] = VTuple([host, port])
        env['host'], env['port'] = host, port
        ex_.ghost['connected_to'] = []
        ex_.ghost['dummy_closed'] = z3.BoolVal(False)

        def connect(ex2, a2, k):
            ex2.ghost['connected_to'] = ex2.ghost['connected_to'] + [lower(a2[1], ex2)]
            return NONE

        def exit_(ex2, a2, k):
            ex2.ghost['dummy_closed'] = z3.BoolVal(True)
            return VBool(False)
        ex_.abs_classes['DummyCli'] = AbsClass('DummyCli', fields={}, methods={'connect': connect, '__enter__': lambda ex2, a2, k: a2[0], '__exit__': exit_,
                                                                                'close': lambda ex2, a2, k: (ex2.ghost.__setitem__('dummy_closed', z3.BoolVal(True)), NONE)[1]},
                                               text='client socket of the dummy connection')
        ex_.ext_models['socket.socket'] = lambda ex2, a2, k: VAbs('DummyCli', Val.v_str(z3.IntVal(smt.str_code('<dummy client socket>'))))

    def ba_post(c):
        ex_ = c.ex
        ct = ex_.ghost['connected_to']
        if len(ct) != 1:
            return z3.BoolVal(False)
        host, port = c.env['host'].t, c.env['port'].t
        anyaddr = Val.v_str(z3.IntVal(smt.str_code('0.0.0.0')))
        loop = Val.v_str(z3.IntVal(smt.str_code('127.0.0.1')))
        want = Val.v_tup(smt.mk_list([z3.If(host == anyaddr, loop, host), port]))
        return z3.And(ct[0] == want, ex_.ghost['dummy_closed'])
    ba_post.__doc__ = 'one connection is made, to the server\'s own listening address (127.0.0.1 when bound to 0.0.0.0, same port), and the dummy socket is closed'
    out.append((Contract(RS + '.break_accept', lid='L5', name='C12.L5 break_accept makes one dummy connection to the server\'s own address and closes it',
                         params={'self': ('const', None)}, self_class=RS, setup=ba_setup, ensures=[ba_post], raises={}, raises_only=[],
                         options={'recv_closed_check': False}), None))
    return out


def server_side_terminate(ex):
    from . import workers as W
    from pyvc.core import PyRaise
    repo = ex.repo
    RW = 'pyworkers.remote.RemoteWorker'
    PRW = 'pyworkers.persistent_remote.PersistentRemoteWorker'
    out = []

    def setup(cls):
        def su(ex_, env):
            I = ex_.interp
            if 'Proc' not in ex_.abs_classes:
                ex_.abs_classes['Proc'] = W.proc_class()
            ex_.abs_classes['Conn'].methods.setdefault('shutdown', lambda ex2, a, k: NONE)
            child = VAbs('Proc', Val.v_str(z3.IntVal(smt.str_code('<backend process>'))))
            cthread = VAbs('Proc', Val.v_str(z3.IntVal(smt.str_code('<remote control thread>'))))
            pc = ex_.abs_classes['Proc']
            for o in (child, cthread):
                pc.set(ex_, o, 'alive', ex_.fresh('alive0', smt.Bool))
                pc.set(ex_, o, 'joins', z3.IntVal(0))
                pc.set(ex_, o, 'sigterm', z3.BoolVal(False))
            sock = common.new_chan(ex_, 'Conn', 'sock')
            csock = common.new_chan(ex_, 'Conn', 'ctrlsock')
            ctrl, ctends = common.make_pipe(ex_, 'ctrl', 'Pipe')
            attrs = {'_started': VBool(True), '_dead': I.sym('dead0', 'bool'), '_child': child, '_remote_side': VBool(True), '_is_backend': VBool(False),
                     '_socket': sock, '_ctrl_sock': csock, '_ctrl_comms': ctrl, '_ctrl_thread_rem': cthread, '_result': I.sym('result0'),
                     '_closed': I.sym('closed0', 'bool'), '_socket_closed': I.sym('socket_closed0', 'bool')}
            env['self'] = ex_.alloc(HObj(repo.cls(cls), attrs))
            env.update(child=child, cthread=cthread, sock=sock, ctrlq=ctends['parent'])
            t = ex_.fresh('timeout', smt.Real)
            ex_.assume(t >= 0)
            env['timeout'] = VReal(t)
            rt = ex_.fresh('remote_timeout', smt.Real)
            ex_.assume(rt >= 0)
            env['remote_timeout'] = VReal(rt)
            env['force'] = I.sym('force', 'bool')
            env['_release_remote_ctrl'] = I.sym('release_ctrl', 'bool')
            ex_.ghost['__call_hooks__'] = dict(common.MSG_HOOKS)
            ex_.ghost['__call_hooks__']['pyworkers.utils.foreign_raise'] = lambda i2, fi, a, k, n, s: NONE
            ex_.ghost['send_raises'] = {'sock': ['ConnectionClosedError']}
            ex_.ghost['recv_closed_check'] = False
            # a dead worker's control pipe has been closed by the call that found it dead; a live one's is open
            ex_.abs_classes['Conn'].set(ex_, ctends['parent'], 'open', z3.Not(attrs['_dead'].e))
        return su

    def fab():
        return Val.v_tup(smt.mk_list([Val.v_bool(z3.BoolVal(False)), Val.v_none]))

    def post(c):
        ex_ = c.ex
        pc, cc = ex_.abs_classes['Proc'], ex_.abs_classes['Conn']
        a0 = ex_.old['heap'][c.env['self'].addr].attrs
        a1 = ex_.heap[c.env['self'].addr].attrs
        dead0 = a0['_dead'].e
        res = c.env['result'].e
        alive = pc.get(ex_, c.env['child'], 'alive')
        sig = pc.get(ex_, c.env['child'], 'sigterm')
        out = cc.get(ex_, c.env['sock'], 'out')
        out0 = z3.Select(ex_.old['absfields'][('Conn', 'out')], c.env['sock'].key)
        req = cc.get(ex_, c.env['ctrlq'], 'out')
        told = out == z3.Concat(out0, z3.Unit(fab()))
        force = c.env['force'].e
        truthful = z3.And(z3.Implies(z3.Not(dead0), res == z3.Not(alive)), z3.Implies(dead0, res), z3.Implies(res, a1['_dead'].e))
        quiet_when_dead = z3.Implies(dead0, z3.And(out == out0, z3.Length(req) == 0, z3.Not(sig)))
        only_that = z3.Or(out == out0, told)
        fabricated_only_after_kill = z3.Implies(told, z3.And(sig, force))
        killed_means_told = z3.Implies(sig, z3.Or(told, ex_.ghost.get('__send_failed__', z3.BoolVal(False))))
        no_force_no_kill = z3.Implies(z3.Not(force), z3.Not(sig))
        return z3.And(truthful, quiet_when_dead, only_that, fabricated_only_after_kill, killed_means_told, no_force_no_kill)
    post.__doc__ = ('truthful (result == the child is dead, cached); silent on a worker already known dead; the data socket gets nothing but at most one fabricated '
                    '(False, None), only after SIGTERM was sent to the child with force=True, and always then (unless the connection is already closed); no SIGTERM without force')

    def asked_once(c):
        ex_ = c.ex
        cc = ex_.abs_classes['Conn']
        a0 = ex_.old['heap'][c.env['self'].addr].attrs
        req = cc.get(ex_, c.env['ctrlq'], 'out')
        alive_at_entry = ex_.ghost.get('__alive_at_entry__')
        one = z3.And(z3.Length(req) == 1, req[0] == Val.v_str(z3.IntVal(smt.str_code('terminate'))))
        return z3.Or(z3.Length(req) == 0, one)
    asked_once.__doc__ = "the backend's control pipe gets the request 'terminate' at most once and nothing else"

    for cls, tag in ((RW, 'one-shot'), (PRW, 'persistent')):
        def su2(ex_, env, cls=cls):
            setup(cls)(ex_, env)
            # remember whether a send on the data socket failed (ConnectionClosedError): the parent has gone, nobody is left to tell
            orig = common.msg_send_hook

            def send(i2, fi, a, k, n, s):
                try:
                    return orig(i2, fi, a, k, n, s)
                except PyRaise:
                    ex_.ghost['__send_failed__'] = z3.BoolVal(True)
                    raise
            ex_.ghost['__call_hooks__']['pyworkers.remote.send_msg'] = send
        out.append((Contract(RW + '.terminate', lid='L3s', name='C12.L3s server-side terminate: truthful, asks once, a forced kill is reported to the parent on the data socket',
                             params={'self': ('const', None), 'timeout': ('const', None), 'force': ('const', None), 'remote_timeout': ('const', None),
                                     '_release_remote_ctrl': ('const', None)}, self_class=cls, setup=su2, returns='bool',
                             ensures=[post, asked_once], raises={}, raises_only=[], options={'recv_closed_check': False}), (tag, lambda ex_, env: None)))
    return out


def replay(ob, repo):
    from pyvc.native import run_script
    if 'C12.L6' in ob.get('lemma', ''):
        r = run_script('c12_startup_native.py', {'lemma': 'L6'}, repo, timeout=150)
        return bool(r.get('violates')), r
    r = run_script('c12_native.py', {'lemma': ob.get('lemma', ''), 'kind': ob.get('kind', '')}, repo, timeout=200)
    return bool(r.get('violates')), r


def replay_file(path, repo):
    import json
    from pyvc.native import run_script
    r = run_script('c12_native.py', {}, repo, timeout=200)
    print(json.dumps(r, indent=1, default=str))
    if r.get('violates'):
        print(f'VIOLATION property=C12 replay={path}')
        return 1
    return 0
