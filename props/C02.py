"""C02 - all worker kinds compute exactly what a direct call would.

The property is a composition; every link is a contract on the real function that implements it:

  child side   La-<kind>   <Kind>Worker._run / _run_backend: the target is called exactly once with (*args, **kwargs); what is reported is
                           (True, target(*args, **kwargs)) if it returned, (False, e) if it raised the Exception e
  transport    (T5)        pickling round-trips picklable values; C10 for the remote framing
  parent side  Lc-<kind>   _get_result() after death == the reported pair (process: last message of the pipe; remote: first message of
                           the data socket; thread: the attribute the child wrote)
  decode       L1-*        result / error / has_error are the projections of that pair
  not run      Ld          run False / target None: not started, outcome (True, None)     [is_alive False / wait True at once: C04 L3]
  factory      Le          Worker.create / PersistentWorker.create map every WorkerType member to the class of that kind (finite domain,
                           enumerated from the enum's own definition: complete)
  size         Lf          ProcessWorker.wait never waits for the exit of a child that is itself blocked sending a result larger than the
                           pipe buffer (parent reads while it waits) - the deadlock that made large results diverge from a direct call
  main script  Lm          whether a RemoteWorker records the main script for the backend (main_path default) does not depend on target/args/kwargs
                           (structural: dependency analysis of RemoteWorker.__init__): arguments may be main-script objects under a library target
Interchangeability of the kinds is the corollary: each kind's (has_error, result, error) = decode(direct outcome)."""
import ast
import z3

from pyvc import smt
from pyvc.smt import Val, ValList, SeqVal
from pyvc.values import *  # noqa
from pyvc.contracts import Contract, Loop
from pyvc.core import PyRaise, PathEnd, Undecided
from . import common, workers, childrun
from .workers import PW, TW, RW, W

ID = 'C02'
MIN_OBLIGATIONS = 60
PWK = 'pyworkers.persistent.PersistentWorker'
TRUSTED = ['T5 pickle / remote_pickle round-trip picklable targets, arguments, results and exceptions (type and args) unchanged',
           'T3 an OS pipe holds at most its buffer (64 KiB on Linux): a writer of a larger message blocks until the reader reads; a pipe is readable as soon as the writer has started writing',
           'T4 process / thread lifecycle', 'T7 the target is deterministic: apply(target, args, kwargs) is a function of its arguments',
           common.TEXT['chan']]
ASSUMPTIONS = [
    'composition of the links (child report -> transport -> parent read -> decode) is by transitivity of equality and is stated in DESIGN.md, not machine-checked as one formula',
    'the remote transport of (target, args, kwargs) to the backend (RemoteWorker.__getstate__/__setstate__) is trusted under T5; that the backend re-runs the main script whenever the parent has one is lemma Lm (structural); what re-running it makes importable is T5',
    'the error link states that the exception object reported is the one raised; "same type and arguments after pickling" is T5',
]
MUTANTS = [
    ('pyworkers/remote.py', "        if main_path is None:\n            try:\n                main_path = os.path.abspath", "        if main_path is None and getattr(args[0] if args else None, '__module__', None) == '__main__':\n            try:\n                main_path = os.path.abspath", 'the main script is recorded only for main-script targets'),
    ('pyworkers/worker.py', "        return self._target(*args, **kwargs)\n", "        return self._target(*args)\n", 'keyword arguments dropped'),
    ('pyworkers/worker.py', "        return self.run(*self._args, **self._kwargs)\n", "        self.run(*self._args, **self._kwargs)\n        return self.run(*self._args, **self._kwargs)\n", 'target called twice'),
    ('pyworkers/thread.py', "            self._result = (True, self.do_work())\n", "            self._result = (True, self.do_work() or None)\n", 'falsy results of the thread kind become None'),
    ('pyworkers/process.py', "            self._comms.child_end.put(((False, e), self._user_state))", "            self._comms.child_end.put(((False, str(e)), self._user_state))", 'process kind reports the message instead of the exception'),
    ('pyworkers/worker.py', "        graceful, _ = r\n        return not graceful", "        graceful, _ = r\n        return not graceful and _ is not None", 'has_error False for an error whose value is None'),
    ('pyworkers/worker.py', "            cls_name = 'Persistent{}'.format(cls_name)", "            cls_name = 'Persistent{}'.format(cls_name.lower())", 'factory builds a wrong class name for persistent workers'),
    ('pyworkers/worker.py', "        mod_name = worker_type.name.lower()", "        mod_name = 'thread' if worker_type.value == 0 else 'process'", 'factory maps REMOTE to the process kind'),
    ('pyworkers/worker.py', "            self._started = False\n            self._result = (True, None)", "            self._started = False\n            self._result = None", 'a not-run worker has no outcome'),
    ('pyworkers/process.py', "        ready = mp.connection.wait([self._comms.parent_end, self._child.sentinel], timeout)\n", "        ready = mp.connection.wait([self._child.sentinel], timeout)\n", 'wait() watches only the exit of the child again: deadlock on large results'),
    ('pyworkers/remote.py', "            self._result = recv_msg(self._socket, comment='data: result')\n", "            self._result = recv_msg(self._socket, comment='data: result')\n            self._result = (self._result[0], None) if not self._result[1] else self._result\n", 'falsy results of the remote kind become None'),
]


def tup(*xs):
    return Val.v_tup(smt.mk_list(list(xs)))


def direct_outcome(ex, c):
    """the pair a direct call target(*args, **kwargs) would yield, as (flag, value) term"""
    tgt = c.env['target'].t
    val = z3.If(tgt == Val.v_none, Val.v_none, common.apply_f(tgt, c.env['args0'].e, c.env['kw0'].t))
    texc = ex.ghost.get('target_exc')
    if texc is not None:
        return tup(Val.v_bool(z3.BoolVal(False)), lower(texc, ex))
    return tup(Val.v_bool(z3.BoolVal(True)), val)


def build(ex):
    workers.install(ex)
    repo = ex.repo
    lemmas = []
    from . import C01, C16, C19

    # ------------------------------------------------------------------ La child side
    def once(c):
        ex_ = c.ex
        tgt = c.env['target'].t
        return z3.If(tgt == Val.v_none, ex_.ghost['ncalls'] == 0, ex_.ghost['ncalls'] == 1)
    once.__doc__ = 'the target is called exactly once (not at all when it is None)'

    def thread_reports(c):
        ex_ = c.ex
        r = ex_.heap[c.env['self'].addr].attrs['_result']
        if r is NONE:
            return z3.BoolVal(False)
        return lower(r, ex_) == direct_outcome(ex_, c)
    thread_reports.__doc__ = '_result == (True, target(*args, **kwargs)) if the target returned, (False, e) if it raised the Exception e'
    lemmas.append((Contract(
        TW + '._run', lid='La-thread', name='C02.La-thread ThreadWorker._run records exactly the outcome of one direct call',
        params={'self': ('const', None)}, self_class=TW, setup=lambda ex_, env: childrun.thread_child(ex_, env, TW),
        all_exits=[thread_reports, once], raises={}, raises_only=[],
        options={'__opaque_call__': childrun.user_call, 'target_raises': ['AnyException']}), None))
    pr = childrun.process_run_contract(ex, 'La-process', prop='C02')
    pr.ensures.append(once)
    pr.options = dict(pr.options, target_raises=['AnyException'])
    lemmas.append((pr, None))
    lemmas.append((childrun.backend_run_contract(ex, 'La-remote', 'C02'), None))

    # ------------------------------------------------------------------ L1 decode, Lc parent side
    lemmas += C01.decode_lemmas(ex, 'C02')
    l16 = {c.lid: c for c, v in C16.build(ex)}
    lc = l16['L4b']
    lc.lid, lc.name = 'Lc-process', 'C02.Lc-process ProcessWorker._get_result after death == the pair of the LAST message the child wrote (and its user_state)'
    # C02 speaks about outcomes that arrive intact (as Lc-remote below assumes); a final message that cannot be rebuilt in the parent is the subject of C01.L2 and C16.L4*
    lc.options = {k: v for k, v in lc.options.items() if k != 'recv_raises'}
    lemmas.append((lc, None))

    def t_setup(ex_, env):
        r = ex_.interp.sym('recorded')
        env['self'] = ex_.alloc(HObj(repo.cls(TW), {'_result': r}))
        env['r'] = r
    lemmas.append((Contract(TW + '._get_result', lid='Lc-thread', name='C02.Lc-thread ThreadWorker._get_result is the outcome the child recorded',
                            params={'self': ('const', None)}, self_class=TW, setup=t_setup, ensures=['val(result) == val(r)'], raises={}, raises_only=[], modifies=[]), None))

    def fe_setup(ex_, env):
        sock = common.new_chan(ex_, 'Conn', 'data')
        env['self'] = ex_.alloc(HObj(repo.cls(RW), {'_socket': sock, '_result': NONE, '_user_state': ex_.interp.sym('state0')}))
        env['sock'] = sock
        ac = ex_.abs_classes['Conn']
        inq = ac.get(ex_, sock, 'inq')
        ex_.assume(z3.Length(inq) >= 2)              # the backend wrote its pair and its state (La-remote) and both arrive intact
        ac.set(ex_, sock, 'peer_closed', z3.BoolVal(False))
        env['inq'] = VSeq(inq)

    def fetched(c):
        ex_ = c.ex
        h = ex_.heap[c.env['self'].addr].attrs
        inq = c.env['inq'].e
        return z3.And(lower(h['_result'], ex_) == inq[0], lower(h['_user_state'], ex_) == inq[1])
    fetched.__doc__ = '_result == the first message of the data socket (the pair), user_state == the second'
    lemmas.append((Contract(RW + '._fetch_results', lid='Lc-remote', name='C02.Lc-remote RemoteWorker._fetch_results stores exactly the pair and the state the backend sent',
                            params={'self': ('const', None)}, self_class=RW, setup=fe_setup, ensures=[fetched], raises={}, raises_only=[],
                            options={'__call_hooks__': dict(common.MSG_HOOKS), 'recv_closed_check': False}), None))

    # ------------------------------------------------------------------ Ld not-run workers
    l19 = {c.lid: c for c, v in C19.build(ex)}
    ld = l19['L2b']
    ld.lid, ld.name = 'Ld', 'C02.Ld a worker with run False / no target is not started and has the fixed outcome (True, None)'
    ld.ensures = [e for e in ld.ensures if isinstance(e, str) and '_started' in e] + [
        'implies(is_false(run) or (is_none(run) and (is_none(target) or is_false(target))), not self._started)']
    ex.spec_functions['is_false'] = lambda se, x: VBool(lower(x, ex) == Val.v_bool(z3.BoolVal(False)))
    lemmas.append((ld, None))

    # ------------------------------------------------------------------ Le the factory
    wt = repo.cls('pyworkers.worker.WorkerType')
    members = []
    for st in wt.node.body:
        if isinstance(st, ast.Assign) and len(st.targets) == 1 and isinstance(st.targets[0], ast.Name) and isinstance(st.value, ast.Constant):
            members.append((st.targets[0].id, st.value.value))
    EXPECT = {('THREAD', False): 'pyworkers.thread.ThreadWorker', ('PROCESS', False): 'pyworkers.process.ProcessWorker', ('REMOTE', False): 'pyworkers.remote.RemoteWorker',
              ('THREAD', True): 'pyworkers.persistent_thread.PersistentThreadWorker', ('PROCESS', True): 'pyworkers.persistent_process.PersistentProcessWorker',
              ('REMOTE', True): 'pyworkers.persistent_remote.PersistentRemoteWorker'}

    def create_variant(mname, mval, persistent, history=False):
        def su(ex_, env):
            member = ex_.alloc(HObj(wt, {'name': VStr(mname), 'value': VInt(mval), '_name_': VStr(mname), '_value_': VInt(mval)}))
            env['cls'] = VClass(repo.cls(PWK if persistent else W))
            env['worker_type'] = member
            tgt = ex_.interp.sym('target')
            env['args'] = VTuple([tgt])
            kw = {'name': ex_.interp.sym('name'), 'args': ex_.interp.sym('wargs')}
            env['kwargs'] = ex_.alloc(HDict(dict(kw)))
            ex_.ghost['made'] = []
            ex_.ghost['__globals__'] = {('pyworkers.worker', '__name__'): VStr('pyworkers.worker')}
            ex_.ghost['module_attr_errors'] = True

            def import_module(ex2, a, k):
                name = a[0].s
                pkg = k.get('package', a[1] if len(a) > 1 else None)
                full = (pkg.s + name) if name.startswith('.') else name
                if full not in repo.modules:
                    raise PyRaise(VExc('ModuleNotFoundError', [VStr(full)]))
                return VExt('mod:' + full)
            ex_.ext_models['importlib.import_module'] = import_module

            def hook(I2, ci, a, k, node):
                ex_.ghost['made'].append((ci.qualname, list(a), dict(k)))
                return VAbs('Proc', ex_.fresh('new_worker', Val))
            ex_.ghost['__new_hooks__'] = {q: hook for q in repo.classes if repo.is_subclass(repo.cls(q), repo.cls(W))}
            env['expect'] = VStr(EXPECT.get((mname, persistent), '?'))
            env['tgt'] = tgt
            env['kw'] = kw
            # class-level state of Worker that starts as an empty literal (a cache, a registry) exists, empty, at the start of the history
            for cname, expr in repo.cls(W).attrs.items():
                if (W, cname) not in ex_.class_attrs:
                    if isinstance(expr, ast.Dict) and not expr.keys:
                        ex_.class_attrs[(W, cname)] = ex_.alloc(HDict({}))
                    elif isinstance(expr, ast.List) and not expr.elts:
                        ex_.class_attrs[(W, cname)] = ex_.alloc(HList([]))
            if history:
                # an earlier call of the OTHER flavour of the factory for the same member, in the same process (what Pool.add_worker(WorkerType.X) does
                # before user code calls Worker.create(X, ...)): whatever it leaves behind must not change what this call builds
                fi_create, owner = repo.lookup_method(repo.cls(W), 'create')
                other = repo.cls(W if persistent else PWK)
                ex_.interp.call_function(VFunc(fi_create), [VClass(other), member, ex_.interp.sym('earlier_target')], {'name': ex_.interp.sym('earlier_name')},
                                         owner=owner, self_cls=other)
                ex_.ghost['made'] = []
        flav = "PersistentWorker" if persistent else "Worker"
        oth = "Worker" if persistent else "PersistentWorker"
        return (f'{flav}.create({mname})' + (f' after {oth}.create({mname})' if history else ''), su)

    def made_right(c):
        ex_ = c.ex
        made = ex_.ghost['made']
        if len(made) != 1:
            return z3.BoolVal(False)
        q, a, k = made[0]
        ok = q == c.env['expect'].s and len(a) == 1 and a[0] is c.env['tgt'] and set(k) == set(c.env['kw']) and all(k[x] is c.env['kw'][x] for x in k)
        return z3.BoolVal(bool(ok))
    made_right.__doc__ = 'exactly one object is constructed: of the class implementing the requested kind (persistent variant for PersistentWorker.create), with the caller\'s arguments unchanged'
    for persistent in (False, True):
        for mname, mval in members:
            lemmas.append((Contract(W + '.create', lid='Le', name='C02.Le the factory maps every WorkerType member to the class of that kind',
                                    params={'cls': ('const', None), 'worker_type': ('const', None), 'args': ('const', None), 'kwargs': ('const', None)},
                                    self_class=PWK if persistent else W, setup=lambda ex_, env: None,
                                    ensures=[made_right], raises={}, raises_only=[]), create_variant(mname, mval, persistent)))
            lemmas.append((Contract(W + '.create', lid='Le2', name='C02.Le2 the factory builds the class of the requested kind also after the other flavour of the factory has been used in the same process',
                                    params={'cls': ('const', None), 'worker_type': ('const', None), 'args': ('const', None), 'kwargs': ('const', None)},
                                    self_class=PWK if persistent else W, setup=lambda ex_, env: None,
                                    ensures=[made_right], raises={}, raises_only=[]), create_variant(mname, mval, persistent, history=True)))

    def bad_type(ex_, env):
        env['cls'] = VClass(repo.cls(W))
        env['worker_type'] = ex_.interp.sym('not_a_member')
        env['args'] = VTuple([])
        env['kwargs'] = ex_.alloc(HDict({}))
        ex_.ghost['__sym_isinstance__'] = lambda ex2, v, ci: z3.BoolVal(False)
    lemmas.append((Contract(W + '.create', lid='Le-x', name='C02.Le-x the factory rejects anything that is not a WorkerType member',
                            params={'cls': ('const', None), 'worker_type': ('const', None), 'args': ('const', None), 'kwargs': ('const', None)},
                            self_class=W, setup=bad_type, ensures=[lambda c: z3.BoolVal(False)], raises={'TypeError': None}, raises_only=['TypeError']), None))

    # ------------------------------------------------------------------ Lf size: the parent never waits for a child that waits for the parent
    def wait_setup(ex_, env):
        self_v = workers.process_parent(ex_, env)
        a = ex_.heap[self_v.addr].attrs
        a['_dead'] = VBool(False)
        a['_result'] = NONE
        size = ex_.fresh('result_msg_size', smt.Int)
        cap = ex_.fresh('pipe_capacity', smt.Int)          # T3: some finite capacity (64 KiB for os.pipe, about 200 KiB for the socketpair behind mp.Pipe())
        ex_.assume(z3.And(size >= 0, cap >= 0))
        env['size'] = VInt(size)
        g = ex_.ghost
        g['received'] = z3.BoolVal(False)
        g['watched_timed_out'] = False
        g['clock'] = ex_.fresh('t0', smt.Real)
        g['phase_exited'] = z3.BoolVal(False)
        ac, pc = ex_.abs_classes['Conn'], ex_.abs_classes['Proc']
        pc.set(ex_, env['child'], 'alive', z3.BoolVal(True))
        cp = env['comms_parent']
        ac.set(ex_, cp, 'ipos', z3.IntVal(1))                      # the identity message was consumed by _start
        ex_.ghost['chan_elem_inv'] = {'comms.parent': workers.final_msg_inv}

        def is_alive(ex2, a_, k):
            al = pc.get(ex2, a_[0], 'alive')
            return VBool(al)
        pc.methods = dict(pc.methods)
        pc.methods['is_alive'] = is_alive

        def num(t):
            tt, _ = ex_.interp.as_num(t, None)
            return z3.ToReal(tt) if tt.sort() == smt.Int else tt

        def join(ex2, a_, k):
            t = a_[1] if len(a_) > 1 else k.get('timeout', NONE)
            al = pc.get(ex2, a_[0], 'alive')
            zero = z3.BoolVal(False) if t is NONE else (num(t) <= 0)
            closed = ac.get(ex2, cp, 'peer_closed')          # the child closes its end as the last thing it does
            zero = z3.And(zero, z3.BoolVal(bool(g.get('watched_timed_out'))))      # a zero-length join after the pipe was watched for the whole timeout: the child has not started sending
            ex2.oblige('block', z3.Or(z3.Not(al), g['received'], closed, size <= cap, zero),
                       'join() of the child is reached only when the child cannot be blocked sending its result: it has exited, its result message was already '
                       'received, or the message fits the pipe buffer (otherwise parent and child wait for each other: wait() never returns True)',
                       ex2.ghost.get('__cur_node__'), key=('join-deadlock',))
            if t is not NONE:
                d = ex2.fresh('join_elapsed', smt.Real)
                ex2.assume(z3.And(d >= 0, d <= z3.If(num(t) > 0, num(t), 0)))
                g['clock'] = g['clock'] + d
            # the child exits iff it is not stuck
            exits = ex2.fresh('exits_during_join', smt.Bool)
            pc.set(ex2, a_[0], 'alive', z3.And(al, z3.Not(exits)))
            return NONE
        pc.methods['join'] = join

        def conn_wait(ex2, args, k):
            lst = ex2.heap[args[0].addr].items
            t = args[1] if len(args) > 1 else k.get('timeout', NONE)
            outs = ['pipe', 'sentinel'] + ([] if t is NONE else ['timeout'])
            d = outs[ex2.choose(len(outs), 'connection.wait')]
            ex2.note(f'connection.wait:{d}')
            has_pipe = any(x is a['_comms'] or _is_parent_end(ex2, x, a['_comms']) for x in lst)
            if not has_pipe:
                al = pc.get(ex2, env['child'], 'alive')
                ex2.oblige('block', z3.Or(z3.Not(al), g['received'], ac.get(ex2, cp, 'peer_closed'), size <= cap),
                           'waiting for the exit of the child alone (result pipe not watched) happens only when the child cannot be blocked sending its result',
                           ex2.ghost.get('__cur_node__'), key=('wait-deadlock',))
            if d == 'timeout':
                g['clock'] = g['clock'] + num(t)
                if has_pipe:
                    g['watched_timed_out'] = True
                return ex2.alloc(HList([]))
            el = ex2.fresh('wait_elapsed', smt.Real)
            ex2.assume(el >= 0)
            if t is not NONE:
                ex2.assume(el <= num(t))
            g['clock'] = g['clock'] + el
            if d == 'pipe':
                if not has_pipe:
                    raise PathEnd('the result pipe is not in the list')
                ex2.assume(z3.Or(ac.get(ex2, cp, 'ipos') < z3.Length(ac.get(ex2, cp, 'inq')), ac.get(ex2, cp, 'peer_closed')))      # readable: a message or EOF
                return ex2.alloc(HList([x for x in lst if _is_parent_end(ex2, x, a['_comms'])]))
            pc.set(ex2, env['child'], 'alive', z3.BoolVal(False))
            return ex2.alloc(HList([x for x in lst if not _is_parent_end(ex2, x, a['_comms'])]))
        ex_.ghost['__conn_wait__'] = conn_wait
        ex_.ext_models['time.monotonic'] = lambda ex2, a_, k: VReal(g['clock'])
        ex_.ext_models['time.time'] = lambda ex2, a_, k: VReal(g['clock'])
        orig_recv = ac.methods['recv']

        def recv(ex2, a_, k):
            r = orig_recv(ex2, a_, k)
            if a_[0].key.eq(cp.key):
                g['received'] = z3.BoolVal(True)
            return r
        ac.methods = dict(ac.methods)
        ac.methods['recv'] = recv
        ex_.ghost['on_block'] = 'end'

    def _is_parent_end(ex2, x, comms):
        if not isinstance(x, VRef):
            return False
        pe = ex2.heap[comms.addr].attrs['_endpoints'].items[0]
        return x.addr == pe.addr

    def timeout_variants():
        def none(ex_, env):
            env['timeout'] = NONE

        def real(ex_, env):
            t = ex_.fresh('timeout', smt.Real)
            ex_.assume(t >= 0)
            env['timeout'] = VReal(t)
        return [('timeout=None', none), ('timeout real', real)]
    for v in timeout_variants():
        lemmas.append((Contract(PW + '.wait', lid='Lf', name='C02.Lf ProcessWorker.wait does not wait for the exit of a child that is blocked sending a result larger than the pipe buffer',
                                params={'self': ('const', None), 'timeout': ('const', None)}, self_class=PW, setup=wait_setup, returns='bool',
                                raises={}, raises_only=[], options={'recv_closed_check': False}), v))
    lemmas.append((main_path_lemma(ex, t_setup), None))
    lemmas += transport_lemmas(ex)
    workers.install(ex)        # C19.build/C16.build re-register the identity models; the parent/child set-ups need the constant ones
    return lemmas


def transport_lemmas(ex):
    """Lt: the remote kind's outcome travels as framed messages; the composition above takes 'what the backend sent is what the front end receives' from the
    contracts of the C10 cone - send_msg writes exactly one frame, recv_msg returns the framed message under every segmentation and for every size the length
    prefix can express.  They are checked here too (a size limit in recv_msg breaks C02 for large results only)."""
    from . import C10 as _c10
    saved_abs, saved_ext, saved_spec = dict(ex.abs_classes), dict(ex.ext_models), dict(ex.spec_functions)
    built = _c10.build(ex)
    for k_, v_ in saved_abs.items():
        ex.abs_classes[k_] = v_
    for k_, v_ in saved_ext.items():
        ex.ext_models[k_] = v_
    for k_, v_ in saved_spec.items():
        ex.spec_functions[k_] = v_
    out = []
    for con, v in built:
        if con.lid in ('L1', 'L2'):
            con.name = con.name.replace('C10.' + con.lid, 'C02.Lt-' + ('send' if con.lid == 'L1' else 'recv'))
            con.lid = 'Lt-' + ('send' if con.lid == 'L1' else 'recv')
            out.append((con, v))
    return out


def main_path_dependencies(repo):
    """Dependency analysis of RemoteWorker.__init__, re-read from the AST on every run: the names the DEFAULT of main_path (the assignment that reads the
    main module's file) is control- or data-dependent on.  Returns (found, tainted_guards): found = such an assignment exists; tainted_guards = the conditions
    on the way to it that depend on a constructor parameter other than main_path itself (self, *args, host, context, **kwargs) or on a local computed from one."""
    import ast
    fi, _ = repo.lookup_method(repo.cls(RW), '__init__')
    fn = fi.node
    a = fn.args
    params = [x.arg for x in a.posonlyargs + a.args + a.kwonlyargs] + ([a.vararg.arg] if a.vararg else []) + ([a.kwarg.arg] if a.kwarg else [])
    tainted = set(p for p in params if p != 'main_path')

    def names(e):
        return {n.id for n in ast.walk(e) if isinstance(n, ast.Name)}

    def targets(t):
        return {n.id for n in ast.walk(t) if isinstance(n, ast.Name) and isinstance(n.ctx, ast.Store)}
    # data dependencies, to a fixed point (flow-insensitive: an over-approximation of what may depend on the other parameters)
    changed = True
    while changed:
        changed = False
        for n in ast.walk(fn):
            if isinstance(n, (ast.Assign, ast.AugAssign, ast.AnnAssign)) and n.value is not None and names(n.value) & tainted:
                tg = set()
                for t in (n.targets if isinstance(n, ast.Assign) else [n.target]):
                    tg |= targets(t)
                tg.discard('main_path')
                if not tg <= tainted:
                    tainted |= tg
                    changed = True
    found, bad = [], []

    def walk(stmts, guards):
        for s in stmts:
            if isinstance(s, ast.Assign) and 'main_path' in set().union(*[targets(t) for t in s.targets]) and '__main__' in ast.unparse(s.value):
                found.append(s)
                bad.extend(g for g in guards if names(g) & tainted)
                if names(s.value) & tainted:
                    bad.append(s.value)
            if isinstance(s, ast.If):
                walk(s.body, guards + [s.test])
                walk(s.orelse, guards + [s.test])
            elif isinstance(s, (ast.For, ast.While)):
                g = [s.test] if isinstance(s, ast.While) else [s.iter]
                walk(s.body, guards + g)
                walk(s.orelse, guards + g)
            elif isinstance(s, ast.Try):
                walk(s.body, guards)
                for h in s.handlers:
                    walk(h.body, guards)
                walk(s.orelse, guards)
                walk(s.finalbody, guards)
            elif isinstance(s, ast.With):
                walk(s.body, guards)
    walk(fn.body, [])
    return bool(found), [ast.unparse(g) for g in bad]


def main_path_lemma(ex, host_setup):
    def setup(ex_, env):
        host_setup(ex_, env)
        found, bad = main_path_dependencies(ex_.repo)
        if not found:
            raise Undecided('RemoteWorker.__init__: no assignment of main_path from the main module\'s file found (the default is computed elsewhere)')
        ex_.note('guards depending on the other constructor arguments: ' + repr(bad))
        env['n_dependent_guards'] = VInt(len(bad))
    return Contract(TW + '._get_result', lid='Lm',
                    name='C02.Lm whether a RemoteWorker records the main script (main_path default) does not depend on what it is asked to run: target, args and kwargs '
                         'may all refer to objects of the main script, which the backend can rebuild only if it re-runs that script '
                         '(structural: dependency analysis of RemoteWorker.__init__, re-read from the AST each run; hosted on a trivial function)',
                    params={'self': ('const', None)}, self_class=TW, setup=setup, ensures=['n_dependent_guards == 0'], raises={}, raises_only=[], modifies=[])


def replay(ob, repo):
    from pyvc.native import run_script
    if 'C02.Lt-' in ob.get('lemma', ''):
        r = run_script('c02_native.py', {'lemma': 'Lf'}, repo, timeout=300)        # the size cases (incl. 8 MiB) of all three kinds
        return bool(r.get('violates')), r
    if 'C02.Lm' in ob.get('lemma', ''):
        r = run_script('c02_main_native.py', {'lemma': 'Lm'}, repo, timeout=200)
        return bool(r.get('violates')), r
    r = run_script('c02_native.py', {'lemma': ob['lemma'].split(' ')[0].split('.')[-1]}, repo, timeout=300)
    return bool(r.get('violates')), r


def replay_file(path, repo):
    import json
    from pyvc.native import run_script
    r = run_script('c02_native.py', {}, repo, timeout=300)
    print(json.dumps(r, indent=1, default=str))
    if r.get('violates'):
        print(f'VIOLATION property=C02 replay={path}')
        return 1
    return 0
