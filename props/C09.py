"""C09 - no worker outlives its pool; a pool stays usable across runs and restarts.

L1c cleanup_worker(w) (closure of Pool._close): never raises; ends with w observed dead / wait() returned True / terminate(timeout[, force])
    invoked - unless the user disabled forced termination (force is False on a graceful close).  Worker methods may raise anything.
L1  Pool._close: cleanup_worker runs for EVERY registered worker (loop contract over _workers.values(); the closure is used by contract,
    T4: the effects of a started-and-joined thread have happened; the frames of two clean-ups are disjoint so their interleaving is
    irrelevant), every queue is closed afterwards, _pool_closed is set.
L1b __exit__ calls close() or terminate() exactly once on every path.
L4  restart_workers: every worker of the pool is restarted once with a fresh pipe, ends up registered under its NEW id with the parent end
    of that very pipe as its queue; a worker not yet restarted stays registered; nothing but what restart() itself raises escapes - in
    particular for a worker whose queue run() had already dropped on EOF.
L5  add_worker: on failure the new worker (if constructed) is terminated, is not retained by either map, and no previously registered
    worker loses its registration; on success it is registered with the parent end of the pipe it was constructed with.
L2  run() re-initialises its bookkeeping: the run contract of the C07 cone (C07.Lr) checked here from an entry state with arbitrary leftovers.
L3  (closed workers are never handed work) is an obligation of the C07 cone (Lf pre)."""
import z3

from pyvc import smt
from pyvc.smt import Val, ValList, SeqVal
from pyvc.values import *  # noqa
from pyvc.contracts import Contract, Loop, AbsClass
from pyvc.core import PyRaise, Undecided
from . import common

ID = 'C09'
MIN_OBLIGATIONS = 40
P = 'pyworkers.pool.Pool'
TRUSTED = ['T4 thread/process lifecycle: the effects of a thread that was started and joined have happened; a restarted or newly created child has an id (host, pid, native tid) '
           'that no currently registered worker has (kernel ids are not reused while their owner is registered; wrap-around of the tid space is outside the model)',
           'worker handles: terminate(timeout, force not False) leaves process/remote children dead (C04.L4 on top of T4); restart() obeys C17',
           common.TEXT['chan']]
ASSUMPTIONS = [
    'worker handles meet C04 (is_alive/wait/terminate do not raise) and close() fails only when the channel to the child is broken, i.e. the child is gone (L1c); with handles that raise arbitrarily only "nothing escapes the clean-up" is proved (L1x)',
    'single-threaded use of one Pool object (no interference on _workers/_queues between the locked sections of add_worker)',
    'the OS process table ("child process is gone") is T4 applied to C04: the contracts establish that terminate()/wait() were driven for every worker, not the kernel state',
    '"no current id is in _closed" after restart_workers holds relative to id freshness (T4); ids are never removed from _closed',
]
MUTANTS = [
    ('pyworkers/pool.py', "        return self._close(timeout, force, False)", "        return self._close(timeout, force, True)", 'Pool.terminate closes gracefully (waits for stuck workers)'),
    ('pyworkers/pool.py', "                if alive and (force is not False or not graceful):", "                if alive and not graceful:",
     'close() no longer terminates workers that do not finish in time'),
    ('pyworkers/pool.py', "        for worker in self._workers.values():\n            t = threading.Thread(target=cleanup_worker, args=(worker,))",
     "        for worker in self._workers.values():\n            if worker.is_alive():\n                continue\n            t = threading.Thread(target=cleanup_worker, args=(worker,))",
     'live workers are skipped by the clean-up'),
    ('pyworkers/pool.py', "            self._queues.pop(oldid, None)\n", "            self._queues.pop(oldid)\n", 'restart_workers fails for a worker whose queue was already dropped'),
    ('pyworkers/pool.py', "            self._workers[w.id] = w\n            self._queues[w.id] = queue.parent_end", "            self._workers[w.id] = w\n            self._queues[oldid] = queue.parent_end",
     'restarted worker queue registered under the old id'),
    ('pyworkers/pool.py', "        if exc[0] is None:\n            self.close()\n        else:\n            self.terminate()", "        if exc[0] is None:\n            self.close()",
     'pool not terminated when the with-body raises'),
    ('pyworkers/pool.py', "            except Exception:\n                logger.exception('Error occurred while {} {}', 'closing' if graceful else 'terminating', worker)",
     "            except OSError:\n                logger.exception('Error occurred while {} {}', 'closing' if graceful else 'terminating', worker)",
     'an exception in one clean-up escapes its thread'),
    ('pyworkers/pool.py', "                worker.terminate()\n            raise\n", "            raise\n", 'worker constructed by a failed add_worker is not terminated'),
]


def AW(w):
    return w if isinstance(w, VAbs) else VAbs('AW', Val.vakey(w.t))


def F(ex, o, f):
    return ex.abs_classes['AW'].get(ex, AW(o), f)


def S(ex, o, f, v):
    ex.abs_classes['AW'].set(ex, AW(o), f, v)


def raise_(cls):
    raise PyRaise(VExc(cls, []))


def aw_class():
    def maybe_raise(ex, tag, w=None):
        outs = ex.ghost.get('worker_raises', {})
        if tag in outs and ex.choose(2, f'{tag}:raises') == 1:
            ex.note(f'{tag} raises')
            if outs[tag] == 'gone':
                # handle contract (C05/C06): close() fails only because the channel to the child is broken, i.e. the child is gone
                S(ex, w, 'seen_dead', z3.BoolVal(True))
            raise_('AnyException')

    def is_alive(ex, a, k):
        maybe_raise(ex, 'is_alive')
        now = z3.And(F(ex, a[0], 'alive'), ex.fresh('still_alive', smt.Bool))
        S(ex, a[0], 'alive', now)
        S(ex, a[0], 'seen_dead', z3.Or(F(ex, a[0], 'seen_dead'), z3.Not(now)))
        return VBool(now)

    def close(ex, a, k):
        maybe_raise(ex, 'close', a[0])
        return NONE

    def wait(ex, a, k):
        maybe_raise(ex, 'wait')
        r = ex.fresh('wait_ret', smt.Bool)
        S(ex, a[0], 'wait_true', z3.Or(F(ex, a[0], 'wait_true'), r))
        S(ex, a[0], 'alive', z3.And(F(ex, a[0], 'alive'), z3.Not(r)))
        return VBool(r)

    def terminate(ex, a, k):
        S(ex, a[0], 'terminated', z3.BoolVal(True))
        maybe_raise(ex, 'terminate')
        return VBool(ex.fresh('term_ret', smt.Bool))

    def restart(ex, a, k):
        if ex.choose(2, 'restart:outcome') == 1:
            ex.note('restart raises')
            raise_('RuntimeError')
        wk = ex.heap[ex.ghost['__specenv__']['workers'].addr]
        newid = ex.fresh('new_id', Val)
        ex.assume(z3.Not(z3.Select(wk.dom, newid)))            # T4: a fresh child has an id no registered worker has
        S(ex, a[0], 'cur_id', newid)
        S(ex, a[0], 'pipe', lower(k.get('results_pipe', NONE), ex))
        S(ex, a[0], 'restarts', F(ex, a[0], 'restarts') + 1)
        S(ex, a[0], 'alive', z3.BoolVal(True))
        return NONE
    return AbsClass('AW', fields={'alive': smt.Bool, 'seen_dead': smt.Bool, 'wait_true': smt.Bool, 'terminated': smt.Bool,
                                  'cur_id': Val, 'pipe': Val, 'restarts': smt.Int},
                    methods={'is_alive': is_alive, 'close': close, 'wait': wait, 'terminate': terminate, 'restart': restart},
                    attrs={'id': lambda I, o: VSym(F(I.ex, o, 'cur_id')), 'has_error': lambda I, o: VBool(I.ex.fresh('has_error', smt.Bool)),
                           'error': lambda I, o: VSym(I.ex.fresh('error', Val))},
                    text='pool-level worker handle: is_alive/close/wait/terminate/restart with ghost flags recording what was driven')


def own_id(ex, wk, k):
    """a registered worker is registered under its own id (instance of the pool's representation invariant for key k)"""
    w = z3.Select(wk.map, k)
    return z3.Implies(z3.Select(wk.dom, k), z3.And(w == Val.v_abs(z3.IntVal(smt.cls_code('AW')), Val.vakey(w)),
                                                   F(ex, VAbs('AW', Val.vakey(w)), 'cur_id') == k))


def pool_obj(ex, env, queue_kind=('abs', 'Conn')):
    I = ex.interp
    ci = ex.repo.cls(P)
    workers = HSymDict(ex.fresh('workers_dom', z3.ArraySort(Val, smt.Bool)), ex.fresh('workers_map', z3.ArraySort(Val, Val)), vkind=('abs', 'AW'))
    queues = HSymDict(ex.fresh('queues_dom', z3.ArraySort(Val, smt.Bool)), ex.fresh('queues_map', z3.ArraySort(Val, Val)), vkind=queue_kind)
    rw, rq = ex.alloc(workers), ex.alloc(queues)
    lock = VAbs('Lock', Val.v_str(z3.IntVal(smt.str_code('<workers_lock>'))))
    ex.abs_classes['Lock'].set(ex, lock, 'held', z3.BoolVal(False))
    attrs = {'_workers': rw, '_queues': rq, '_pool_closed': I.sym('pool_closed', 'bool'), '_map_guard': I.sym('map_guard', 'bool'),
             '_timeout': I.sym('close_timeout'), '_force_close': I.sym('force_close'), '_name': VStr('pool'), '_workers_lock': lock,
             '_next_worker_id': I.sym('next_id', 'int'), '_target': I.sym('target'), '_args': I.sym('args'), '_kwargs': I.sym('kwargs'),
             '_closed': ex.alloc(HSymSet(ex.fresh('closed', z3.ArraySort(Val, smt.Bool))))}
    self_v = ex.alloc(HObj(ci, attrs))
    w0 = ex.fresh('w0', Val)
    env.update(self=self_v, workers=rw, queues=rq, w0=VSym(w0))
    ex.assume(own_id(ex, workers, w0))
    ex.assume(z3.IsSubset(queues.dom, workers.dom))       # representation invariant (C07 INV queues_subset): every queue belongs to a registered worker
    return self_v


def wrapper_lemmas(ex):
    """close() and terminate() are _close(timeout, force, graceful) with graceful True / False: the arguments are passed through unchanged"""
    from pyvc.contracts import Contract
    POOL = 'pyworkers.pool.Pool'
    out = []
    for name, graceful in (('close', True), ('terminate', False)):
        def su(ex_, env):
            I = ex_.interp
            env['self'] = ex_.alloc(HObj(ex_.repo.cls(POOL), {}))
            env['timeout'] = I.sym('timeout')
            env['force'] = I.sym('force')
            ex_.ghost['close_calls'] = []

            def hook(i2, fi, a, k, n, s):
                ex_.ghost['close_calls'] = ex_.ghost['close_calls'] + [list(a[1:])]
                r = I.sym('close_result')
                ex_.ghost['close_result'] = r
                return r
            ex_.ghost['__call_hooks__'] = {POOL + '._close': hook}

        def post(c, graceful=graceful):
            ex_ = c.ex
            calls = ex_.ghost['close_calls']
            if len(calls) != 1 or len(calls[0]) != 3:
                return z3.BoolVal(False)
            t, f, g = calls[0]
            return z3.And(lower(t, ex_) == lower(c.env['timeout'], ex_), lower(f, ex_) == lower(c.env['force'], ex_),
                          z3.BoolVal(isinstance(g, VBool)) if not isinstance(g, VBool) else (g.e == z3.BoolVal(graceful)),
                          lower(c.env['result'], ex_) == lower(ex_.ghost['close_result'], ex_))
        post.__doc__ = f'{name}() is exactly one call _close(timeout, force, {graceful}) whose result is returned'
        out.append((Contract(POOL + '.' + name, lid=f'L1w-{name}', name=f'C09.L1w-{name} Pool.{name} is _close with graceful={graceful}',
                             params={'self': ('const', None), 'timeout': ('const', None), 'force': ('const', None)}, self_class=POOL, setup=su,
                             ensures=[post], raises={}, raises_only=[]), None))
    return out


def build(ex):
    common.install(ex)
    ex.abs_classes['AW'] = aw_class()
    # a registered result endpoint seen only as "something that can be closed" (L4/L5 never read from it)
    ex.abs_classes['QEnd'] = AbsClass('QEnd', fields={}, methods={'close': lambda ex_, a, k: NONE}, text='registered result endpoint (opaque; close() does not raise)')
    lemmas = []

    def queues_subset(c):
        ex_ = c.ex
        return z3.IsSubset(ex_.heap[c.env['queues'].addr].dom, ex_.heap[c.env['workers'].addr].dom)
    queues_subset.__doc__ = 'every queue belongs to a registered worker (representation invariant of the pool, assumed at entry)'

    # ------------------------------------------------------------------ L1c cleanup_worker
    def cleaned(ex_, w, force, graceful):
        forced_off = z3.And(lower(force, ex_) == Val.v_bool(z3.BoolVal(False)), graceful.e)
        return z3.Or(F(ex_, w, 'seen_dead'), F(ex_, w, 'wait_true'), F(ex_, w, 'terminated'), forced_off)

    def cw_env(ex_, frame):
        env = {}
        pool_obj(ex_, env)
        ex_.ghost['__specenv__'] = env
        I = ex_.interp
        if ex_.choose(2, 'force given') == 0:
            force, fa = NONE, ex_.alloc(HDict({}))
        else:
            force = I.sym('force')
            ex_.assume(force.t != Val.v_none)
            fa = ex_.alloc(HDict({'force': force}))
        cenv = {'self': env['self'], 'timeout': I.sym('timeout'), 'force': force, 'graceful': I.sym('graceful', 'bool'), 'force_args': fa}
        ex_.ghost['__cwenv__'] = cenv
        return cenv

    def cw_post(c):
        w = c.old_env['worker']
        return cleaned(c.ex, w, c.env['force'], c.env['graceful'])
    cw_post.__doc__ = ('the worker was observed dead, or wait() returned True, or terminate() was invoked - unless forced termination was explicitly disabled '
                       '(force is False on a graceful close); an exception raised by close()/wait() of the worker is logged, not propagated')

    def cw_fresh(ex_, env):
        env.update(ex_.ghost['__cwenv__'])
        w = env['worker']
        for f in ('seen_dead', 'wait_true', 'terminated'):
            S(ex_, w, f, z3.BoolVal(False))
    CW = P + '._close.<cleanup_worker>'
    cw = Contract(CW, lid='L1c', name='C09.L1c cleanup_worker waits for and if needed terminates its worker; never raises',
                  closure_env=cw_env, self_class=P, params={'worker': lambda I, nm: VAbs('AW', I.ex.fresh(nm, Val))}, setup=cw_fresh,
                  ensures=[cw_post], raises={}, raises_only=[], returns='none',
                  modifies=['worker.alive', 'worker.seen_dead', 'worker.wait_true', 'worker.terminated'],
                  options={'worker_raises': {'close': 'gone'}})
    ex.contracts[CW] = cw
    ex.use_contract.add(CW)
    lemmas.append((cw, None))
    lemmas.append((Contract(CW, lid='L1x', name='C09.L1x cleanup_worker lets nothing escape even if every method of the worker handle raises',
                            closure_env=cw_env, self_class=P, params={'worker': lambda I, nm: VAbs('AW', I.ex.fresh(nm, Val))}, setup=cw_fresh,
                            ensures=[], raises={}, raises_only=[], returns='none',
                            options={'worker_raises': {m: 'any' for m in ('is_alive', 'close', 'wait', 'terminate')}}), None))

    # ------------------------------------------------------------------ L1 _close
    def close_setup(ex_, env):
        pool_obj(ex_, env)
        ex_.ghost['__specenv__'] = env
        ex_.ghost['cleaned_set'] = z3.EmptySet(Val)
        jobs = {}

        def thread_factory(ex2, a, k):
            t = common.new_thread(ex2, a, k)
            jobs[smt.simp(t.key).sexpr()] = (k.get('target'), k.get('args'))
            return t
        ex_.ext_models['threading.Thread'] = thread_factory

        def start(ex2, a, k):
            tgt, args = jobs[smt.simp(a[0].key).sexpr()]
            w = AW(args.items[0])
            # the thread's effects = the contract L1c of its target (applied here; nothing between start and join reads them)
            ex2.interp.call_value(tgt, [w], {}, ex2.ghost.get('__cur_node__'))
            ex2.ghost['cleaned_set'] = z3.Store(ex2.ghost['cleaned_set'], w.key, cleaned(ex2, w, ex2.frames[-1].locals['force'], ex2.frames[-1].locals['graceful']))
            return NONE
        from . import workers as W
        if 'Proc' not in ex_.abs_classes:
            ex_.abs_classes['Proc'] = W.proc_class()
        pc = ex_.abs_classes['Proc']
        pc.methods = dict(pc.methods)
        pc.methods.update(start=start, join=lambda ex2, a, k: NONE, is_alive=lambda ex2, a, k: VBool(False))

    def all_cleaned(c):
        ex_ = c.ex
        w0 = c.env['w0'].t
        wk0 = ex_.old['heap'][c.env['workers'].addr]
        closed0 = ex_.old['heap'][c.env['self'].addr].attrs['_pool_closed'].e
        return z3.Implies(z3.And(z3.Not(closed0), z3.Select(wk0.dom, w0)), z3.Select(ex_.ghost['cleaned_set'], Val.vakey(z3.Select(wk0.map, w0))))
    all_cleaned.__doc__ = ('for the worker registered under the arbitrary id w0: its clean-up ran and ended with the worker dead / waited for / terminated '
                           '(unless forced termination was explicitly disabled)')

    def visited_cleaned(c):
        ex_ = c.ex
        w0 = c.env['w0'].t
        wk = ex_.heap[c.env['workers'].addr]
        return z3.Implies(z3.Select(c.env['__visited__'].t, w0), z3.Select(ex_.ghost['cleaned_set'], Val.vakey(z3.Select(wk.map, w0))))
    visited_cleaned.__doc__ = 'the clean-up of every worker already visited has run with the required outcome'

    def queues_closed(c):
        ex_ = c.ex
        w0 = c.env['w0'].t
        q0 = ex_.old['heap'][c.env['queues'].addr]
        closed0 = ex_.old['heap'][c.env['self'].addr].attrs['_pool_closed'].e
        conn = VAbs('Conn', Val.vakey(z3.Select(q0.map, w0)))
        return z3.Implies(z3.And(z3.Not(closed0), z3.Select(q0.dom, w0)), z3.Not(ex_.abs_classes['Conn'].get(ex_, conn, 'open')))
    queues_closed.__doc__ = 'the result queue registered under the arbitrary id w0 has been closed'

    def visited_closed(c):
        ex_ = c.ex
        w0 = c.env['w0'].t
        q = ex_.heap[c.env['queues'].addr]
        conn = VAbs('Conn', Val.vakey(z3.Select(q.map, w0)))
        return z3.Implies(z3.Select(c.env['__visited__'].t, w0), z3.Not(ex_.abs_classes['Conn'].get(ex_, conn, 'open')))
    visited_closed.__doc__ = 'every queue already visited is closed'

    def maps_as_at_entry(c):
        ex_ = c.ex
        wk, wk0 = ex_.heap[c.env['workers'].addr], ex_.old['heap'][c.env['workers'].addr]
        q, q0 = ex_.heap[c.env['queues'].addr], ex_.old['heap'][c.env['queues'].addr]
        return z3.And(wk.dom == wk0.dom, wk.map == wk0.map, q.dom == q0.dom, q.map == q0.map)
    maps_as_at_entry.__doc__ = 'the worker and queue maps are as at entry'

    def cleaned_stays(c):
        return all_cleaned(c)
    cleaned_stays.__doc__ = 'after the clean-up loop: ' + all_cleaned.__doc__

    def close_locals(fi):
        """the names _close uses for the list of clean-up threads and for one such thread, read off its AST (so that a renaming is followed)"""
        import ast
        thr, jobs = None, None
        for n in ast.walk(fi.node):
            if isinstance(n, ast.Assign) and isinstance(n.value, ast.Call) and ast.unparse(n.value.func).endswith('Thread') and isinstance(n.targets[0], ast.Name):
                thr = n.targets[0].id
        for n in ast.walk(fi.node):
            if isinstance(n, ast.Call) and isinstance(n.func, ast.Attribute) and n.func.attr == 'append' and isinstance(n.func.value, ast.Name) \
                    and n.args and isinstance(n.args[0], ast.Name) and n.args[0].id == thr:
                jobs = n.func.value.id
        targets = {n.target.id for n in ast.walk(fi.node) if isinstance(n, ast.For) and isinstance(n.iter, ast.Name) and n.iter.id == jobs and isinstance(n.target, ast.Name)}
        return jobs or '_cleanup_jobs', thr or 't', targets or {'t'}
    JOBS, THR, JOB_VARS = close_locals(ex.repo.func(P + '._close'))

    def job_is_thread(ex_, fr):
        for nm in JOB_VARS:
            v = fr.locals.get(nm)
            if isinstance(v, VSym):
                fr.locals[nm] = VSym(v.t, hint=('abs', 'Proc'))
    AWF = ['abs:AW.alive', 'abs:AW.seen_dead', 'abs:AW.wait_true', 'abs:AW.terminated']
    lemmas.append((Contract(
        P + '._close', lid='L1', name='C09.L1 Pool._close cleans up every registered worker, closes every queue and marks the pool closed',
        params={'self': ('const', None), 'timeout': 'any', 'force': 'any', 'graceful': 'bool'}, self_class=P, setup=close_setup,
        ensures=[all_cleaned, queues_closed, 'self._pool_closed', queues_subset],
        raises={'RuntimeError': 'old(self._map_guard) and not old(self._pool_closed)'}, raises_only=['RuntimeError'],
        loops={0: Loop(header='_workers.values()', invariant=[visited_cleaned, maps_as_at_entry], modifies=['ghost:cleaned_set', 'abs:Proc.alive', JOBS] + AWF,
                       locals={THR: lambda I, nm: VAbs('Proc', I.ex.fresh(nm, Val))}),
               1: Loop(invariant=[], modifies=[], on_bind=job_is_thread),
               2: Loop(invariant=[], modifies=[], on_bind=job_is_thread),
               3: Loop(header='_queues.values()', invariant=[visited_closed, maps_as_at_entry, cleaned_stays], modifies=['abs:Conn.open'])},
        options={'__local_kinds__': {(P + '._close', JOBS): 'symlist'}, 'recv_closed_check': False}), None))

    # ------------------------------------------------------------------ L1b __exit__
    def exit_setup(ex_, env):
        pool_obj(ex_, env)
        env['exc'] = VTuple([ex_.interp.sym('exc_type'), ex_.interp.sym('exc_val'), ex_.interp.sym('tb')])
        ex_.ghost['close_calls'] = z3.IntVal(0)
        ex_.ghost['terminate_calls'] = z3.IntVal(0)
        ex_.ghost['__specenv__'] = env

        def hook(which):
            def h(I, fi, a, k, n, s):
                ex_.ghost[which] = ex_.ghost[which] + 1
                return NONE
            return h
        ex_.ghost['__call_hooks__'] = {P + '.close': hook('close_calls'), P + '.terminate': hook('terminate_calls')}

    def closes_once(c):
        g = c.ex.ghost
        et = lower(c.env['exc'].items[0], c.ex)
        return z3.And(g['close_calls'] + g['terminate_calls'] == 1, z3.Implies(et != Val.v_none, g['terminate_calls'] == 1))
    closes_once.__doc__ = 'exactly one of close()/terminate() is called; terminate() whenever the with-body raised'
    lemmas.append((Contract(P + '.__exit__', lid='L1b', name='C09.L1b leaving the with-block always closes or terminates the pool',
                            params={'self': ('const', None), 'exc': ('const', None)}, self_class=P, setup=exit_setup,
                            ensures=[closes_once], raises={}, raises_only=[]), None))

    # ------------------------------------------------------------------ L4 restart_workers
    def elem(R, j):
        lst = Val.vitems(R[j])
        return ValList.vl_hd(lst), ValList.vl_hd(ValList.vl_tl(lst))

    def parent_end_of(ex_, pipe_t, q_t):
        """q_t is the PipeEndpoint object _endpoints[0] of the Pipe object pipe_t.  Pipes on the current heap are related to their parent
        end by construction; a pipe created in an earlier (havocked) iteration carries the relation through an uninterpreted predicate"""
        alts = []
        for addr, h in ex_.heap.items():
            if isinstance(h, HObj) and getattr(h.cls, 'qualname', '') == 'pyworkers.utils.Pipe':
                alts.append(z3.And(pipe_t == lower(VRef(addr), ex_), q_t == lower(h.attrs['_endpoints'].items[0], ex_)))
        own = ex_.ghost.setdefault('__parent_end_pred__', z3.Function('is_parent_end_of', Val, Val, smt.Bool))
        return z3.Or(own(pipe_t, q_t), *alts)

    def rs_setup(ex_, env):
        pool_obj(ex_, env, queue_kind=('abs', 'QEnd'))
        env['timeout'] = ex_.interp.sym('timeout')
        env['kwargs'] = ex_.alloc(HDict({}))
        j0 = ex_.fresh('j0', smt.Int)
        j1 = ex_.fresh('j1', smt.Int)
        env.update(j0=VInt(j0), j1=VInt(j1))
        ex_.ghost['__specenv__'] = env
        ex_.ghost['R'] = None
        wk = ex_.heap[env['workers'].addr]

        def shape_t(term, dom0, map0, curid0):
            lst = Val.vitems(term)
            k, w = ValList.vl_hd(lst), ValList.vl_hd(ValList.vl_tl(lst))
            own = z3.And(w == Val.v_abs(z3.IntVal(smt.cls_code('AW')), Val.vakey(w)), z3.Select(curid0, Val.vakey(w)) == k)
            return z3.And(Val.is_v_tup(term), ValList.is_vl_cons(lst), ValList.is_vl_cons(ValList.vl_tl(lst)),
                          ValList.is_vl_nil(ValList.vl_tl(ValList.vl_tl(lst))), z3.Select(dom0, k), w == z3.Select(map0, k), own)

        def shape(ex2, R, j, dom0, map0, curid0):
            return z3.Implies(z3.And(j >= 0, j < z3.Length(R)), shape_t(R[j], dom0, map0, curid0))

        def list_of_view(ex2, v):
            """list(d.items()): a sequence of the (key, value) pairs of d, each key exactly once (T1: dict semantics)"""
            R = ex2.fresh('to_restart', SeqVal)
            ex2.ghost['R'] = R
            dom0, map0 = wk.dom, wk.map
            curid0 = ex2.abs_classes['AW'].arr(ex2, 'cur_id')
            ex2.ghost['R_fact'] = lambda j: shape(ex2, R, j, dom0, map0, curid0)
            ex2.ghost['restarts0'] = ex2.abs_classes['AW'].arr(ex2, 'restarts')
            for j in (j0, j1):
                ex2.assume(ex2.ghost['R_fact'](j))
            ex2.assume(z3.Implies(z3.And(j0 >= 0, j1 >= 0, j0 < z3.Length(R), j1 < z3.Length(R), j0 != j1), elem(R, j0)[0] != elem(R, j1)[0]))
            res = ex2.alloc(HSymList(R))
            ex2.heap[res.addr].elem_fact = lambda ex3, term: ex3.assume(shape_t(term, dom0, map0, curid0))
            return res
        ex_.ghost['__list_of_view__'] = list_of_view
        n = [0]

        def mp_pipe(ex2, a, k):
            n[0] += 1
            return VTuple([common.new_chan(ex2, 'Conn', f'newpipe{n[0]}.parent'), common.new_chan(ex2, 'Conn', f'newpipe{n[0]}.child')])
        ex_.ext_models['multiprocessing.Pipe'] = mp_pipe

    def idx_keys(c, mode):
        keys = [c.env['j0'].e, c.env['j1'].e]
        if mode == 'assume' and '__i__' in c.env:
            keys.append(c.env['__i__'].e)
        return keys

    def pending_still_registered(c, j):
        ex_ = c.ex
        R = ex_.ghost['R']
        wk = ex_.heap[c.env['workers'].addr]
        k, w = elem(R, j)
        i = c.env['__i__'].e
        return z3.Implies(z3.And(j >= i, j < z3.Length(R)),
                          z3.And(z3.Select(wk.dom, k), z3.Select(wk.map, k) == w, F(ex_, VAbs('AW', Val.vakey(w)), 'cur_id') == k,
                                 F(ex_, VAbs('AW', Val.vakey(w)), 'restarts') == z3.Select(ex_.ghost['restarts0'], Val.vakey(w))))
    pending_still_registered.__doc__ = 'a worker not yet restarted (position j >= i of to_restart) is still registered under its old id and has not been restarted'
    pending_still_registered.forall = idx_keys

    def done_registered(c, j):
        ex_ = c.ex
        R = ex_.ghost['R']
        wk, q = ex_.heap[c.env['workers'].addr], ex_.heap[c.env['queues'].addr]
        k, w = elem(R, j)
        i = c.env['__i__'].e
        wa = VAbs('AW', Val.vakey(w))
        nid = F(ex_, wa, 'cur_id')
        return z3.Implies(z3.And(j >= 0, j < i),
                          z3.And(z3.Select(wk.dom, nid), z3.Select(wk.map, nid) == w, z3.Select(q.dom, nid),
                                 F(ex_, wa, 'restarts') == z3.Select(ex_.ghost['restarts0'], Val.vakey(w)) + 1,
                                 parent_end_of(ex_, F(ex_, wa, 'pipe'), z3.Select(q.map, nid))))
    done_registered.__doc__ = ('a worker already restarted (position j < i) was restarted exactly once, is registered under its NEW id, and its queue is the parent end '
                               'of the pipe that was handed to its restart()')
    done_registered.forall = idx_keys

    def restart_locals(fi):
        """names restart_workers uses for (old id, worker) in its loop and for the fresh pipe, read off its AST (a renaming is followed)"""
        import ast
        kn, wn, qn = 'oldid', 'w', 'queue'
        for n in ast.walk(fi.node):
            if isinstance(n, ast.For) and isinstance(n.target, ast.Tuple) and len(n.target.elts) == 2 and all(isinstance(x, ast.Name) for x in n.target.elts):
                kn, wn = n.target.elts[0].id, n.target.elts[1].id
                for m in ast.walk(n):
                    if isinstance(m, ast.Assign) and isinstance(m.value, ast.Call) and ast.unparse(m.value.func).endswith('Pipe') and isinstance(m.targets[0], ast.Name):
                        qn = m.targets[0].id
                break
        return kn, wn, qn
    KN, WN, QN = restart_locals(ex.repo.func(P + '.restart_workers'))

    def on_bind(ex_, fr):
        R = ex_.ghost['R']
        se = ex_.ghost['__specenv__']
        i = fr.locals['__i__'].e
        ex_.assume(ex_.ghost['R_fact'](i))
        for j in (se['j0'].e, se['j1'].e):
            ex_.assume(ex_.ghost['R_fact'](j))
            ex_.assume(z3.Implies(z3.And(j >= 0, j < z3.Length(R), j != i), elem(R, j)[0] != elem(R, i)[0]))
        fr.locals[WN] = VSym(fr.locals[WN].t, hint=('abs', 'AW'))

    def all_restarted(c, j):
        ex_ = c.ex
        R = ex_.ghost['R']
        if R is None:
            return z3.BoolVal(True)
        wk, q = ex_.heap[c.env['workers'].addr], ex_.heap[c.env['queues'].addr]
        k, w = elem(R, j)
        wa = VAbs('AW', Val.vakey(w))
        nid = F(ex_, wa, 'cur_id')
        return z3.Implies(z3.And(j >= 0, j < z3.Length(R)),
                          z3.And(z3.Select(wk.dom, nid), z3.Select(wk.map, nid) == w, z3.Select(q.dom, nid),
                                 F(ex_, wa, 'restarts') == z3.Select(ex_.ghost['restarts0'], Val.vakey(w)) + 1,
                                 parent_end_of(ex_, F(ex_, wa, 'pipe'), z3.Select(q.map, nid))))
    all_restarted.__doc__ = ('every worker that was registered at entry (arbitrary position j of the snapshot) was restarted exactly once and is registered under its '
                             'new id, its queue being the parent end of the pipe handed to its restart()')
    all_restarted.forall = lambda c, mode: [c.env['j0'].e]

    def others_untouched(c):
        ex_ = c.ex
        start = ex_.ghost['__iter_start__']
        wk1, q1 = ex_.heap[c.env['workers'].addr], ex_.heap[c.env['queues'].addr]
        wk0, q0 = start['heap'][c.env['workers'].addr], start['heap'][c.env['queues'].addr]
        oldid = lower(c.env[KN], ex_)
        newid = F(ex_, c.env[WN], 'cur_id')
        w0 = c.env['w0'].t
        return z3.And(z3.Implies(z3.And(w0 != oldid, w0 != newid),
                                 z3.And(z3.Select(wk1.dom, w0) == z3.Select(wk0.dom, w0), z3.Select(q1.dom, w0) == z3.Select(q0.dom, w0),
                                        z3.Select(wk1.map, w0) == z3.Select(wk0.map, w0), z3.Select(q1.map, w0) == z3.Select(q0.map, w0))),
                      z3.Implies(oldid != newid, z3.And(z3.Not(z3.Select(wk1.dom, oldid)), z3.Not(z3.Select(q1.dom, oldid)))))
    others_untouched.__doc__ = 'one iteration changes only the entries of the old and the new id of the restarted worker; the old id is gone from both maps'
    rl = Loop(invariant=[pending_still_registered, done_registered, queues_subset],
              modifies=['self._workers', 'self._queues', 'abs:AW.cur_id', 'abs:AW.pipe', 'abs:AW.restarts', 'abs:AW.alive', 'abs:Conn.inq', 'abs:Conn.ipos', 'abs:Conn.out',
                        'abs:Conn.open', 'abs:Conn.peer_closed'], on_bind=on_bind, locals={QN: 'any'})
    rl.step = [others_untouched]
    lemmas.append((Contract(
        P + '.restart_workers', lid='L4', name='C09.L4 restart_workers restarts every worker once and re-keys it under its new id with its fresh pipe; only restart() itself may fail',
        params={'self': ('const', None), 'timeout': ('const', None), 'kwargs': ('const', None)}, self_class=P, setup=rs_setup,
        ensures=[all_restarted, queues_subset],
        raises={'RuntimeError': None}, raises_only=['RuntimeError'],
        loops={0: rl}, options={'keyerror_forks': True, 'recv_closed_check': False}), None))

    # ------------------------------------------------------------------ L5 add_worker
    def handle_new(I2, fi, a, k, node, sc):
        """user hook (overridable): may raise"""
        ex2 = I2.ex
        if ex2.choose(2, 'handle_new_worker:outcome') == 1:
            ex2.note('handle_new_worker raises')
            raise_('AnyException')
        return NONE

    def aw_setup(ex_, env):
        pool_obj(ex_, env, queue_kind=('abs', 'QEnd'))
        I = ex_.interp
        for p in ('worker_type', 'name', 'userid', 'target', 'args', 'kwargs'):
            env[p] = I.sym(p)
        env['worker_kwargs'] = ex_.alloc(HDict({}))
        ex_.ghost['__specenv__'] = env
        ex_.ghost['new_worker'] = None
        ex_.ghost['__sym_isinstance__'] = lambda ex2, v, ci: ex2.fresh('is_workertype', smt.Bool)
        n = [0]

        def mp_pipe(ex2, a, k):
            n[0] += 1
            return VTuple([common.new_chan(ex2, 'Conn', f'newpipe{n[0]}.parent'), common.new_chan(ex2, 'Conn', f'newpipe{n[0]}.child')])
        ex_.ext_models['multiprocessing.Pipe'] = mp_pipe

        def construct(ex2, kwargs):
            if ex2.choose(2, 'constructor:outcome') == 1:
                ex2.note('worker constructor raises')
                raise_('AnyException')
            w = VAbs('AW', ex2.fresh('new_worker', Val))
            wk = ex2.heap[env['workers'].addr]
            # a NEW object: not one of the registered workers (its id may still collide with a registered id: the duplicate-id path)
            w0 = env['w0'].t
            ex2.assume(z3.Implies(z3.Select(wk.dom, w0), Val.vakey(z3.Select(wk.map, w0)) != w.key))
            S(ex2, w, 'terminated', z3.BoolVal(False))
            S(ex2, w, 'pipe', lower(kwargs.get('results_pipe', NONE), ex2))
            ex2.ghost['new_worker'] = w
            return w

        def create_hook(I2, fi, a, k, node, sc):
            return construct(I2.ex, k)
        ex_.ghost['__call_hooks__'] = {'pyworkers.worker.Worker.create': create_hook, P + '.handle_new_worker': handle_new}

        def opaque(ex2, f, args, kwargs, node):
            if f is env['worker_type']:
                return construct(ex2, kwargs)
            raise Undecided(f'opaque call of {f!r} in add_worker')
        ex_.ghost['__opaque_call__'] = opaque

    def registered_ok(c):
        ex_ = c.ex
        w = ex_.ghost['new_worker']
        if w is None:
            return z3.BoolVal(False)
        wk, q = ex_.heap[c.env['workers'].addr], ex_.heap[c.env['queues'].addr]
        nid = F(ex_, w, 'cur_id')
        return z3.And(lower(c.env['result'], ex_) == lower(w, ex_), z3.Select(wk.dom, nid), Val.vakey(z3.Select(wk.map, nid)) == w.key, z3.Select(q.dom, nid),
                      parent_end_of(ex_, F(ex_, w, 'pipe'), z3.Select(q.map, nid)))
    registered_ok.__doc__ = 'the returned worker is registered under its id; its queue is the parent end of the pipe it was constructed with'

    def existing_kept(c):
        ex_ = c.ex
        wk, q = ex_.heap[c.env['workers'].addr], ex_.heap[c.env['queues'].addr]
        wk0, q0 = ex_.old['heap'][c.env['workers'].addr], ex_.old['heap'][c.env['queues'].addr]
        w0 = c.env['w0'].t
        return z3.And(z3.Implies(z3.Select(wk0.dom, w0), z3.And(z3.Select(wk.dom, w0), z3.Select(wk.map, w0) == z3.Select(wk0.map, w0))),
                      z3.Implies(z3.Select(q0.dom, w0), z3.And(z3.Select(q.dom, w0), z3.Select(q.map, w0) == z3.Select(q0.map, w0))))
    existing_kept.__doc__ = 'a worker registered before the call (arbitrary id w0) keeps its registration and its queue, whether add_worker succeeds or fails'

    def failed_not_leaked(c):
        ex_ = c.ex
        if not isinstance(c.env.get('raised'), VExc):
            return z3.BoolVal(True)
        w = ex_.ghost['new_worker']
        if w is None:
            return z3.BoolVal(True)
        wk = ex_.heap[c.env['workers'].addr]
        w0 = c.env['w0'].t
        return z3.And(F(ex_, w, 'terminated'), z3.Implies(z3.Select(wk.dom, w0), Val.vakey(z3.Select(wk.map, w0)) != w.key))
    failed_not_leaked.__doc__ = 'add_worker raised: the worker it had constructed was terminated and is not retained by the pool'
    lemmas.append((Contract(
        P + '.add_worker', lid='L5', name='C09.L5 add_worker registers the new worker with its pipe; a failure terminates it and disturbs no registered worker',
        params={p: ('const', None) for p in ('self', 'worker_type', 'name', 'userid', 'target', 'args', 'kwargs', 'worker_kwargs')}, self_class=P, setup=aw_setup,
        ensures=[registered_ok], raises={'AnyException': None, 'ValueError': None}, raises_only=['AnyException', 'ValueError'],
        all_exits=[existing_kept, failed_not_leaked, queues_subset], options={'recv_closed_check': False}), None))
    lemmas += wrapper_lemmas(ex)

    # L2: run() starts from a clean slate.  This is the run contract of the C07 cone (its closures are used through their contracts, which C07 proves): its
    # entry state leaves every per-run field of the pool - _retries, _pending, _pending_per_worker, _depleted - ARBITRARY, i.e. whatever an earlier run (also one
    # that failed with PoolError while inputs were waiting to be retried) left behind, and the ghost history of this run empty; the loop invariants (conservation
    # per input, no duplicates, results paired with answered inputs) then have to hold at loop entry and the results have to be this run's only.
    from . import pool as _p
    _p.install(ex)
    _p.build_closure_contracts(ex)
    run = _p.build_run_contract(ex)
    run.lid = 'L2'
    run.name = ('C09.L2 Pool.run starts from whatever an earlier (possibly failed) run left in its bookkeeping and still returns exactly one genuine result per input '
                'of THIS run (retry on)')
    lemmas.append((run, None))
    return lemmas


def replay(ob, repo):
    from pyvc.native import run_script
    r = run_script('c09_native.py', {'lemma': ob['lemma'].split(' ')[0].split('.')[-1]}, repo, timeout=200)
    return bool(r.get('violates')), r


def replay_file(path, repo):
    import json
    from pyvc.native import run_script
    r = run_script('c09_native.py', {}, repo, timeout=200)
    print(json.dumps(r, indent=1, default=str))
    if r.get('violates'):
        print(f'VIOLATION property=C09 replay={path}')
        return 1
    return 0
