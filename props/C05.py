"""C05 - persistent workers process each enqueue exactly once, in order, with merged arguments."""
import z3

from pyvc import smt, extlib
from pyvc.values import *  # noqa
from . import common, persistent

ID = 'C05'
MIN_OBLIGATIONS = 20
TRUSTED = [common.TEXT['chan'], common.TEXT['target'], extlib.TEXT['copy']]
ASSUMPTIONS = [
    'argument channel invariant (appendix B.7): the parent writes only (args, kwargs) pairs and at most one None; proved for the parent side in lemma L4*',
    'kwargs dictionaries are opaque mathematical values; d.update(e) is the uninterpreted function dict_update(d, e), which is also what the property text means by "overriding default ones"',
]


MUTANTS = [
    ('pyworkers/persistent.py', "                yield self.next_result()\n                cnt += 1\n", "                value = self.next_result()\n                if value is None:\n                    break\n                yield value\n                cnt += 1\n", 'results_iter stops at a result that is None'),
    ('pyworkers/persistent.py', "        if not flag:\n            raise queue.Empty\n        return value", "        if not flag or not value:\n            raise queue.Empty\n        return value", 'next_result treats a falsy result as the end of the stream'),
    ('pyworkers/persistent_thread.py', "            args = list(copy.deepcopy(self._args))\n", "            args = list(self._args)\n            args = self._args\n", 'thread: defaults no longer copied (calls see what earlier calls left)'),
    ('pyworkers/persistent_process.py', "            args[0:len(extra_args)] = extra_args\n", "            args[0:1] = extra_args\n", 'process: only the first default is replaced'),
    ('pyworkers/persistent_remote.py', "            kwargs.update(extra_kwargs)\n", "", 'remote: enqueued keyword arguments ignored'),
    ('pyworkers/persistent_thread.py', "        self._counter += 1\n        self._results_pipe.child_end.put((self._counter, True, result, self.id))", "        self._results_pipe.child_end.put((self._counter, True, result, self.id))\n        self._counter += 1", 'thread: counter incremented after the send (messages numbered from 0)'),
    ('pyworkers/persistent_process.py', "            result = self.run(*args, **kwargs)\n            self._send_result(result)", "            result = self.run(*args, **kwargs)\n            if result is not None:\n                self._send_result(result)", 'process: None results are not delivered'),
    ('pyworkers/persistent_remote.py', "            result = self.run(*args, **kwargs)\n", "            result = self.run(*extra_args, **kwargs)\n", 'remote: defaults dropped from the call'),
    ('pyworkers/persistent_thread.py', "            kwargs = copy.deepcopy(self._kwargs)\n", "            kwargs = self._kwargs\n", 'thread: default kwargs mutated across calls'),
    ('pyworkers/persistent_process.py', "        return self._counter\n", "        return self._counter + 1\n", 'process: final result is not the number of processed inputs'),
]


def build(ex):
    common.install(ex)
    persistent.spec_functions(ex)
    lemmas = []
    for ak in ('list', 'tuple'):
        lemmas.append((persistent.do_work_contract(ex, 'thread', f'L1t-{ak}', 'LocalPipe', ak), None))
        lemmas.append((persistent.do_work_contract(ex, 'thread', f'L1tp-{ak}', 'Pipe', ak), None))
        lemmas.append((persistent.do_work_contract(ex, 'process', f'L1p-{ak}', 'Pipe', ak), None))
        lemmas.append((persistent.do_work_contract(ex, 'remote', f'L1r-{ak}', 'Pipe', ak), None))
    lemmas += parent_side(ex)
    return lemmas


def parent_side(ex):
    """L4: the consumer side - next_result / results_iter hand out the values of the result messages in order, one per message, whatever the value
    (None and falsy values included); the stream ends at the end marker"""
    from pyvc.smt import Val, ValList, SeqVal
    from pyvc.contracts import Contract, Loop
    from pyvc.core import PyRaise
    repo = ex.repo
    PWK = 'pyworkers.persistent.PersistentWorker'
    PTW = 'pyworkers.persistent_thread.PersistentThreadWorker'
    out = []

    def four(x):
        l0 = Val.vitems(x)
        l1 = ValList.vl_tl(l0)
        l2 = ValList.vl_tl(l1)
        l3 = ValList.vl_tl(l2)
        return z3.And(Val.is_v_tup(x), ValList.is_vl_cons(l0), ValList.is_vl_cons(l1), Val.is_v_bool(ValList.vl_hd(l1)), ValList.is_vl_cons(l2),
                      ValList.is_vl_cons(l3), ValList.is_vl_nil(ValList.vl_tl(l3)))

    def flag(x):
        return Val.vb(ValList.vl_hd(ValList.vl_tl(Val.vitems(x))))

    def value(x):
        return ValList.vl_hd(ValList.vl_tl(ValList.vl_tl(Val.vitems(x))))

    def consumer(ex_, env):
        I = ex_.interp
        rp, rends = common.make_pipe(ex_, 'results', 'LocalPipe')
        ap, aends = common.make_pipe(ex_, 'args', 'LocalPipe')
        child = VAbs('Proc', Val.v_str(z3.IntVal(smt.str_code('<child thread>'))))
        from . import workers as W
        if 'Proc' not in ex_.abs_classes:
            ex_.abs_classes['Proc'] = W.proc_class()
        ex_.abs_classes['Proc'].set(ex_, child, 'alive', ex_.fresh('child_alive', smt.Bool))
        cur_tid = I.sym('cur_tid')
        attrs = {'_results_pipe': rp, '_args_pipe': ap, '_started': VBool(True), '_dead': I.sym('dead0', 'bool'), '_child': child, '_tid': I.sym('child_tid'),
                 '_closed': I.sym('closed0', 'bool')}
        env['self'] = ex_.alloc(HObj(repo.cls(PTW), attrs))
        q = rends['q']
        env['resq'] = q
        ac = ex_.abs_classes['Queue']
        inq = ac.get(ex_, q, 'inq')
        ipos0 = ex_.fresh('ipos0', smt.Int)
        ac.set(ex_, q, 'ipos', ipos0)
        ex_.assume(z3.And(ipos0 >= 0, ipos0 <= z3.Length(inq)))
        env['inq'] = VSeq(inq)
        env['ipos0'] = VInt(ipos0)
        env['k0'] = VInt(ex_.fresh('k0', smt.Int))
        ex_.ghost['chan_elem_inv'] = {'results.q': lambda ex2, x, ipos: four(x)}
        ex_.ghost['__call_hooks__'] = {repo.lookup_method(repo.cls(PTW), 'is_child')[0].qualname: lambda I2, fi, a, k, n, s: VBool(False)}

    # ---- next_result
    def nr_ok(c):
        ex_ = c.ex
        q = c.env['resq']
        inq = c.env['inq'].e
        p0 = c.env['ipos0'].e
        p1 = ex_.abs_classes['Queue'].get(ex_, q, 'ipos')
        return z3.And(p0 < z3.Length(inq), p1 == p0 + 1, flag(inq[p0]), lower(c.env['result'], ex_) == value(inq[p0]))
    nr_ok.__doc__ = 'next_result consumes exactly one message, it is a result message (flag True), and its value is returned as it is - None and falsy values included'

    def nr_empty(c):
        ex_ = c.ex
        q = c.env['resq']
        inq = c.env['inq'].e
        p0 = c.env['ipos0'].e
        p1 = ex_.abs_classes['Queue'].get(ex_, q, 'ipos')
        return z3.Or(z3.And(p1 == p0 + 1, p0 < z3.Length(inq), z3.Not(flag(inq[p0]))), z3.And(p1 == p0))
    nr_empty.__doc__ = 'queue.Empty exactly for the end marker (consumed) or when nothing can be read (dead worker, nothing delivered)'
    for bt in (('blocking', VBool(True)), ('non-blocking', VBool(False))):
        def su(ex_, env, b=bt[1]):
            consumer(ex_, env)
            env['block'] = b
            env['timeout'] = NONE
        out.append((Contract(PWK + '.next_result', lid='L4-next', name='C05.L4-next next_result hands out the value of the next result message, whatever it is',
                             params={'self': ('const', None), 'block': ('const', None), 'timeout': ('const', None)}, self_class=PTW, setup=su,
                             ensures=[nr_ok], raises={'queue.Empty': nr_empty}, raises_only=['queue.Empty'], options={'recv_closed_check': False}), (bt[0], lambda ex_, env: None)))

    # ---- results_iter
    def ri_setup(maxi):
        def su(ex_, env):
            consumer(ex_, env)
            if maxi:
                m = ex_.fresh('maxitems', smt.Int)
                ex_.assume(m >= 0)
                env['maxitems'] = VInt(m)
            else:
                env['maxitems'] = NONE
            q = env['resq']

            def next_result(I2, fi, a, k, n, s):
                # by its contract L4-next
                ac = ex_.abs_classes['Queue']
                inq, p = ac.get(ex_, q, 'inq'), ac.get(ex_, q, 'ipos')
                if not ex_.branch(p < z3.Length(inq), 'next_result:message'):
                    raise PyRaise(VExc('queue.Empty', []))
                ex_.assume(four(inq[p]))
                ac.set(ex_, q, 'ipos', p + 1)
                if not ex_.branch(flag(inq[p]), 'next_result:flag'):
                    raise PyRaise(VExc('queue.Empty', []))
                return VSym(value(inq[p]))
            hooks = dict(ex_.ghost['__call_hooks__'])
            hooks[PWK + '.next_result'] = next_result
            ex_.ghost['__call_hooks__'] = hooks
        return su

    def yielded(c):
        return c.ex.heap[c.env['__yielded__'].addr].seq

    def prefix_inv(c):
        ex_ = c.ex
        q = c.env['resq']
        inq, p0 = c.env['inq'].e, c.env['ipos0'].e
        p = ex_.abs_classes['Queue'].get(ex_, q, 'ipos')
        y = yielded(c)
        k0 = c.env['k0'].e
        cnt = c.env['cnt'].e
        mi = c.env['maxitems']
        bound = z3.BoolVal(True) if mi is NONE else cnt <= mi.e
        return z3.And(z3.Length(y) == cnt, p == p0 + cnt, cnt >= 0, p <= z3.Length(inq), bound,
                      z3.Implies(z3.And(k0 >= 0, k0 < cnt), z3.And(flag(inq[p0 + k0]), y[k0] == value(inq[p0 + k0]))))
    prefix_inv.__doc__ = 'what has been yielded so far is exactly the values of the messages consumed so far, in order (position k0 arbitrary), all of them result messages'

    def iter_post(c):
        ex_ = c.ex
        q = c.env['resq']
        inq, p0 = c.env['inq'].e, c.env['ipos0'].e
        p = ex_.abs_classes['Queue'].get(ex_, q, 'ipos')
        r = c.env['result']
        y = ex_.heap[r.addr].seq
        n = z3.Length(y)
        k0 = c.env['k0'].e
        mi = c.env['maxitems']
        each = z3.Implies(z3.And(k0 >= 0, k0 < n), z3.And(flag(inq[p0 + k0]), y[k0] == value(inq[p0 + k0])))
        stopped_by_marker = z3.And(p == p0 + n + 1, z3.Not(flag(inq[p0 + n])))
        nothing_more = z3.And(p == p0 + n, p == z3.Length(inq))
        full = z3.BoolVal(False) if mi is NONE else z3.And(n == mi.e, p == p0 + n)
        return z3.And(each, z3.Or(stopped_by_marker, nothing_more, full))
    iter_post.__doc__ = ('results_iter yields the value of every result message from the current position on, in order, whatever the values are; it stops only at the '
                         'end marker, when nothing more can be read, or after maxitems values')
    for mi in (False, True):
        out.append((Contract(PWK + '.results_iter', lid='L4-iter', name='C05.L4-iter results_iter yields exactly the delivered results in order and stops only at the end of the stream',
                             params={'self': ('const', None), 'maxitems': ('const', None)}, self_class=PTW, setup=lambda ex_, env: None,
                             ensures=[iter_post], raises={}, raises_only=[],
                             loops={0: Loop(invariant=[prefix_inv], modifies=['__yielded__', 'abs:Queue.ipos'], locals={'cnt': 'int'})},
                             options={'symbolic_yield': True, 'recv_closed_check': False}), ('maxitems given' if mi else 'maxitems=None', ri_setup(mi))))
    return out


# ------------------------------------------------------------------------------ replay on the real code
def _scenario(lemma):
    kind = 'thread'
    if 'L1p' in lemma or 'process' in lemma:
        kind = 'process'
    if 'L1r' in lemma or 'remote' in lemma:
        kind = 'remote'
    return {'kind': kind, 'args_kind': 'tuple' if 'tuple' in lemma else 'list'}


def replay(ob, repo):
    from pyvc.native import run_script
    r = run_script('c05_native.py', _scenario(ob['lemma']), repo, timeout=150)
    return bool(r.get('violates')), r


def replay_file(path, repo):
    import json
    from pyvc.native import run_script
    d = json.load(open(path))
    r = run_script('c05_native.py', _scenario(d.get('lemma', '')), repo, timeout=150)
    print(json.dumps(r, indent=1, default=str))
    if r.get('violates'):
        print(f'VIOLATION property=C05 replay={path}')
        return 1
    return 0
