"""C05 - persistent workers process each enqueue exactly once, in order, with merged arguments."""
import z3

from pyvc import smt, extlib
from pyvc.values import *  # noqa
from . import common, persistent

ID = 'C05'
MIN_OBLIGATIONS = 20
TRUSTED = [common.TEXT['chan'], common.TEXT['target'], extlib.TEXT['copy']]
ASSUMPTIONS = [
    'argument channel invariant (appendix B.7): the parent writes only (args, kwargs) pairs and at most one None; the parent side is lemma L5 (enqueue writes exactly the pair it was given, or nothing) and L5c (close writes the one None)',
    'L6 call(): the value returned is that of the NEXT result message; that this message answers the input just enqueued when no results are outstanding is the composition with the child-side lemma L1 (k-th result message = target applied to the k-th input), not one formula',
    'PersistentRemoteWorker.enqueue returns normally when the connection turns out to be lost while sending (the input is dropped, _socket_closed is set and every later enqueue raises WorkerClosedError): the worker is then dying, its stream is the prefix C06 describes; L5-remote states exactly this and does not count it as a violation',
    'kwargs dictionaries are opaque mathematical values; d.update(e) is the uninterpreted function dict_update(d, e), which is also what the property text means by "overriding default ones"',
]


MUTANTS = [
    ('pyworkers/persistent_thread.py', "        self._args_pipe.parent_end.put((args, kwargs))\n", "        self._args_pipe.parent_end.put((args, {}))\n", 'thread: enqueue drops the keyword arguments'),
    ('pyworkers/persistent_process.py', "        if not self.is_alive() or self._closed:\n            raise WorkerClosedError(self)\n        self._args_pipe", "        if not self.is_alive():\n            raise WorkerClosedError(self)\n        self._args_pipe", 'process: enqueue no longer checks that the worker is closed'),
    ('pyworkers/persistent_remote.py', "            send_msg(self._socket, (args, kwargs), comment='data: new args')", "            send_msg(self._socket, (kwargs, args), comment='data: new args')", 'remote: enqueue sends the pair the wrong way round'),
    ('pyworkers/persistent_thread.py', "        if self._closed:\n            return\n        self._args_pipe.parent_end.put(None)", "        self._args_pipe.parent_end.put(None)", 'thread: every close() writes another None'),
    ('pyworkers/persistent.py', "        self.enqueue(*args, **kwargs)\n        return self.next_result()", "        self.enqueue(*args)\n        return self.next_result()", 'call() drops the keyword arguments'),
    ('pyworkers/persistent.py', "                yield self.next_result()\n                cnt += 1\n", "                value = self.next_result()\n                if value is None:\n                    break\n                yield value\n                cnt += 1\n", 'results_iter stops at a result that is None'),
    ('pyworkers/persistent.py', "        if not flag:\n            raise queue.Empty\n        return value", "        if not flag or not value:\n            raise queue.Empty\n        return value", 'next_result treats a falsy result as the end of the stream'),
    ('pyworkers/persistent_thread.py', "            args = list(copy.deepcopy(self._args))\n", "            args = list(self._args)\n            args = self._args\n", 'thread: defaults no longer copied (calls see what earlier calls left)'),
    ('pyworkers/persistent_process.py', "            args[0:len(extra_args)] = extra_args\n", "            args[0:1] = extra_args\n", 'process: only the first default is replaced'),
    ('pyworkers/persistent_remote.py', "            kwargs.update(extra_kwargs)\n", "", 'remote: enqueued keyword arguments ignored'),
    ('pyworkers/persistent_thread.py', "        self._counter += 1\n        self._results_pipe.child_end.put((self._counter, True, result, self.id))", "        self._results_pipe.child_end.put((self._counter, True, result, self.id))\n        self._counter += 1", 'thread: counter incremented after the send (messages numbered from 0)'),
    ('pyworkers/persistent_process.py', "            result = self.run(*args, **kwargs)\n            self._send_result(result)", "            result = self.run(*args, **kwargs)\n            if result is not None:\n                self._send_result(result)", 'process: None results are not delivered'),
    ('pyworkers/persistent_remote.py', "            result = self.run(*args, **kwargs)\n", "            result = self.run(*extra_args, **kwargs)\n", 'remote: defaults dropped from the call'),
    ('pyworkers/persistent_thread.py', "            kwargs = copy.deepcopy(self._kwargs)\n", "            kwargs = self._kwargs\n", 'thread: default kwargs mutated across calls'),
    ('pyworkers/persistent_process.py', "        return self._counter\n", "        return self._counter + 1\n", 'process: final result is not the number of processed inputs'),
]


def build(ex):
    common.install(ex)
    persistent.spec_functions(ex)
    lemmas = []
    for ak in ('list', 'tuple'):
        lemmas.append((persistent.do_work_contract(ex, 'thread', f'L1t-{ak}', 'LocalPipe', ak), None))
        lemmas.append((persistent.do_work_contract(ex, 'thread', f'L1tp-{ak}', 'Pipe', ak), None))
        lemmas.append((persistent.do_work_contract(ex, 'process', f'L1p-{ak}', 'Pipe', ak), None))
        lemmas.append((persistent.do_work_contract(ex, 'remote', f'L1r-{ak}', 'Pipe', ak), None))
    lemmas += parent_side(ex)
    lemmas += producer_side(ex)
    return lemmas


def producer_side(ex):
    """L5: enqueue of the three kinds writes exactly the (args, kwargs) pair it was given to the argument channel of a live, open worker and raises
    WorkerClosedError - writing nothing - on a dead or closed one; L5c: close writes the single None; L6: call() = enqueue + next_result"""
    from pyvc.smt import Val, ValList, SeqVal
    from pyvc.contracts import Contract
    from . import workers as W
    repo = ex.repo
    PWK = 'pyworkers.persistent.PersistentWorker'
    out = []

    def base(ex_, env, kind):
        I = ex_.interp
        if 'Proc' not in ex_.abs_classes:
            ex_.abs_classes['Proc'] = W.proc_class()
        cls = persistent.KINDS[kind]
        closed0 = I.sym('closed0', 'bool')
        if kind == 'thread':
            child = VAbs('Proc', Val.v_str(z3.IntVal(smt.str_code('<child thread>'))))
            ap, aends = common.make_pipe(ex_, 'args', 'LocalPipe')
            rp, rends = common.make_pipe(ex_, 'results', 'LocalPipe')
            attrs = {'_results_pipe': rp, '_args_pipe': ap, '_started': VBool(True), '_dead': I.sym('dead0', 'bool'), '_child': child, '_tid': I.sym('child_tid'),
                     '_closed': closed0}
            env['self'] = ex_.alloc(HObj(repo.cls(cls), attrs))
            env['argq'] = aends['q']
            env['resq'] = rends['q']
            ex_.ghost['__call_hooks__'] = {repo.lookup_method(repo.cls(cls), 'is_child')[0].qualname: lambda I2, fi, a, k, n, s: VBool(False)}
        elif kind == 'process':
            W.install(ex_)
            self_v = W.process_parent(ex_, env, cls=cls)
            child = env['child']
            ap, aends = common.make_pipe(ex_, 'args', 'Pipe')
            rp, rends = common.make_pipe(ex_, 'results', 'Pipe')
            a = ex_.heap[self_v.addr].attrs
            a.update({'_args_pipe': ap, '_results_pipe': rp, '_closed': closed0, '_cleaned_up': VBool(False)})
            env['argq'] = aends['parent']
            env['resq'] = rends['parent']
            # representation invariant of the parent side: the argument pipe's parent end is open exactly while the worker is not closed (_release_child)
            ex_.abs_classes['Conn'].set(ex_, aends['parent'], 'open', z3.Not(closed0.e))
            ex_.ghost['__call_hooks__'] = {}
        else:
            child = VAbs('Proc', Val.v_str(z3.IntVal(smt.str_code('<front-end thread>'))))
            s = common.new_chan(ex_, 'Conn', 'sock')
            rp, rends = common.make_pipe(ex_, 'results', 'LocalPipe')
            attrs = {'_started': VBool(True), '_dead': I.sym('dead0', 'bool'), '_child': child, '_remote_dead': I.sym('remote_dead0', 'bool'),
                     '_socket': s, '_remote_side': VBool(False), '_is_backend': VBool(False), '_result': I.sym('result0'), '_results_pipe': rp,
                     '_closed': closed0, '_socket_closed': I.sym('socket_closed0', 'bool'), '_ctrl_sock': common.new_chan(ex_, 'Conn', 'ctrlsock')}
            ex_.ghost['chan_elem_inv'] = {'ctrlsock': lambda ex2, x, i: Val.is_v_bool(x)}      # replies to 'alive' requests are booleans
            env['self'] = ex_.alloc(HObj(repo.cls(cls), attrs))
            env['argq'] = s
            env['resq'] = rends['q']
            ex_.ghost['__call_hooks__'] = dict(common.MSG_HOOKS)
            ex_.ghost['send_raises'] = {'sock': ['ConnectionClosedError']}
        ex_.abs_classes['Proc'].set(ex_, child, 'alive', ex_.fresh('child_alive', smt.Bool))
        env['child'] = child
        env['closed0'] = closed0
        ac = ex_.abs_classes[env['argq'].cls]
        out0 = ex_.fresh('args_out0', SeqVal)
        ac.set(ex_, env['argq'], 'out', out0)
        env['out0'] = VSeq(out0)
        ex_.ghost['recv_closed_check'] = False

    def enq_setup(kind):
        def su(ex_, env):
            base(ex_, env, kind)
            env['args'] = VSeq(ex_.fresh('enq_args', SeqVal))
            env['kwargs'] = common.new_odict(ex_, ex_.fresh('enq_kwargs', Val))
        return su

    def argout(c):
        return c.ex.abs_classes[c.env['argq'].cls].get(c.ex, c.env['argq'], 'out')

    def was_dead_or_closed(c):
        ex_ = c.ex
        a0 = ex_.old['heap'][c.env['self'].addr].attrs
        a1 = ex_.heap[c.env['self'].addr].attrs
        closed = a0['_closed'].e
        if '_socket_closed' in a0:
            closed = z3.Or(closed, a0['_socket_closed'].e)
        # dead: known dead before, or observed dead by this very call (then cached)
        return z3.Or(closed, a0['_dead'].e, a1['_dead'].e)

    def pair(c):
        return Val.v_tup(smt.mk_list([lower(c.env['args'], c.ex), lower(c.env['kwargs'], c.ex)]))

    def enq_ok(c):
        ex_ = c.ex
        a1 = ex_.heap[c.env['self'].addr].attrs
        sent = argout(c) == z3.Concat(c.env['out0'].e, z3.Unit(pair(c)))
        ok = z3.And(z3.Not(was_dead_or_closed(c)), sent)
        if '_socket_closed' in a1:
            lost = z3.And(z3.Not(was_dead_or_closed(c)), argout(c) == c.env['out0'].e, a1['_socket_closed'].e)
            return z3.Or(z3.And(ok, z3.Not(a1['_socket_closed'].e)), lost)
        return ok
    enq_ok.__doc__ = ('enqueue returns normally only on a worker that is neither closed nor (observed) dead, and then exactly one message, the pair (args, kwargs) as given, '
                      'has been appended to the argument channel [remote kind: or the connection was found lost, nothing was appended and _socket_closed is now set]')

    def enq_closed(c):
        return z3.And(was_dead_or_closed(c), argout(c) == c.env['out0'].e)
    enq_closed.__doc__ = 'WorkerClosedError exactly on a closed or dead worker, and nothing has been written'
    for kind in ('thread', 'process', 'remote'):
        cls = persistent.KINDS[kind]
        out.append((Contract(cls + '.enqueue', lid=f'L5-{kind}', name=f'C05.L5-{kind} enqueue writes exactly the pair it was given, or raises WorkerClosedError and writes nothing',
                             params={'self': ('const', None), 'args': ('const', None), 'kwargs': ('const', None)}, self_class=cls, setup=enq_setup(kind),
                             ensures=[enq_ok], raises={'WorkerClosedError': enq_closed}, raises_only=['WorkerClosedError'], options={'recv_closed_check': False}), None))

    # ---- close(): at most one None, and the worker is closed afterwards
    def close_post(c):
        ex_ = c.ex
        a0 = ex_.old['heap'][c.env['self'].addr].attrs
        a1 = ex_.heap[c.env['self'].addr].attrs
        o = argout(c)
        o0 = c.env['out0'].e
        closed0 = a0['_closed'].e
        if '_socket_closed' in a0:
            closed0 = z3.Or(closed0, a0['_socket_closed'].e)
        one_none = o == z3.Concat(o0, z3.Unit(Val.v_none))
        return z3.And(z3.Or(o == o0, one_none), z3.Implies(closed0, o == o0), z3.Implies(one_none, a1['_closed'].e))
    close_post.__doc__ = 'close() writes nothing but at most one None to the argument channel, nothing on an already closed worker, and having written it the worker is closed (so no pair can follow)'
    # ---- call(): enqueue + next_result (thread kind; the other kinds differ only in enqueue, which L5 covers)
    def four(x):
        l0 = Val.vitems(x)
        l1 = ValList.vl_tl(l0)
        l2 = ValList.vl_tl(l1)
        l3 = ValList.vl_tl(l2)
        return z3.And(Val.is_v_tup(x), ValList.is_vl_cons(l0), ValList.is_vl_cons(l1), Val.is_v_bool(ValList.vl_hd(l1)), ValList.is_vl_cons(l2),
                      ValList.is_vl_cons(l3), ValList.is_vl_nil(ValList.vl_tl(l3)))

    def call_setup(ex_, env):
        enq_setup('thread')(ex_, env)
        q = env['resq']
        ac = ex_.abs_classes['Queue']
        inq = ac.get(ex_, q, 'inq')
        ipos0 = ex_.fresh('ipos0', smt.Int)
        ac.set(ex_, q, 'ipos', ipos0)
        ex_.assume(z3.And(ipos0 >= 0, ipos0 <= z3.Length(inq)))
        env['inq'] = VSeq(inq)
        env['ipos0'] = VInt(ipos0)
        ex_.ghost['chan_elem_inv'] = {'results.q': lambda ex2, x, ipos: four(x)}

    def rpos(c):
        return c.ex.abs_classes['Queue'].get(c.ex, c.env['resq'], 'ipos')

    def sent_one(c):
        return argout(c) == z3.Concat(c.env['out0'].e, z3.Unit(pair(c)))

    def call_ok(c):
        inq, p0 = c.env['inq'].e, c.env['ipos0'].e
        x = inq[p0]
        flag = Val.vb(ValList.vl_hd(ValList.vl_tl(Val.vitems(x))))
        value = ValList.vl_hd(ValList.vl_tl(ValList.vl_tl(Val.vitems(x))))
        return z3.And(sent_one(c), p0 < z3.Length(inq), rpos(c) == p0 + 1, flag, lower(c.env['result'], c.ex) == value)
    call_ok.__doc__ = 'call() hands over exactly one (args, kwargs) pair as given and returns the value of the next result message as it is'

    def call_closed(c):
        return z3.And(enq_closed(c), rpos(c) == c.env['ipos0'].e)
    call_closed.__doc__ = 'WorkerClosedError exactly on a closed or dead worker: nothing written, no result consumed'

    def call_empty(c):
        inq, p0 = c.env['inq'].e, c.env['ipos0'].e
        flag = Val.vb(ValList.vl_hd(ValList.vl_tl(Val.vitems(inq[p0]))))
        return z3.And(sent_one(c), z3.Or(z3.And(rpos(c) == p0 + 1, p0 < z3.Length(inq), z3.Not(flag)), rpos(c) == p0))
    call_empty.__doc__ = 'queue.Empty only after the input was handed over, when the next message is the end marker or nothing can be read (the worker died)'
    out.append((Contract(PWK + '.call', lid='L6', name='C05.L6 call() = one enqueue as given + the value of the next result',
                         params={'self': ('const', None), 'args': ('const', None), 'kwargs': ('const', None)}, self_class=persistent.KINDS['thread'], setup=call_setup,
                         ensures=[call_ok], raises={'WorkerClosedError': call_closed, 'queue.Empty': call_empty}, raises_only=['WorkerClosedError', 'queue.Empty'],
                         options={'recv_closed_check': False}), None))

    for kind in ('thread', 'process', 'remote'):
        cls = persistent.KINDS[kind]

        def su(ex_, env, kind=kind):
            base(ex_, env, kind)
        out.append((Contract(cls + '.close', lid=f'L5c-{kind}', name=f'C05.L5c-{kind} close writes the single None of the argument channel',
                             params={'self': ('const', None)}, self_class=cls, setup=su,
                             ensures=[close_post], raises={}, raises_only=[], options={'recv_closed_check': False}), None))
    return out


def parent_side(ex):
    """L4: the consumer side - next_result / results_iter hand out the values of the result messages in order, one per message, whatever the value
    (None and falsy values included); the stream ends at the end marker"""
    from pyvc.smt import Val, ValList, SeqVal
    from pyvc.contracts import Contract, Loop
    from pyvc.core import PyRaise
    repo = ex.repo
    PWK = 'pyworkers.persistent.PersistentWorker'
    PTW = 'pyworkers.persistent_thread.PersistentThreadWorker'
    out = []

    def four(x):
        l0 = Val.vitems(x)
        l1 = ValList.vl_tl(l0)
        l2 = ValList.vl_tl(l1)
        l3 = ValList.vl_tl(l2)
        return z3.And(Val.is_v_tup(x), ValList.is_vl_cons(l0), ValList.is_vl_cons(l1), Val.is_v_bool(ValList.vl_hd(l1)), ValList.is_vl_cons(l2),
                      ValList.is_vl_cons(l3), ValList.is_vl_nil(ValList.vl_tl(l3)))

    def flag(x):
        return Val.vb(ValList.vl_hd(ValList.vl_tl(Val.vitems(x))))

    def value(x):
        return ValList.vl_hd(ValList.vl_tl(ValList.vl_tl(Val.vitems(x))))

    def consumer(ex_, env):
        I = ex_.interp
        rp, rends = common.make_pipe(ex_, 'results', 'LocalPipe')
        ap, aends = common.make_pipe(ex_, 'args', 'LocalPipe')
        child = VAbs('Proc', Val.v_str(z3.IntVal(smt.str_code('<child thread>'))))
        from . import workers as W
        if 'Proc' not in ex_.abs_classes:
            ex_.abs_classes['Proc'] = W.proc_class()
        ex_.abs_classes['Proc'].set(ex_, child, 'alive', ex_.fresh('child_alive', smt.Bool))
        cur_tid = I.sym('cur_tid')
        attrs = {'_results_pipe': rp, '_args_pipe': ap, '_started': VBool(True), '_dead': I.sym('dead0', 'bool'), '_child': child, '_tid': I.sym('child_tid'),
                 '_closed': I.sym('closed0', 'bool')}
        env['self'] = ex_.alloc(HObj(repo.cls(PTW), attrs))
        env['self_child'] = child
        # representation invariant of every worker kind (C04.L2): _dead is set only after the child has been observed dead
        ex_.assume(z3.Implies(attrs['_dead'].e, z3.Not(ex_.abs_classes['Proc'].get(ex_, child, 'alive'))))
        q = rends['q']
        env['resq'] = q
        ac = ex_.abs_classes['Queue']
        inq = ac.get(ex_, q, 'inq')
        ipos0 = ex_.fresh('ipos0', smt.Int)
        ac.set(ex_, q, 'ipos', ipos0)
        ex_.assume(z3.And(ipos0 >= 0, ipos0 <= z3.Length(inq)))
        env['inq'] = VSeq(inq)
        env['ipos0'] = VInt(ipos0)
        env['k0'] = VInt(ex_.fresh('k0', smt.Int))
        ex_.ghost['chan_elem_inv'] = {'results.q': lambda ex2, x, ipos: four(x)}
        ex_.ghost['__call_hooks__'] = {repo.lookup_method(repo.cls(PTW), 'is_child')[0].qualname: lambda I2, fi, a, k, n, s: VBool(False)}

    # ---- next_result
    def nr_ok(c):
        ex_ = c.ex
        q = c.env['resq']
        inq = c.env['inq'].e
        p0 = c.env['ipos0'].e
        p1 = ex_.abs_classes['Queue'].get(ex_, q, 'ipos')
        return z3.And(p0 < z3.Length(inq), p1 == p0 + 1, flag(inq[p0]), lower(c.env['result'], ex_) == value(inq[p0]))
    nr_ok.__doc__ = 'next_result consumes exactly one message, it is a result message (flag True), and its value is returned as it is - None and falsy values included'

    def nr_empty(c):
        ex_ = c.ex
        q = c.env['resq']
        inq = c.env['inq'].e
        p0 = c.env['ipos0'].e
        p1 = ex_.abs_classes['Queue'].get(ex_, q, 'ipos')
        nothing = p1 == p0
        blk = c.env['block']
        if isinstance(blk, VBool) and z3.is_true(smt.simp(blk.e)) and c.env['timeout'] is NONE:
            # a blocking call without timeout gives up without a message only on a worker that is dead: while the child lives - closed or not - its
            # results and its end marker are still to come, and "nothing yet" is not "the stream has ended"
            alive_now = z3.Select(ex_.absfields[('Proc', 'alive')], c.env['self_child'].key) if ('Proc', 'alive') in ex_.absfields else z3.BoolVal(True)
            nothing = z3.And(nothing, z3.Not(alive_now))
        return z3.Or(z3.And(p1 == p0 + 1, p0 < z3.Length(inq), z3.Not(flag(inq[p0]))), nothing)
    nr_empty.__doc__ = ('queue.Empty exactly for the end marker (consumed) or when nothing can be read - which a blocking call without timeout may conclude only for a '
                        'DEAD worker (a live one, closed or not, still owes its results and its end marker)')
    for bt in (('blocking', VBool(True)), ('non-blocking', VBool(False))):
        def su(ex_, env, b=bt[1]):
            consumer(ex_, env)
            env['block'] = b
            env['timeout'] = NONE
        out.append((Contract(PWK + '.next_result', lid='L4-next', name='C05.L4-next next_result hands out the value of the next result message, whatever it is',
                             params={'self': ('const', None), 'block': ('const', None), 'timeout': ('const', None)}, self_class=PTW, setup=su,
                             ensures=[nr_ok], raises={'queue.Empty': nr_empty}, raises_only=['queue.Empty'], options={'recv_closed_check': False}), (bt[0], lambda ex_, env: None)))

    # ---- results_iter
    def ri_setup(maxi):
        def su(ex_, env):
            consumer(ex_, env)
            if maxi:
                m = ex_.fresh('maxitems', smt.Int)
                ex_.assume(m >= 0)
                env['maxitems'] = VInt(m)
            else:
                env['maxitems'] = NONE
            q = env['resq']

            def next_result(I2, fi, a, k, n, s):
                # by its contract L4-next
                ac = ex_.abs_classes['Queue']
                inq, p = ac.get(ex_, q, 'inq'), ac.get(ex_, q, 'ipos')
                if not ex_.branch(p < z3.Length(inq), 'next_result:message'):
                    raise PyRaise(VExc('queue.Empty', []))
                ex_.assume(four(inq[p]))
                ac.set(ex_, q, 'ipos', p + 1)
                if not ex_.branch(flag(inq[p]), 'next_result:flag'):
                    raise PyRaise(VExc('queue.Empty', []))
                return VSym(value(inq[p]))
            hooks = dict(ex_.ghost['__call_hooks__'])
            hooks[PWK + '.next_result'] = next_result
            ex_.ghost['__call_hooks__'] = hooks
        return su

    def yielded(c):
        return c.ex.heap[c.env['__yielded__'].addr].seq

    def iter_counter(fi):
        # the local that counts the yielded values (incremented once per value), read off the AST so that a renaming is followed
        import ast
        for n in ast.walk(fi.node):
            if isinstance(n, ast.AugAssign) and isinstance(n.op, ast.Add) and isinstance(n.target, ast.Name):
                return n.target.id
        return 'cnt'
    CNT = iter_counter(repo.func(PWK + '.results_iter'))

    def prefix_inv(c):
        ex_ = c.ex
        q = c.env['resq']
        inq, p0 = c.env['inq'].e, c.env['ipos0'].e
        p = ex_.abs_classes['Queue'].get(ex_, q, 'ipos')
        y = yielded(c)
        k0 = c.env['k0'].e
        cnt = c.env[CNT].e
        mi = c.env['maxitems']
        bound = z3.BoolVal(True) if mi is NONE else cnt <= mi.e
        return z3.And(z3.Length(y) == cnt, p == p0 + cnt, cnt >= 0, p <= z3.Length(inq), bound,
                      z3.Implies(z3.And(k0 >= 0, k0 < cnt), z3.And(flag(inq[p0 + k0]), y[k0] == value(inq[p0 + k0]))))
    prefix_inv.__doc__ = 'what has been yielded so far is exactly the values of the messages consumed so far, in order (position k0 arbitrary), all of them result messages'

    def iter_post(c):
        ex_ = c.ex
        q = c.env['resq']
        inq, p0 = c.env['inq'].e, c.env['ipos0'].e
        p = ex_.abs_classes['Queue'].get(ex_, q, 'ipos')
        r = c.env['result']
        y = ex_.heap[r.addr].seq
        n = z3.Length(y)
        k0 = c.env['k0'].e
        mi = c.env['maxitems']
        each = z3.Implies(z3.And(k0 >= 0, k0 < n), z3.And(flag(inq[p0 + k0]), y[k0] == value(inq[p0 + k0])))
        stopped_by_marker = z3.And(p == p0 + n + 1, z3.Not(flag(inq[p0 + n])))
        nothing_more = z3.And(p == p0 + n, p == z3.Length(inq))
        full = z3.BoolVal(False) if mi is NONE else z3.And(n == mi.e, p == p0 + n)
        return z3.And(each, z3.Or(stopped_by_marker, nothing_more, full))
    iter_post.__doc__ = ('results_iter yields the value of every result message from the current position on, in order, whatever the values are; it stops only at the '
                         'end marker, when nothing more can be read, or after maxitems values')
    for mi in (False, True):
        out.append((Contract(PWK + '.results_iter', lid='L4-iter', name='C05.L4-iter results_iter yields exactly the delivered results in order and stops only at the end of the stream',
                             params={'self': ('const', None), 'maxitems': ('const', None)}, self_class=PTW, setup=lambda ex_, env: None,
                             ensures=[iter_post], raises={}, raises_only=[],
                             loops={0: Loop(invariant=[prefix_inv], modifies=['__yielded__', 'abs:Queue.ipos'], locals={CNT: 'int'})},
                             options={'symbolic_yield': True, 'recv_closed_check': False}), ('maxitems given' if mi else 'maxitems=None', ri_setup(mi))))
    return out


# ------------------------------------------------------------------------------ replay on the real code
def _scenario(lemma):
    kind = 'thread'
    if 'L1p' in lemma or 'process' in lemma:
        kind = 'process'
    if 'L1r' in lemma or 'remote' in lemma:
        kind = 'remote'
    return {'kind': kind, 'args_kind': 'tuple' if 'tuple' in lemma else 'list'}


def replay(ob, repo):
    from pyvc.native import run_script
    r = run_script('c05_native.py', _scenario(ob['lemma']), repo, timeout=150)
    return bool(r.get('violates')), r


def replay_file(path, repo):
    import json
    from pyvc.native import run_script
    d = json.load(open(path))
    r = run_script('c05_native.py', _scenario(d.get('lemma', '')), repo, timeout=150)
    print(json.dumps(r, indent=1, default=str))
    if r.get('violates'):
        print(f'VIOLATION property=C05 replay={path}')
        return 1
    return 0
