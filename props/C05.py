"""C05 - persistent workers process each enqueue exactly once, in order, with merged arguments."""
import z3

from pyvc import smt, extlib
from pyvc.values import *  # noqa
from . import common, persistent

ID = 'C05'
MIN_OBLIGATIONS = 20
TRUSTED = [common.TEXT['chan'], common.TEXT['target'], extlib.TEXT['copy']]
ASSUMPTIONS = [
    'argument channel invariant (appendix B.7): the parent writes only (args, kwargs) pairs and at most one None; proved for the parent side in lemma L4*',
    'kwargs dictionaries are opaque mathematical values; d.update(e) is the uninterpreted function dict_update(d, e), which is also what the property text means by "overriding default ones"',
]


MUTANTS = [
    ('pyworkers/persistent_thread.py', "            args = list(copy.deepcopy(self._args))\n", "            args = list(self._args)\n            args = self._args\n", 'thread: defaults no longer copied (calls see what earlier calls left)'),
    ('pyworkers/persistent_process.py', "            args[0:len(extra_args)] = extra_args\n", "            args[0:1] = extra_args\n", 'process: only the first default is replaced'),
    ('pyworkers/persistent_remote.py', "            kwargs.update(extra_kwargs)\n", "", 'remote: enqueued keyword arguments ignored'),
    ('pyworkers/persistent_thread.py', "        self._counter += 1\n        self._results_pipe.child_end.put((self._counter, True, result, self.id))", "        self._results_pipe.child_end.put((self._counter, True, result, self.id))\n        self._counter += 1", 'thread: counter incremented after the send (messages numbered from 0)'),
    ('pyworkers/persistent_process.py', "            result = self.run(*args, **kwargs)\n            self._send_result(result)", "            result = self.run(*args, **kwargs)\n            if result is not None:\n                self._send_result(result)", 'process: None results are not delivered'),
    ('pyworkers/persistent_remote.py', "            result = self.run(*args, **kwargs)\n", "            result = self.run(*extra_args, **kwargs)\n", 'remote: defaults dropped from the call'),
    ('pyworkers/persistent_thread.py', "            kwargs = copy.deepcopy(self._kwargs)\n", "            kwargs = self._kwargs\n", 'thread: default kwargs mutated across calls'),
    ('pyworkers/persistent_process.py', "        return self._counter\n", "        return self._counter + 1\n", 'process: final result is not the number of processed inputs'),
]


def build(ex):
    common.install(ex)
    persistent.spec_functions(ex)
    lemmas = []
    for ak in ('list', 'tuple'):
        lemmas.append((persistent.do_work_contract(ex, 'thread', f'L1t-{ak}', 'LocalPipe', ak), None))
        lemmas.append((persistent.do_work_contract(ex, 'thread', f'L1tp-{ak}', 'Pipe', ak), None))
        lemmas.append((persistent.do_work_contract(ex, 'process', f'L1p-{ak}', 'Pipe', ak), None))
        lemmas.append((persistent.do_work_contract(ex, 'remote', f'L1r-{ak}', 'Pipe', ak), None))
    return lemmas


# ------------------------------------------------------------------------------ replay on the real code
def _scenario(lemma):
    kind = 'thread'
    if 'L1p' in lemma or 'process' in lemma:
        kind = 'process'
    if 'L1r' in lemma or 'remote' in lemma:
        kind = 'remote'
    return {'kind': kind, 'args_kind': 'tuple' if 'tuple' in lemma else 'list'}


def replay(ob, repo):
    from pyvc.native import run_script
    r = run_script('c05_native.py', _scenario(ob['lemma']), repo, timeout=150)
    return bool(r.get('violates')), r


def replay_file(path, repo):
    import json
    from pyvc.native import run_script
    d = json.load(open(path))
    r = run_script('c05_native.py', _scenario(d.get('lemma', '')), repo, timeout=150)
    print(json.dumps(r, indent=1, default=str))
    if r.get('violates'):
        print(f'VIOLATION property=C05 replay={path}')
        return 1
    return 0
