"""Child-side run functions of the one-shot / persistent kinds under contract (cones of C01, C02, C03, C06, C16)."""
import z3

from pyvc import smt
from pyvc.smt import Val, ValList, SeqVal
from pyvc.values import *  # noqa
from pyvc.contracts import Contract, Loop, InjectCfg
from . import common, workers
from .workers import PW, TW, RW, W

child_state_f = z3.Function('child_state', smt.Int, Val)      # user_state after the n-th user call (user code may assign it)


def tup(*xs):
    return Val.v_tup(smt.mk_list(list(xs)))


def process_child(ex, env, cls=PW):
    """a ProcessWorker object as it arrives in the freshly spawned child, about to execute _run"""
    I = ex.interp
    ci = ex.repo.cls(cls)
    comms, cends = common.make_pipe(ex, 'comms', 'Pipe')
    ctrl, ctends = common.make_pipe(ex, 'ctrl', 'Pipe')
    target = I.sym('target')
    args = ex.alloc(HSymList(ex.fresh('args', SeqVal)))
    kwargs = common.new_odict(ex, ex.fresh('kwargs', Val))
    ppid = I.sym('parent_pid')
    attrs = {'_started': VBool(True), '_dead': VBool(False), '_is_child': VBool(False), '_child': I.sym('child_handle'),
             '_result': NONE, '_user_state': I.sym('state0'), '_comms': comms, '_ctrl_comms': ctrl,
             '_host': I.sym('host'), '_pid': ppid, '_tid': I.sym('ptid'), '_ident': I.sym('pident'),
             '_parent_host': I.sym('phost'), '_parent_pid': ppid, '_parent_tid': I.sym('ptid2'),
             '_target': target, '_args': args, '_kwargs': kwargs, '_name': I.sym('name'), '_userid': I.sym('userid'),
             '_do_run': VBool(True), '_set_names': I.sym('set_names', 'bool')}
    self_v = ex.alloc(HObj(ci, attrs))
    cur_pid = ex.ext_models['os.getpid'](ex, [], {})
    ex.assume(cur_pid.t != ppid.t)         # we are in the child: another process than the parent
    env.update(self=self_v, out=cends['child'], ctrl_parent=ctends['parent'], target=target,
               args0=VSeq(ex.heap[args.addr].seq), kw0=VSym(ex.abs_classes['ODict'].get(ex, kwargs, 'content')))
    ex.ghost['calls'] = z3.Empty(SeqVal)
    ex.ghost['ncalls'] = z3.IntVal(0)
    return self_v


def user_call(ex, f, args, kwargs, node):
    """the target: apply(); it may assign self.user_state (child side), modelled as a fresh value per call"""
    env = ex.ghost['__childenv__']
    n = ex.ghost['ncalls'] + 1
    ex.ghost['ncalls'] = n
    h = ex.heap[env['self'].addr]
    h.attrs['_user_state'] = VSym(child_state_f(n))
    return common.opaque_call(ex, f, args, kwargs, node)


def process_run_contract(ex, lid='L2', inject=None, cls=PW):
    def setup(ex_, env):
        process_child(ex_, env, cls)
        ex_.ghost['__childenv__'] = env

    def reported(c):
        """what the parent will find in the result pipe"""
        ex_ = c.ex
        out = ex_.abs_classes['Conn'].get(ex_, c.env['out'], 'out')
        h = ex_.heap[c.env['self'].addr].attrs
        ident = tup(lower(h['_pid'], ex_), lower(h['_tid'], ex_), lower(h['_ident'], ex_))
        st = lower(h['_user_state'], ex_)
        tgt = c.env['target'].t
        val = z3.If(tgt == Val.v_none, Val.v_none, common.apply_f(tgt, c.env['args0'].e, c.env['kw0'].t))
        ok_msg = tup(tup(Val.v_bool(z3.BoolVal(True)), val), st)
        return out == z3.Concat(z3.Unit(ident), z3.Unit(ok_msg))
    reported.__doc__ = 'the result pipe holds exactly [identity, ((True, target(*args, **kwargs)), user_state as last assigned in the child)]'

    def reported_error(c):
        ex_ = c.ex
        out = ex_.abs_classes['Conn'].get(ex_, c.env['out'], 'out')
        h = ex_.heap[c.env['self'].addr].attrs
        st = lower(h['_user_state'], ex_)
        exc = ex_.ghost.get('target_exc')
        if exc is None:
            return z3.BoolVal(False)
        last = out[z3.Length(out) - 1]
        return z3.And(z3.Length(out) == 2, last == tup(tup(Val.v_bool(z3.BoolVal(False)), lower(exc, ex_)), st))
    reported_error.__doc__ = 'the target raised an Exception: the pipe holds [identity, ((False, that exception), user_state)]'

    def outcome(c):
        ex_ = c.ex
        if ex_.ghost.get('target_exc') is not None:
            return reported_error(c)
        return reported(c)
    outcome.__doc__ = reported.__doc__ + ' / on an Exception from the target: [identity, ((False, e), user_state)]'

    return Contract(
        cls + '._run', lid=lid, name=f'C16.{lid} ProcessWorker._run reports ((ok, value), user_state) on return and on Exception',
        params={'self': ('const', None)}, self_class=cls, setup=setup,
        ensures=[outcome], raises={'AnyBaseException': None}, raises_only=['AnyBaseException'],
        inject=inject,
        options={'__opaque_call__': user_call, 'target_raises': ['AnyException', 'AnyBaseException'], 'recv_closed_check': False,
                 '__event_wait__': lambda ex_, ev: None})
