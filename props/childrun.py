"""Child-side run functions of the one-shot / persistent kinds under contract (cones of C01, C02, C03, C06, C16)."""
import z3

from pyvc import smt
from pyvc.smt import Val, ValList, SeqVal
from pyvc.values import *  # noqa
from pyvc.contracts import Contract, Loop, InjectCfg
from . import common, workers
from .workers import PW, TW, RW, W

child_state_f = z3.Function('child_state', smt.Int, Val)      # user_state after the n-th user call (user code may assign it)


def tup(*xs):
    return Val.v_tup(smt.mk_list(list(xs)))


def process_child(ex, env, cls=PW):
    """a ProcessWorker object as it arrives in the freshly spawned child, about to execute _run"""
    I = ex.interp
    ci = ex.repo.cls(cls)
    comms, cends = common.make_pipe(ex, 'comms', 'Pipe')
    ctrl, ctends = common.make_pipe(ex, 'ctrl', 'Pipe')
    target = I.sym('target')
    args = ex.alloc(HSymList(ex.fresh('args', SeqVal)))
    kwargs = common.new_odict(ex, ex.fresh('kwargs', Val))
    ppid = I.sym('parent_pid')
    attrs = {'_started': VBool(True), '_dead': VBool(False), '_is_child': VBool(False), '_child': I.sym('child_handle'),
             '_result': NONE, '_user_state': I.sym('state0'), '_comms': comms, '_ctrl_comms': ctrl,
             '_host': I.sym('host'), '_pid': ppid, '_tid': I.sym('ptid'), '_ident': I.sym('pident'),
             '_parent_host': I.sym('phost'), '_parent_pid': ppid, '_parent_tid': I.sym('ptid2'),
             '_target': target, '_args': args, '_kwargs': kwargs, '_name': I.sym('name'), '_userid': I.sym('userid'),
             '_do_run': VBool(True), '_set_names': I.sym('set_names', 'bool')}
    self_v = ex.alloc(HObj(ci, attrs))
    cur_pid = ex.ext_models['os.getpid'](ex, [], {})
    ex.assume(cur_pid.t != ppid.t)         # we are in the child: another process than the parent
    env.update(self=self_v, out=cends['child'], ctrl_parent=ctends['parent'], target=target,
               args0=VSeq(ex.heap[args.addr].seq), kw0=VSym(ex.abs_classes['ODict'].get(ex, kwargs, 'content')))
    ex.ghost['calls'] = z3.Empty(SeqVal)
    ex.ghost['ncalls'] = z3.IntVal(0)
    return self_v


def user_call(ex, f, args, kwargs, node):
    """the target: apply(); it may assign self.user_state (child side), modelled as a fresh value per call"""
    env = ex.ghost['__childenv__']
    n = ex.ghost['ncalls'] + 1
    ex.ghost['ncalls'] = n
    h = ex.heap[env['self'].addr]
    h.attrs['_user_state'] = VSym(child_state_f(n))
    return common.opaque_call(ex, f, args, kwargs, node)


def process_run_contract(ex, lid='L2', inject=None, cls=PW, prop='C16'):
    def setup(ex_, env):
        process_child(ex_, env, cls)
        ex_.ghost['__childenv__'] = env
        ex_.ghost['__child_kind__'] = 'process'

    def reported(c):
        """what the parent will find in the result pipe"""
        ex_ = c.ex
        out = ex_.abs_classes['Conn'].get(ex_, c.env['out'], 'out')
        h = ex_.heap[c.env['self'].addr].attrs
        ident = tup(lower(h['_pid'], ex_), lower(h['_tid'], ex_), lower(h['_ident'], ex_))
        st = lower(h['_user_state'], ex_)
        tgt = c.env['target'].t
        val = z3.If(tgt == Val.v_none, Val.v_none, common.apply_f(tgt, c.env['args0'].e, c.env['kw0'].t))
        ok_msg = tup(tup(Val.v_bool(z3.BoolVal(True)), val), st)
        return out == z3.Concat(z3.Unit(ident), z3.Unit(ok_msg))
    reported.__doc__ = 'the result pipe holds exactly [identity, ((True, target(*args, **kwargs)), user_state as last assigned in the child)]'

    def reported_error(c):
        ex_ = c.ex
        out = ex_.abs_classes['Conn'].get(ex_, c.env['out'], 'out')
        h = ex_.heap[c.env['self'].addr].attrs
        st = lower(h['_user_state'], ex_)
        exc = ex_.ghost.get('target_exc')
        if exc is None:
            return z3.BoolVal(False)
        last = out[z3.Length(out) - 1]
        return z3.And(z3.Length(out) == 2, last == tup(tup(Val.v_bool(z3.BoolVal(False)), lower(exc, ex_)), st))
    reported_error.__doc__ = 'the target raised an Exception: the pipe holds [identity, ((False, that exception), user_state)]'

    def outcome(c):
        ex_ = c.ex
        if ex_.ghost.get('target_exc') is not None:
            return reported_error(c)
        return reported(c)
    outcome.__doc__ = reported.__doc__ + ' / on an Exception from the target: [identity, ((False, e), user_state)]'

    return Contract(
        cls + '._run', lid=lid, name=f'{prop}.{lid} ProcessWorker._run reports ((ok, value), user_state) on return and on Exception',
        params={'self': ('const', None)}, self_class=cls, setup=setup,
        ensures=[outcome], raises={'AnyBaseException': None}, raises_only=['AnyBaseException'],
        inject=inject,
        options={'__opaque_call__': user_call, 'target_raises': ['AnyException', 'AnyBaseException'], 'recv_closed_check': False,
                 '__event_wait__': lambda ex_, ev: None})


# ------------------------------------------------------------------------------ injection mode (C03 / C01 / C06 / C16.L2)
def try_line(ex, qualname, first_stmt=False):
    import ast as _ast
    fi = ex.repo.func(qualname)
    for n in _ast.walk(fi.node):
        if isinstance(n, _ast.Try):
            return n.body[0].lineno if first_stmt else n.lineno
    return 0


def user_call_inj(ex, f, args, kwargs, node):
    """target under graceful terminate: it may return, raise its own exception, or be interrupted by the pending
    WorkerTerminatedError while it runs (it lets the exception propagate) - the latter consumes the injection budget"""
    env = ex.ghost['__childenv__']
    n = ex.ghost['ncalls'] + 1
    ex.ghost['ncalls'] = n
    h = ex.heap[env['self'].addr]
    h.attrs['_user_state'] = VSym(child_state_f(n))
    if ex.inject is not None and ex.injected < ex.inject.budget:
        if ex.choose(2, 'wte-in-target') == 1:
            ex.injected += 1
            ex.note('wte@target')
            ex.ghost.setdefault('__injections__', []).append(('wte', 'target', getattr(node, 'lineno', 0), 'inside the target', 'during'))
            ex.ghost['target_interrupted'] = True
            raise common.PyRaise(VExc('WorkerTerminatedError', [VStr('terminate called')]))
    r = common.opaque_call(ex, f, args, kwargs, node)
    ex.ghost['target_returned'] = True
    return r


def is_wte(term):
    return z3.And(Val.is_v_exc(term), Val.vecls(term) == smt.cls_code('WorkerTerminatedError'))


def c03_pair_ok(ex, c, pair):
    """pair = (flag, value) reported for a worker on which exactly one graceful terminate may have landed"""
    lst = Val.vitems(pair)
    flag = Val.vb(ValList.vl_hd(lst))
    value = ValList.vl_hd(ValList.vl_tl(lst))
    tgt = c.env['target'].t
    val = z3.If(tgt == Val.v_none, Val.v_none, common.apply_f(tgt, c.env['args0'].e, c.env['kw0'].t))
    own_ok = z3.And(z3.Or(z3.BoolVal(bool(ex.ghost.get('target_returned'))), tgt == Val.v_none), flag, value == val)
    texc = ex.ghost.get('target_exc')
    own_err = z3.And(z3.Not(flag), value == lower(texc, ex)) if texc is not None else z3.BoolVal(False)
    terminated = z3.And(z3.Not(flag), is_wte(value))
    return z3.Or(own_ok, own_err, terminated)


def process_run_injected(ex, lid, prop, cls=PW, budget=1):
    tl = try_line(ex, PW + '._run', first_stmt=True)     # the statement that reports the child's identity

    def setup(ex_, env):
        process_child(ex_, env, cls)
        ex_.ghost['__childenv__'] = env
        ex_.ghost['__child_kind__'] = 'process'

    def region(interp, st, fr):
        if fr.fi.name == '_run':
            return st.lineno > tl          # from "identity reported" (the constructor returns only after that) to exit
        return True

    def reported_outcome(c):
        ex_ = c.ex
        out = ex_.abs_classes['Conn'].get(ex_, c.env['out'], 'out')
        h = ex_.heap[c.env['self'].addr].attrs
        last = out[z3.Length(out) - 1]
        lst = Val.vitems(last)
        return z3.And(z3.Length(out) >= 2, c03_pair_ok(ex_, c, ValList.vl_hd(lst)))
    reported_outcome.__doc__ = ('C03.L2 (process): wherever the terminate request lands, the LAST message in the result pipe is a final message whose '
                                'pair is (False, WorkerTerminatedError) or the target\'s own outcome - the latter only if the target had completed')

    def state_reported(c):
        ex_ = c.ex
        out = ex_.abs_classes['Conn'].get(ex_, c.env['out'], 'out')
        h = ex_.heap[c.env['self'].addr].attrs
        last = out[z3.Length(out) - 1]
        st = ValList.vl_hd(ValList.vl_tl(Val.vitems(last)))
        return z3.Implies(z3.Length(out) >= 2, st == lower(h['_user_state'], ex_))
    state_reported.__doc__ = 'C16.L2: every final message carries the user_state as last assigned in the child'

    def well_formed(c):
        ex_ = c.ex
        out = ex_.abs_classes['Conn'].get(ex_, c.env['out'], 'out')
        k = c.env['kf'].e
        return z3.Implies(z3.And(k >= 1, k < z3.Length(out)), workers.final_msg_inv(ex_, out[k], None))
    well_formed.__doc__ = 'channel invariant B.1: every message after the identity is ((ok, value), user_state)'

    def setup2(ex_, env):
        setup(ex_, env)
        env['kf'] = VInt(ex_.fresh('kf', smt.Int))
    return Contract(
        cls + '._run', lid=lid, name=f'{prop}.{lid} ProcessWorker._run under one graceful terminate landing at any statement boundary (and inside the target)',
        params={'self': ('const', None)}, self_class=cls, setup=setup2,
        all_exits=[reported_outcome, state_reported, well_formed],
        raises={'AnyBaseException': None, 'WorkerTerminatedError': None}, raises_only=['AnyBaseException', 'WorkerTerminatedError'],
        inject=InjectCfg([cls + '._run', PW + '._run', W + '.do_work', W + '.run'], budget=budget, kinds=('wte',), region=region, split_store=True),
        options={'__opaque_call__': user_call_inj, 'target_raises': ['AnyException'], 'recv_closed_check': False,
                 '__event_wait__': lambda ex_, ev: None})


def thread_child(ex, env, cls=TW):
    I = ex.interp
    ci = ex.repo.cls(cls)
    ev = common.new_event(ex)
    cur_tid = ex.ext_models['threading.get_native_id'](ex, [], {})
    ptid = I.sym('parent_tid')
    ex.assume(ptid.t != cur_tid.t)
    target = I.sym('target')
    args = ex.alloc(HSymList(ex.fresh('args', SeqVal)))
    kwargs = common.new_odict(ex, ex.fresh('kwargs', Val))
    attrs = {'_startup_sync': ev, '_tid': ptid, '_ident': I.sym('pident'), '_set_names': I.sym('set_names', 'bool'), '_name': I.sym('name'),
             '_started': VBool(True), '_result': NONE, '_target': target, '_args': args, '_kwargs': kwargs, '_user_state': I.sym('state0')}
    self_v = ex.alloc(HObj(ci, attrs))
    env.update(self=self_v, ev=ev, target=target, args0=VSeq(ex.heap[args.addr].seq),
               kw0=VSym(ex.abs_classes['ODict'].get(ex, kwargs, 'content')))
    ex.ghost['calls'] = z3.Empty(SeqVal)
    ex.ghost['ncalls'] = z3.IntVal(0)
    ex.ghost['__childenv__'] = env
    return self_v


def thread_run_injected(ex, lid, prop, cls=TW, budget=1):
    tl = try_line(ex, TW + '._run')

    def region(interp, st, fr):
        if fr.fi.name == '_run':
            return st.lineno >= tl
        return True

    def recorded_outcome(c):
        ex_ = c.ex
        h = ex_.heap[c.env['self'].addr].attrs
        r = h['_result']
        if r is NONE:
            return z3.BoolVal(False)
        return c03_pair_ok(ex_, c, lower(r, ex_))
    recorded_outcome.__doc__ = ('C03.L2 / C01.L2 (thread): when the child thread ends, _result is (False, WorkerTerminatedError) or the target\'s own outcome '
                                '(only if the target had completed) - never None, whatever statement the request landed on')
    return Contract(
        TW + '._run', lid=lid, name=f'{prop}.{lid} ThreadWorker._run under one graceful terminate landing at any statement boundary (and inside the target)',
        params={'self': ('const', None)}, self_class=cls, setup=lambda ex_, env: thread_child(ex_, env, cls),
        all_exits=[recorded_outcome],
        raises={'WorkerTerminatedError': None}, raises_only=['WorkerTerminatedError'],
        inject=InjectCfg([TW + '._run', W + '.do_work', W + '.run'], budget=budget, kinds=('wte',), region=region, split_store=True),
        options={'__opaque_call__': user_call_inj, 'target_raises': ['AnyException', 'AnyBaseException']})


# ------------------------------------------------------------------------------ remote backend
def backend_child(ex, env, cls=RW):
    """a RemoteWorker as it arrives in the spawned backend process, about to execute _run_backend"""
    I = ex.interp
    ci = ex.repo.cls(cls)
    sock = common.new_chan(ex, 'Conn', 'data')
    comms, cends = common.make_pipe(ex, 'comms', 'Pipe')
    ctrl, ctends = common.make_pipe(ex, 'ctrl', 'Pipe')
    target = I.sym('target')
    args = ex.alloc(HSymList(ex.fresh('args', SeqVal)))
    kwargs = common.new_odict(ex, ex.fresh('kwargs', Val))
    th = I.sym('target_host')
    attrs = {'_socket': sock, '_comms': comms, '_ctrl_comms': ctrl, '_target': target, '_args': args, '_kwargs': kwargs,
             '_payload': NONE, '_host': I.sym('server_host'), '_pid': I.sym('server_pid'), '_tid': I.sym('stid'), '_ident': I.sym('sident'),
             '_target_host': th, '_reset_sigterm_hnd': I.sym('reset_hnd', 'bool'), '_is_backend': VBool(False), '_remote_side': VBool(True),
             '_set_names': I.sym('set_names', 'bool'), '_name': I.sym('name'), '_main_path': NONE, '_user_state': I.sym('state0'),
             '_started': VBool(True), '_context': I.sym('context'), '_result': NONE}
    self_v = ex.alloc(HObj(ci, attrs))
    cur_pid = ex.ext_models['os.getpid'](ex, [], {})
    ex.assume(cur_pid.t != attrs['_pid'].t)
    env['comms_child'] = cends['child']
    env.update(self=self_v, out=sock, target=target, args0=VSeq(ex.heap[args.addr].seq),
               kw0=VSym(ex.abs_classes['ODict'].get(ex, kwargs, 'content')), target_host=th)
    ex.ghost['calls'] = z3.Empty(SeqVal)
    ex.ghost['ncalls'] = z3.IntVal(0)
    ex.ghost['__childenv__'] = env
    ac = ex.abs_classes['Conn']
    ac.methods['getpeername'] = lambda ex_, a, k: VSym(ex_.fresh('peername', Val))
    ac.methods['getsockname'] = lambda ex_, a, k: env['target_host']
    ac.methods['shutdown'] = lambda ex_, a, k: (ex_.abs_classes['Conn'].set(ex_, a[0], 'peer_closed', ex_.abs_classes['Conn'].get(ex_, a[0], 'peer_closed')), NONE)[1]
    ex.ext_models['signal.signal'] = lambda ex_, a, k: NONE
    ex.call_hooks['pyworkers.remote.set_linger'] = lambda I_, fi, a, k, n, s: NONE
    return self_v


def backend_run_contract(ex, lid, prop, cls=RW, inject=None):
    def setup(ex_, env):
        backend_child(ex_, env, cls)

    def first_is_pair(c):
        ex_ = c.ex
        out = ex_.abs_classes['Conn'].get(ex_, c.env['out'], 'out')
        x = out[0]
        lst = Val.vitems(x)
        pair = z3.And(Val.is_v_tup(x), ValList.is_vl_cons(lst), Val.is_v_bool(ValList.vl_hd(lst)), ValList.is_vl_cons(ValList.vl_tl(lst)),
                      ValList.is_vl_nil(ValList.vl_tl(ValList.vl_tl(lst))))
        gone = ex_.ghost.get('data_send_failed', z3.BoolVal(False))
        return z3.Or(gone, z3.And(z3.Length(out) >= 1, pair))
    first_is_pair.__doc__ = ('channel invariant B.3: whatever ends the backend (return, Exception, BaseException), the first message it writes on the data '
                             'socket is a pair (flag, value) - never None (unless the connection itself is gone)')

    def genuine(c):
        ex_ = c.ex
        out = ex_.abs_classes['Conn'].get(ex_, c.env['out'], 'out')
        gone = ex_.ghost.get('data_send_failed', z3.BoolVal(False))
        x = out[0]
        return z3.Or(gone, c03_pair_ok_or_none(ex_, c, x))
    genuine.__doc__ = ('the pair is (True, target(*args, **kwargs)) if the target returned, (False, its exception) if it raised an Exception, and '
                       '(False, None) only if it was ended by a BaseException')

    def state_second(c):
        ex_ = c.ex
        out = ex_.abs_classes['Conn'].get(ex_, c.env['out'], 'out')
        h = ex_.heap[c.env['self'].addr].attrs
        gone = ex_.ghost.get('data_send_failed', z3.BoolVal(False))
        return z3.Or(gone, z3.And(z3.Length(out) == 2, out[1] == lower(h['_user_state'], ex_)))
    state_second.__doc__ = 'C16.L2 (remote): the second and last message is the user_state as last assigned in the child'

    def send_hook(interp, fi, args, kwargs, node, self_cls):
        try:
            return common.msg_send_hook(interp, fi, args, kwargs, node, self_cls)
        except common.PyRaise:
            interp.ex.ghost['data_send_failed'] = z3.BoolVal(True)
            raise
    hooks = dict(common.MSG_HOOKS)
    hooks['pyworkers.remote.send_msg'] = send_hook
    return Contract(
        cls + '._run_backend', lid=lid, name=f'{prop}.{lid} RemoteWorker._run_backend always reports a pair then the user_state on the data socket',
        params={'self': ('const', None)}, self_class=cls, setup=setup,
        all_exits=[first_is_pair, genuine, state_second],
        raises={'AnyBaseException': None, 'ConnectionClosedError': None},
        # under injection the pending WorkerTerminatedError itself may leave the function once everything has been reported, and the handler that talks to
        # the server pipe again may meet a server that is gone (EOFError / OSError): both are environment outcomes, what matters is all_exits
        raises_only=['AnyBaseException', 'ConnectionClosedError'] + (['WorkerTerminatedError', 'EOFError', 'OSError'] if inject is not None else []),
        inject=inject,
        options={'__opaque_call__': user_call_inj, 'target_raises': ['AnyException', 'AnyBaseException'], 'recv_closed_check': False,
                 '__call_hooks__': hooks, 'send_raises': {'data': ['ConnectionClosedError']}, 'assert_mode': 'oblige',
                 'chan_elem_inv': {'comms.child': lambda ex_, x, i: z3.BoolVal(True)}})


def c03_pair_ok_or_none(ex, c, pair):
    lst = Val.vitems(pair)
    flag = Val.vb(ValList.vl_hd(lst))
    value = ValList.vl_hd(ValList.vl_tl(lst))
    killed_by_base = z3.And(z3.BoolVal(ex.ghost.get('target_exc') is not None and ex.exc.is_sub(ex.ghost['target_exc'].cls, 'BaseException')
                                       and not ex.exc.is_sub(ex.ghost['target_exc'].cls, 'Exception')),
                            z3.Not(flag), value == Val.v_none)
    never_called = smt.simp(ex.ghost['ncalls'] == 0)
    failed_before_target = z3.And(never_called, z3.Not(flag), Val.is_v_exc(value))     # start-up failure of the worker machinery itself
    return z3.Or(c03_pair_ok(ex, c, pair), killed_by_base, failed_before_target)
