"""C06 - a persistent result stream is a correct prefix and always ends, whatever happens.

L3  the parent-side forwarding loop of the remote kind (PersistentRemoteWorker._fetch_results): forwarded messages are exactly the
    result messages received so far, the end marker is forwarded or fabricated EXACTLY ONCE on every exit (normal final result,
    connection loss at any iteration), the local pipe end is closed on every exit, a final outcome pair is always recorded.
L4  after death next_result() takes the non-blocking branch and raises queue.Empty on an empty channel (so results_iter() stops).
L1/L2 (child side: the result channel holds a correct prefix at EVERY point, one end marker on every non-kill exit) reuse the
    do_work loop contracts of C05 for the prefix part; the at-all-points / kill-injection form is listed under ASSUMPTIONS where
    not yet discharged in this round.
"""
import z3

from pyvc import smt
from pyvc.smt import Val, ValList, SeqVal
from pyvc.values import *  # noqa
from pyvc.contracts import Contract, Loop, InjectCfg
from . import common, workers, persistent

ID = 'C06'
MIN_OBLIGATIONS = 40
PRW = 'pyworkers.persistent_remote.PersistentRemoteWorker'
PWK = 'pyworkers.persistent.PersistentWorker'
PTW = 'pyworkers.persistent_thread.PersistentThreadWorker'
TRUSTED = [common.TEXT['chan'], common.TEXT['msgsock']]
ASSUMPTIONS = [
    'channel invariant B.3/B.6 for the data socket of a persistent backend (assumed by L3, proved for the writer only as far as C05.L1 goes): '
    'result messages (i, True, v, id) with i = 1..n, then at most one end marker (n or n+1, False, None, id), then the final pair and the user_state; the stream may END ANYWHERE',
    'L6 covers the child loop (do_work, _send_result) with one terminate / kill at every statement boundary; L7 covers the landing points inside _cleanup of the thread kind (open finding F-C06-4); for the process and remote kinds a marker lost there is made up for by EOF on the pipe / the fabricated marker of L3',
]
MUTANTS = [
    ('pyworkers/persistent.py', "        self._counter = 0 # (re)set by _init_child", "        pass # (re)set by _init_child", 'the result counter exists only after _init_child(): _cleanup crashes when the terminate lands earlier'),
    ('pyworkers/persistent_remote.py', "        if not last_partial_result_signalled: # e.g.", "        if False: # e.g.", 'no end marker fabricated when the final result arrives without one'),
    ('pyworkers/persistent_remote.py', "                if not last_partial_result_signalled:\n                    self._results_pipe.child_end.put((counter, False, None, self.id))\n                    last_partial_result_signalled = True\n                break",
     "                self._results_pipe.child_end.put((counter, False, None, self.id))\n                break", 'a second end marker is fabricated when the connection drops after the marker'),
    ('pyworkers/persistent_remote.py', "        self._results_pipe.child_end.close()\n\n    # Do not transfer results queue over network", "\n    # Do not transfer results queue over network", 'local pipe end left open'),
    ('pyworkers/persistent_remote.py', "                    counter += 1\n                    logger.debug(f'New intermediate result received: {counter}/{remote_counter}')\n                    self._results_pipe.child_end.put(result)",
     "                    counter += 1\n                    logger.debug(f'New intermediate result received: {counter}/{remote_counter}')", 'results not forwarded'),
    ('pyworkers/persistent.py', "        if not self.is_alive():\n            ret = self.results_endpoint.get_nowait()\n        else:\n            ret = self.results_endpoint.get(block=block, timeout=timeout)",
     "        ret = self.results_endpoint.get(block=block, timeout=timeout)", 'next_result blocks on a dead worker'),
    ('pyworkers/persistent.py', "        if not flag:\n            raise queue.Empty\n        return value", "        return value", 'next_result ignores the end-marker flag'),
]


def tup(*xs):
    return Val.v_tup(smt.mk_list(list(xs)))


def build(ex):
    workers.install(ex)
    repo = ex.repo
    lemmas = []

    # ------------------------------------------------------------------ L3 forwarding loop
    def fwd_setup(ex_, env):
        I = ex_.interp
        sock = common.new_chan(ex_, 'Conn', 'data')
        rp, rends = common.make_pipe(ex_, 'results', 'LocalPipe')
        host, pid, tid = I.sym('host'), I.sym('pid'), I.sym('tid')
        attrs = {'_socket': sock, '_results_pipe': rp, '_result': NONE, '_user_state': I.sym('state0'), '_socket_closed': VBool(False),
                 '_host': host, '_pid': pid, '_tid': tid, '_remote_side': VBool(False), '_is_backend': VBool(False)}
        env['self'] = ex_.alloc(HObj(repo.cls(PRW), attrs))
        env['sock'] = sock
        env['fwd'] = rends['q']
        n = ex_.fresh('nres', smt.Int)
        ex_.assume(n >= 0)
        env['nres'] = VInt(n)
        env['k0'] = VInt(ex_.fresh('k0', smt.Int))
        env['wid'] = VSym(tup(host.t, pid.t, tid.t))
        ex_.abs_classes['Queue'].methods['close'] = lambda ex2, a, k: (ex2.ghost.__setitem__('fwd_closed', z3.BoolVal(True)), NONE)[1]
        ex_.ghost['fwd_closed'] = z3.BoolVal(False)

        def stream_inv(ex2, x, ipos):
            lst = Val.vitems(x)
            i0 = ValList.vl_hd(lst)
            f1 = ValList.vl_hd(ValList.vl_tl(lst))
            v2 = ValList.vl_hd(ValList.vl_tl(ValList.vl_tl(lst)))
            w3 = ValList.vl_hd(ValList.vl_tl(ValList.vl_tl(ValList.vl_tl(lst))))
            four = z3.And(Val.is_v_tup(x), ValList.is_vl_cons(lst), ValList.is_vl_cons(ValList.vl_tl(lst)),
                          ValList.is_vl_cons(ValList.vl_tl(ValList.vl_tl(lst))),
                          ValList.is_vl_cons(ValList.vl_tl(ValList.vl_tl(ValList.vl_tl(lst)))),
                          ValList.is_vl_nil(ValList.vl_tl(ValList.vl_tl(ValList.vl_tl(ValList.vl_tl(lst))))))
            is_res = z3.And(four, i0 == Val.v_int(ipos + 1), f1 == Val.v_bool(True), w3 == env['wid'].t)
            is_mark = z3.And(four, z3.Or(i0 == Val.v_int(n), i0 == Val.v_int(n + 1)), f1 == Val.v_bool(False), v2 == Val.v_none, w3 == env['wid'].t)
            two = z3.And(Val.is_v_tup(x), ValList.is_vl_cons(lst), Val.is_v_bool(ValList.vl_hd(lst)), ValList.is_vl_cons(ValList.vl_tl(lst)),
                         ValList.is_vl_nil(ValList.vl_tl(ValList.vl_tl(lst))))
            has_marker = ex2.ghost['stream_has_marker']
            return z3.If(ipos < n, is_res,
                         z3.If(z3.And(ipos == n, has_marker), is_mark,
                               z3.If(ipos == n + z3.If(has_marker, 1, 0), two, z3.BoolVal(True))))
        ex_.ghost['stream_has_marker'] = ex_.fresh('stream_has_marker', smt.Bool)
        ex_.ghost['chan_elem_inv'] = {'data': stream_inv}
        # the channel invariant holds at every position of the stream: instantiate it at the Skolem position k0
        inq0 = ex_.abs_classes['Conn'].get(ex_, sock, 'inq')
        k0t = env['k0'].e
        for idx in (k0t, n, n + 1):
            ex_.assume(z3.Implies(z3.And(idx >= 0, idx < z3.Length(inq0)), stream_inv(ex_, inq0[idx], idx)))

    def is_marker(t):
        lst = Val.vitems(t)
        return z3.And(Val.is_v_tup(t), ValList.vl_hd(ValList.vl_tl(lst)) == Val.v_bool(False))

    def fwd_inv(c):
        ex_ = c.ex
        out = ex_.abs_classes['Queue'].get(ex_, c.env['fwd'], 'out')
        inq = ex_.abs_classes['Conn'].get(ex_, c.env['sock'], 'inq')
        ipos = ex_.abs_classes['Conn'].get(ex_, c.env['sock'], 'ipos')
        counter = c.env['counter'].e
        sig = c.env['last_partial_result_signalled'].e
        n = c.env['nres'].e
        k0 = c.env['k0'].e
        h = ex_.heap[c.env['self'].addr].attrs
        return z3.And(ipos >= 0, ipos <= z3.Length(inq),
                      z3.Length(out) == ipos, ipos <= n + 1,
                      counter == z3.If(sig, ipos - 1, ipos),
                      sig == z3.And(ipos == n + 1),
                      z3.Implies(sig, ex_.ghost['stream_has_marker']),
                      z3.Implies(z3.And(k0 >= 0, k0 < ipos), out[k0] == inq[k0]),
                      z3.Implies(sig, out[n] == inq[n]),
                      z3.BoolVal(h['_result'] is NONE))
    fwd_inv.__doc__ = ('every message received so far has been forwarded unchanged, in order; counter == number of result messages forwarded; '
                       'the marker flag is set exactly when the end marker has been forwarded; no final outcome recorded yet')

    def _fp(c):
        ex_ = c.ex
        out = ex_.abs_classes['Queue'].get(ex_, c.env['fwd'], 'out')
        inq = ex_.abs_classes['Conn'].get(ex_, c.env['sock'], 'inq')
        return ex_, out, inq, c.env['nres'].e, c.env['k0'].e, z3.Length(out)

    def ends_with_marker(c):
        ex_, out, inq, n, k0, m = _fp(c)
        return z3.And(m >= 1, is_marker(out[m - 1]))
    ends_with_marker.__doc__ = 'on EVERY exit the forwarded stream ends with an end marker (forwarded or fabricated)'

    def results_prefix(c):
        ex_, out, inq, n, k0, m = _fp(c)
        return z3.And(z3.Implies(z3.And(k0 >= 0, k0 < m - 1), z3.And(out[k0] == inq[k0], z3.Not(is_marker(out[k0])))), m - 1 <= n)
    results_prefix.__doc__ = 'everything before the marker is the received result messages, unchanged and in order (exactly one marker)'

    def pipe_closed(c):
        return c.ex.ghost['fwd_closed']
    pipe_closed.__doc__ = 'the local pipe end is closed on every exit'

    def outcome_recorded(c):
        ex_ = c.ex
        h = ex_.heap[c.env['self'].addr].attrs
        return lower(h['_result'], ex_) != Val.v_none
    outcome_recorded.__doc__ = 'a final outcome pair is recorded on every exit'

    def unread(c):
        ex_ = c.ex
        return z3.Length(ex_.abs_classes['Conn'].get(ex_, c.env['sock'], 'inq')) - ex_.abs_classes['Conn'].get(ex_, c.env['sock'], 'ipos')
    unread.__doc__ = 'number of unread messages on the data socket'

    lemmas.append((Contract(
        PRW + '._fetch_results', lid='L3', name='C06.L3 PersistentRemoteWorker._fetch_results forwards a correct prefix and ends the stream exactly once on every exit',
        params={'self': ('const', None)}, self_class=PRW, setup=fwd_setup,
        all_exits=[ends_with_marker, results_prefix, pipe_closed, outcome_recorded], raises={}, raises_only=[],
        loops={0: Loop(invariant=[fwd_inv], variant=unread,
                       modifies=['abs:Conn.ipos', 'abs:Queue.out'],
                       locals={'result': 'any', 'remote_counter': 'any', 'valid': 'any', 'value': 'any', 'wid': 'any'})},
        options={'__call_hooks__': dict(common.MSG_HOOKS), 'recv_closed_check': False}), None))

    # ------------------------------------------------------------------ L4 next_result after death
    def nr_setup(ex_, env):
        I = ex_.interp
        rp, rends = common.make_pipe(ex_, 'results', 'LocalPipe')
        ap, aends = common.make_pipe(ex_, 'args', 'LocalPipe')
        child = VAbs('Proc', Val.v_str(z3.IntVal(smt.str_code('<child thread>'))))
        ex_.abs_classes['Proc'].set(ex_, child, 'alive', z3.BoolVal(False))
        cur_tid = ex_.ext_models['threading.get_native_id'](ex_, [], {})
        ctid = I.sym('child_tid')
        ex_.assume(ctid.t != cur_tid.t)
        attrs = {'_results_pipe': rp, '_args_pipe': ap, '_started': VBool(True), '_dead': I.sym('dead0', 'bool'), '_child': child, '_tid': ctid,
                 '_closed': I.sym('closed0', 'bool')}
        env['self'] = ex_.alloc(HObj(repo.cls(PTW), attrs))
        env['resq'] = rends['q']
        env['block'] = VBool(True)
        env['timeout'] = NONE

    def nr_result(c):
        ex_ = c.ex
        q = c.env['resq']
        inq = ex_.abs_classes['Queue'].get(ex_, q, 'inq')
        ipos0 = ex_.old['absfields'][('Queue', 'ipos')]
        p0 = z3.Select(ipos0, q.key)
        head = inq[p0]
        lst = Val.vitems(head)
        return z3.And(p0 < z3.Length(inq), ValList.vl_hd(ValList.vl_tl(lst)) == Val.v_bool(True),
                      lower(c.env['result'], ex_) == ValList.vl_hd(ValList.vl_tl(ValList.vl_tl(lst))))
    nr_result.__doc__ = 'next_result returns the value of the head message, and only if its flag is True'

    def four_tuple(ex2, x, ipos):
        lst = Val.vitems(x)
        return z3.And(Val.is_v_tup(x), ValList.is_vl_cons(lst), ValList.is_vl_cons(ValList.vl_tl(lst)), Val.is_v_bool(ValList.vl_hd(ValList.vl_tl(lst))),
                      ValList.is_vl_cons(ValList.vl_tl(ValList.vl_tl(lst))), ValList.is_vl_cons(ValList.vl_tl(ValList.vl_tl(ValList.vl_tl(lst)))),
                      ValList.is_vl_nil(ValList.vl_tl(ValList.vl_tl(ValList.vl_tl(ValList.vl_tl(lst))))))
    lemmas.append((Contract(
        PWK + '.next_result', lid='L4', name='C06.L4 next_result on a dead worker never blocks: it returns the next delivered result or raises queue.Empty',
        params={'self': ('const', None), 'block': ('const', None), 'timeout': ('const', None)}, self_class=PTW, setup=nr_setup,
        ensures=[nr_result], raises={'queue.Empty': None}, raises_only=['queue.Empty'],
        options={'on_block': 'oblige', 'chan_elem_inv': {'results.q': four_tuple}, 'recv_closed_check': False}), None))
    # the same for the process kind, whose results endpoint is a PipeEndpoint (poll + recv) instead of a queue
    PPW_ = 'pyworkers.persistent_process.PersistentProcessWorker'

    def nr_setup_proc(ex_, env):
        self_v = workers.process_parent(ex_, env, cls=PPW_)
        a = ex_.heap[self_v.addr].attrs
        rp, rends = common.make_pipe(ex_, 'results', 'Pipe')
        ap, aends = common.make_pipe(ex_, 'args', 'Pipe')
        a.update({'_results_pipe': rp, '_args_pipe': ap, '_closed': ex_.interp.sym('closed0', 'bool'), '_cleaned_up': VBool(False)})
        ex_.abs_classes['Proc'].set(ex_, env['child'], 'alive', z3.BoolVal(False))
        env['resq'] = rends['parent']
        env['block'] = VBool(True)
        env['timeout'] = NONE

    def nr_result_proc(c):
        ex_ = c.ex
        q = c.env['resq']
        inq = ex_.abs_classes['Conn'].get(ex_, q, 'inq')
        p0 = z3.Select(ex_.old['absfields'][('Conn', 'ipos')], q.key)
        lst = Val.vitems(inq[p0])
        return z3.And(p0 < z3.Length(inq), ValList.vl_hd(ValList.vl_tl(lst)) == Val.v_bool(True),
                      lower(c.env['result'], ex_) == ValList.vl_hd(ValList.vl_tl(ValList.vl_tl(lst))))
    nr_result_proc.__doc__ = 'next_result returns the value of the head message, and only if its flag is True'
    lemmas.append((Contract(
        PWK + '.next_result', lid='L4-process', name='C06.L4-process next_result on a dead process worker never blocks: it returns the next delivered result or raises queue.Empty',
        params={'self': ('const', None), 'block': ('const', None), 'timeout': ('const', None)}, self_class=PPW_, setup=nr_setup_proc,
        ensures=[nr_result_proc], raises={'queue.Empty': None}, raises_only=['queue.Empty'],
        options={'on_block': 'oblige', 'chan_elem_inv': {'results.parent': four_tuple}, 'recv_closed_check': False}), None))
    # ------------------------------------------------------------------ L5 the end marker can be written wherever the terminate landed
    # _cleanup runs in the finally block of the kind's run function; a terminate may land before the child has run _init_child().  So _cleanup may rely
    # only on what the CONSTRUCTORS establish: self is given exactly the attributes assigned by the __init__ methods along the MRO (read from the tree).
    def cleanup_lemma(kind_cls, lid, pipe_kind):
        def setup(ex_, env):
            I = ex_.interp
            names = workers.ctor_attrs(repo, kind_cls)
            attrs = {}
            for nme in sorted(names):
                attrs[nme] = I.sym(nme.strip('_'))
            rp, rends = common.make_pipe(ex_, 'results', pipe_kind)
            ap, aends = common.make_pipe(ex_, 'args', pipe_kind)
            attrs.update(_results_pipe=rp, _args_pipe=ap, _cleaned_up=VBool(False), _started=VBool(True))
            if '_counter' in attrs:
                attrs['_counter'] = I.sym('counter', 'int')
            if '_socket' in names or kind_cls == PRW:
                sock = common.new_chan(ex_, 'Conn', 'data')
                attrs['_socket'] = sock
                env['out'] = sock
            else:
                env['out'] = rends['q'] if pipe_kind == 'LocalPipe' else rends['child']
            env['self'] = ex_.alloc(HObj(repo.cls(kind_cls), attrs))

        def marker_written(c):
            ex_ = c.ex
            o = c.env['out']
            out = ex_.abs_classes[o.cls].get(ex_, o, 'out')
            m = out[z3.Length(out) - 1]
            lst = Val.vitems(m)
            return z3.And(z3.Length(out) >= 1, Val.is_v_tup(m), ValList.vl_hd(ValList.vl_tl(lst)) == Val.v_bool(z3.BoolVal(False)))
        marker_written.__doc__ = 'the end marker (counter, False, None, id) is written'
        return (Contract(kind_cls + '._cleanup', lid=lid, name=f'C06.{lid} {kind_cls.rsplit(".", 1)[1]}._cleanup writes the end marker relying only on what the constructors establish (a terminate may land before _init_child)',
                         params={'self': ('const', None)}, self_class=kind_cls, setup=setup, ensures=[marker_written], raises={}, raises_only=[],
                         options={'__call_hooks__': dict(common.MSG_HOOKS), 'recv_closed_check': False}), None)
    PPW = 'pyworkers.persistent_process.PersistentProcessWorker'
    lemmas.append(cleanup_lemma(PTW, 'L5-thread', 'LocalPipe'))
    lemmas.append(cleanup_lemma(PPW, 'L5-process', 'Pipe'))
    lemmas.append(cleanup_lemma(PRW, 'L5-remote', 'LocalPipe'))

    # ------------------------------------------------------------------ L6 the child loop interrupted at any statement boundary
    # the do_work loops of C05 once more, now with one asynchronous event injected at EVERY statement boundary of do_work and _send_result
    # (also between evaluating a right-hand side and storing it): a graceful terminate (WorkerTerminatedError raised there) for all kinds, and for the
    # process and remote kinds a kill (the process vanishes there).  Whatever has been written to the result channel at that moment is a correct prefix.
    persistent.spec_functions(ex)
    for kind in ('thread', 'process', 'remote'):
        cls = persistent.KINDS[kind]
        con = persistent.do_work_contract(ex, kind, f'L6-{kind}', 'LocalPipe' if kind == 'thread' else 'Pipe', 'list')
        con.name = (f'C06.L6-{kind} do_work interrupted at any statement boundary (terminate' + ('' if kind == 'thread' else ' or kill') +
                    '): what has been written to the result channel is a correct prefix of the expected results')
        con.inject = InjectCfg([cls + '.do_work', cls + '._send_result'], budget=1, kinds=('wte',) if kind == 'thread' else ('wte', 'kill'), split_store=True)
        con.on_vanish = list(con.all_exits)
        lemmas.append((con, None))

    # ------------------------------------------------------------------ L7 a terminate landing inside _cleanup itself (thread kind: the results pipe has no EOF)
    con, _ = cleanup_lemma(PTW, 'L7-thread', 'LocalPipe')
    con.name = ('C06.L7-thread a graceful terminate landing inside PersistentThreadWorker._cleanup: the end marker is still written '
                '(a LocalPipe has no EOF, the marker is the only end-of-stream signal a multiplexing consumer gets)')
    con.all_exits = list(con.ensures)
    con.raises = {'WorkerTerminatedError': None}
    con.raises_only = ['WorkerTerminatedError']
    con.inject = InjectCfg([PTW + '._cleanup'], budget=1, kinds=('wte',), split_store=True)
    lemmas.append((con, None))

    # ------------------------------------------------------------------ L8 the message-level abstraction itself under a terminate
    # L3 and L6-remote treat send_msg as one atomic step.  That is right only if a terminate landing INSIDE send_msg cannot leave part of a message on the
    # wire (the front end would take the stump for the start of the next message and never deliver an end marker): the contract of the C10 cone on send_msg
    # under injection.
    from . import C10 as _c10
    saved_abs, saved_ext, saved_spec = dict(ex.abs_classes), dict(ex.ext_models), dict(ex.spec_functions)
    built = _c10.build(ex)
    for k_, v_ in saved_abs.items():
        ex.abs_classes[k_] = v_
    for k_, v_ in saved_ext.items():
        ex.ext_models[k_] = v_
    for k_, v_ in saved_spec.items():
        ex.spec_functions[k_] = v_
    for con8, v8 in built:
        if con8.lid == 'L1i':
            con8.lid = 'L8'
            con8.name = con8.name.replace('C10.L1i', 'C06.L8')
            lemmas.append((con8, v8))
    return lemmas


def replay(ob, repo):
    from pyvc.native import run_script
    if 'C06.L8' in ob.get('lemma', ''):
        r = run_script('c10_native.py', {'msgs': [['result', 1], ['end', 2]]}, repo, timeout=60)
        return bool(r.get('violates')), r
    r = run_script('c06_native.py', {'lemma': ob['lemma'].split(' ')[0].split('.')[-1], 'injections': (ob.get('info') or {}).get('injections')}, repo, timeout=150)
    return bool(r.get('violates')), r


def replay_file(path, repo):
    import json
    from pyvc.native import run_script
    r = run_script('c06_native.py', {}, repo, timeout=150)
    print(json.dumps(r, indent=1, default=str))
    if r.get('violates'):
        print(f'VIOLATION property=C06 replay={path}')
        return 1
    return 0
