"""C19 - active_children() tracks exactly the live workers.

Abstract view: the registry is the sequence held in the class attribute Worker._active_children.
Quantification over "every worker" is Skolemised: e0 is an arbitrary registered object, k0 an arbitrary
position of the sequence yielded to autoclose; multiset statements are equalities between occurrence
counters cnt(e0, .) kept in lock-step with every list operation by the executor.
"""
import z3

from pyvc import smt, extlib
from pyvc.smt import Val, SeqVal
from pyvc.values import *  # noqa
from pyvc.contracts import Contract, Loop, AbsClass
from pyvc.core import PyRaise

ID = 'C19'
MIN_OBLIGATIONS = 15
TRUSTED = [extlib.TEXT['copy'],
           'container contracts: list, dict and set hold strong references to their elements; weakref.WeakSet discards an element when no other strong reference to it exists (Python library reference)',
           'threading.Lock used in a with-statement is released on every exit of the block',
           'is_alive()/close()/wait()/terminate() of the registered workers obey their own contracts (C04): they do not raise; '
           'terminate(timeout, force default) leaves process/remote children dead (C04.L4)']
ASSUMPTIONS = [
    'order of the yielded workers is not part of the property and is not modelled (multiset view through occurrence counters)',
    'the generator active_children() is drained by its consumer (run eagerly); pruning happens on the first next() as in CPython',
    'lock discipline is a path property of this module only: code outside pyworkers.worker touching Worker._active_children is not in the cone',
    'Worker.__init__ is verified with the subclass hook _start() abstracted to "may set self._dead to anything" (its real bodies are in the cones of C20)',
]
ABSTRACTED = ['Worker._start: abstract hook (havoc of self._dead)', 'get_hostname/os.getpid/gettid: opaque values']

W = 'pyworkers.worker.Worker'

MUTANTS = [
    ('pyworkers/worker.py', "        with Worker._children_lock:\n            Worker._active_children = [child for child in Worker._active_children if child.is_alive()]\n            cpy = copy.copy(Worker._active_children)\n",
     "        with Worker._children_lock:\n            cpy = copy.copy(Worker._active_children)\n        cpy = [child for child in cpy if child.is_alive()]\n        with Worker._children_lock:\n            Worker._active_children = cpy\n",
     'prune split into two critical sections: a registration in between is lost'),
    ('pyworkers/worker.py', "if child.is_alive()]", "if not child.is_alive()]", 'keeps the dead workers instead of the live ones'),
    ('pyworkers/worker.py', "            cpy = copy.copy(Worker._active_children)\n", "            cpy = copy.copy(Worker._active_children)\n            Worker._active_children = []\n", 'registry emptied by every call'),
    ('pyworkers/worker.py', "            if not self._dead:\n                Worker.register_child(self)", "            if True:\n                Worker.register_child(self)", 'registers workers whose start failed'),
    ('pyworkers/worker.py', "            if not self._dead:\n                Worker.register_child(self)", "            if not self._dead and not _is_restart:\n                Worker.register_child(self)", 'a restarted worker whose dead incarnation was pruned is not registered again'),
    ('pyworkers/worker.py', "            if child not in Worker._active_children:\n                Worker._active_children.append(child)", "            Worker._active_children.append(child)", 'restart registers the worker a second time'),
    ('pyworkers/worker.py', "        with Worker._children_lock:\n            if child not in Worker._active_children:\n                Worker._active_children.append(child)", "        if child not in Worker._active_children:\n            Worker._active_children.append(child)", 'registration without the lock'),
    ('pyworkers/worker.py', "            if not child.wait(timeout=0.1):\n                child.terminate(timeout=0.1)", "            child.wait(timeout=0.1)", 'autoclose no longer terminates stuck workers'),
    ('pyworkers/worker.py', "    try:\n        yield\n    finally:\n        for child in Worker.active_children():", "    yield\n    if True:\n        for child in Worker.active_children():", 'autoclose skipped when the block raises'),
]


def aworker():
    def is_alive(ex, a, k):
        ac = ex.abs_classes['AWorker']
        return VBool(ac.get(ex, a[0], 'alive'))

    def close(ex, a, k):
        ex.abs_classes['AWorker'].set(ex, a[0], 'closed', z3.BoolVal(True))
        return NONE

    def wait(ex, a, k):
        ac = ex.abs_classes['AWorker']
        ex.require('pre', ac.get(ex, a[0], 'closed'), 'close() is called before wait() (autoclose protocol)', ex.ghost.get('__cur_node__'))
        r = ex.fresh('wait_ret', smt.Bool)
        ac.set(ex, a[0], 'waited', z3.BoolVal(True))
        ac.set(ex, a[0], 'waitret', r)
        return VBool(r)

    def terminate(ex, a, k):
        ex.abs_classes['AWorker'].set(ex, a[0], 'terminated', z3.BoolVal(True))
        return VBool(ex.fresh('term_ret', smt.Bool))
    return AbsClass('AWorker', fields={'alive': smt.Bool, 'closed': smt.Bool, 'waited': smt.Bool, 'waitret': smt.Bool,
                                       'terminated': smt.Bool, 'id': Val},
                    methods={'is_alive': is_alive, 'close': close, 'wait': wait, 'terminate': terminate},
                    text='a registered worker seen through its public interface')


def build(ex):
    extlib.install_common(ex)
    ex.abs_classes['AWorker'] = aworker()
    repo = ex.repo
    wci = repo.cls(W)

    def opaque(name):
        return lambda ex_, a, k: VSym(ex_.fresh(name, Val))
    ex.ext_models['platform.node'] = opaque('hostname')
    ex.ext_models['os.getpid'] = opaque('pid')
    ex.ext_models['threading.get_native_id'] = opaque('tid')
    ex.ext_models['threading.get_ident'] = opaque('ident')

    def representation():
        """how the registry is kept, read off the initialiser of Worker._active_children in the class body: the abstract view (which workers are
        registered, how often) is defined per representation - 'list': the sequence itself; 'dict': the values of the mapping (a worker held under
        n keys is registered n times)"""
        import ast
        for st in wci.node.body:
            if isinstance(st, ast.Assign) and any(isinstance(t, ast.Name) and t.id == '_active_children' for t in st.targets):
                if isinstance(st.value, ast.List) and not st.value.elts:
                    return 'list'
                if isinstance(st.value, ast.Dict) and not st.value.keys:
                    return 'dict'
                if ast.unparse(st.value) in ('weakref.WeakSet()', 'WeakSet()', 'set()'):
                    return 'weakset' if 'Weak' in ast.unparse(st.value) else 'set'
                return 'other: ' + ast.unparse(st.value)
        return 'other: no initialiser in the class body'
    REP = representation()

    def registry_setup(ex_, env, extra_track=()):
        if REP == 'dict':
            return registry_setup_dict(ex_, env, extra_track)
        if REP in ('set', 'weakset'):
            return registry_setup_set(ex_, env, extra_track)
        if REP != 'list':
            from pyvc.core import Undecided
            raise Undecided(f'the registry Worker._active_children is kept in a container without an abstraction function here ({REP})')
        reg = ex_.alloc(HSymList(ex_.fresh('registry', SeqVal)))
        ex_.heap[reg.addr].elem_hint = ('abs', 'AWorker')
        ex_.class_attrs[(W, '_active_children')] = reg
        lock = VAbs('Lock', Val.v_str(z3.IntVal(smt.str_code('<children_lock>'))))
        ex_.class_attrs[(W, '_children_lock')] = lock
        ex_.abs_classes['Lock'].set(ex_, lock, 'held', z3.BoolVal(False))
        e0 = ex_.fresh('e0', Val)
        ex_.ghost['cnt_track'] = [e0] + list(extra_track)
        for e in ex_.ghost['cnt_track']:
            ex_.interp.fact_part(e, ex_.heap[reg.addr].seq)
        env['e0'] = VSym(e0, hint=('abs', 'AWorker'))
        env['Worker'] = VClass(wci)
        env['lock'] = lock

        ex_.ghost['reg_at_acquire'] = ex_.heap[reg.addr].seq

        def on_acquire(ex2, lk):
            # rely: while the lock was free other threads may have registered workers (register_child appends under the lock);
            # nothing else touches the registry outside this module
            cur = ex2.class_attrs[(W, '_active_children')]
            h = ex2.heap[cur.addr]
            others = ex2.fresh('registered_by_others', SeqVal)
            new = z3.Concat(h.seq, others)
            ex2.interp.fact_concat(new, [h.seq, others])
            h.seq = new
            ex2.ghost['reg_at_acquire'] = new
            n = ex2.ghost.get('acquisitions', 0)
            ex2.ghost['acquisitions'] = n + 1
            ac = ex2.abs_classes['AWorker']
            if n == 0:
                # the linearisation point of active_children(): the registry and the liveness of its members as of the first critical section
                ex2.ghost['reg_at_snapshot'] = new
                ex2.ghost['alive_at_snapshot'] = ac.arr(ex2, 'alive')
            else:
                # rely, second part: between two critical sections another thread may have RESTARTED a registered worker that was dead (alive again;
                # register_child finds it registered and appends nothing), and a live one may have died: liveness observed before is stale
                ex2.absfields[('AWorker', 'alive')] = ex2.fresh('AWorker.alive', z3.ArraySort(Val, smt.Bool))
        ex_.ghost['__on_acquire__'] = on_acquire

        def hook(interp, key, mode):
            if key == (W, '_active_children'):
                held = ex_.abs_classes['Lock'].get(ex_, lock, 'held')
                ex_.oblige('lock', held, f'{mode} of Worker._active_children happens with Worker._children_lock held',
                           ex_.ghost.get('__cur_node__'), key=('lockdisc', mode, getattr(ex_.ghost.get('__cur_node__'), 'lineno', 0)))
        ex_.ghost['__classattr_access_hook__'] = hook

    def registry_setup_dict(ex_, env, extra_track=()):
        """the registry as a mapping (key -> worker): the registered workers are its values; vcnt(x) = number of keys holding x (ghost, kept by the engine)"""
        IntArr = z3.ArraySort(Val, smt.Int)
        h = HSymDict(ex_.fresh('reg_dom', z3.ArraySort(Val, smt.Bool)), ex_.fresh('reg_map', z3.ArraySort(Val, Val)), ('abs', 'AWorker'))
        h.vcnt = ex_.fresh('reg_vcnt', IntArr)
        reg = ex_.alloc(h)
        ex_.class_attrs[(W, '_active_children')] = reg
        lock = VAbs('Lock', Val.v_str(z3.IntVal(smt.str_code('<children_lock>'))))
        ex_.class_attrs[(W, '_children_lock')] = lock
        ex_.abs_classes['Lock'].set(ex_, lock, 'held', z3.BoolVal(False))
        e0 = ex_.fresh('e0', Val)
        track = [e0] + list(extra_track)
        for e in track:
            ex_.assume(z3.Select(h.vcnt, e) >= 0)
        env['e0'] = VSym(e0, hint=('abs', 'AWorker'))
        env['Worker'] = VClass(wci)
        env['lock'] = lock
        ex_.ghost['vcnt_at_acquire'] = h.vcnt
        ex_.ghost['dict_track'] = track

        def on_acquire(ex2, lk):
            # rely: while the lock was free other threads may have registered workers (more keys, counts only grow); nothing else touches the registry
            cur = ex2.heap[ex2.class_attrs[(W, '_active_children')].addr]
            dom2 = ex2.fresh('reg_dom', z3.ArraySort(Val, smt.Bool))
            map2 = ex2.fresh('reg_map', z3.ArraySort(Val, Val))
            vc2 = ex2.fresh('reg_vcnt', IntArr)
            ex2.assume(z3.IsSubset(cur.dom, dom2))
            for e in ex2.ghost['dict_track']:
                ex2.assume(z3.Select(vc2, e) >= z3.Select(cur.vcnt, e))
            cur.dom, cur.map, cur.vcnt = dom2, map2, vc2
            ex2.ghost['vcnt_at_acquire'] = vc2
        ex_.ghost['__on_acquire__'] = on_acquire

        def hook(interp, key, mode):
            if key == (W, '_active_children'):
                held = ex_.abs_classes['Lock'].get(ex_, lock, 'held')
                ex_.oblige('lock', held, f'{mode} of Worker._active_children happens with Worker._children_lock held',
                           ex_.ghost.get('__cur_node__'), key=('lockdisc', mode, getattr(ex_.ghost.get('__cur_node__'), 'lineno', 0)))
        ex_.ghost['__classattr_access_hook__'] = hook

    def registry_setup_set(ex_, env, extra_track=()):
        """the registry as a set of workers (set / weakref.WeakSet): registered = member, never more than once"""
        SetS = z3.ArraySort(Val, smt.Bool)
        reg = ex_.alloc(HSymSet(ex_.fresh('reg_set', SetS)))
        ex_.heap[reg.addr].elem_hint = ('abs', 'AWorker')
        ex_.class_attrs[(W, '_active_children')] = reg
        lock = VAbs('Lock', Val.v_str(z3.IntVal(smt.str_code('<children_lock>'))))
        ex_.class_attrs[(W, '_children_lock')] = lock
        ex_.abs_classes['Lock'].set(ex_, lock, 'held', z3.BoolVal(False))
        env['e0'] = VSym(ex_.fresh('e0', Val), hint=('abs', 'AWorker'))
        env['Worker'] = VClass(wci)
        env['lock'] = lock
        ex_.ghost['set_at_acquire'] = ex_.heap[reg.addr].dom

        def on_acquire(ex2, lk):
            # rely: while the lock was free other threads may have registered workers; nothing else touches the registry (for a WeakSet this
            # rely condition is exactly what `retained` below refutes)
            cur = ex2.heap[ex2.class_attrs[(W, '_active_children')].addr]
            dom2 = ex2.fresh('reg_set', SetS)
            ex2.assume(z3.IsSubset(cur.dom, dom2))
            cur.dom = dom2
            ex2.ghost['set_at_acquire'] = dom2
        ex_.ghost['__on_acquire__'] = on_acquire

        def hook(interp, key, mode):
            if key == (W, '_active_children'):
                held = ex_.abs_classes['Lock'].get(ex_, lock, 'held')
                ex_.oblige('lock', held, f'{mode} of Worker._active_children happens with Worker._children_lock held',
                           ex_.ghost.get('__cur_node__'), key=('lockdisc', mode, getattr(ex_.ghost.get('__cur_node__'), 'lineno', 0)))
        ex_.ghost['__classattr_access_hook__'] = hook

    def retained(c):
        # the rely condition every lemma of C19 uses between two critical sections: a registered worker stays in the container until THIS module removes
        # it.  It is a property of the container, taken from the container's documented contract (trusted): list, dict and set hold strong references;
        # a weakref.WeakSet drops an element as soon as nobody else refers to it - a running thread/process does not keep its Worker object alive.
        if REP in ('list', 'dict', 'set'):
            return z3.BoolVal(True)
        if REP == 'weakset':
            return z3.BoolVal(False)
        from pyvc.core import Undecided
        raise Undecided(f'no container contract for the registry ({REP})')
    retained.__doc__ = ('rely condition of L1-L3 (container contract): between two critical sections a registered worker stays in the registry\'s container '
                        'until this module removes it, whether or not the caller still refers to it (the property is about the workers that are ALIVE, '
                        'not about those the caller happens to hold)')

    def reg_count(ex_, x, when='now'):
        if REP in ('set', 'weakset'):
            dom = ex_.heap[ex_.class_attrs[(W, '_active_children')].addr].dom if when == 'now' else ex_.ghost['set_at_acquire']
            return z3.If(z3.Select(dom, x), z3.IntVal(1), z3.IntVal(0))
        """how often x is registered: occurrences in the sequence / number of keys holding it"""
        from pyvc.interp_data import cnt_f
        if REP == 'dict':
            vc = ex_.heap[ex_.class_attrs[(W, '_active_children')].addr].vcnt if when == 'now' else ex_.ghost['vcnt_at_acquire']
            return z3.Select(vc, x)
        seq = ex_.heap[ex_.class_attrs[(W, '_active_children')].addr].seq if when == 'now' else ex_.ghost['reg_at_acquire']
        return cnt_f(x, seq)

    def registered_once(c):
        ex_ = c.ex
        ch, e0 = lower(c.env['child'], ex_), c.env['e0'].t
        after_child = reg_count(ex_, ch) == z3.If(reg_count(ex_, ch, 'acquire') == 0, 1, reg_count(ex_, ch, 'acquire'))
        others = z3.Implies(e0 != ch, reg_count(ex_, e0) == reg_count(ex_, e0, 'acquire'))
        return z3.And(after_child, others)
    registered_once.__doc__ = ('register_child leaves the worker registered exactly once if it was not registered, and as often as before otherwise; '
                               'every other worker (e0 arbitrary) is registered as often as before')

    ex.spec_functions['alive'] = lambda se, w: VBool(z3.Select(se.absfield('AWorker', 'alive'), Val.vakey(lower(w, ex)) if False else lower_key(w)))
    ex.spec_functions['closed'] = lambda se, w: VBool(z3.Select(se.absfield('AWorker', 'closed'), lower_key(w)))
    ex.spec_functions['waitret'] = lambda se, w: VBool(z3.Select(se.absfield('AWorker', 'waitret'), lower_key(w)))
    ex.spec_functions['terminated'] = lambda se, w: VBool(z3.Select(se.absfield('AWorker', 'terminated'), lower_key(w)))

    def lower_key(w):
        # identity of an abstract worker stored in a list: the stored Val is v_abs(cls, key)
        if isinstance(w, VAbs):
            return w.key
        return Val.vakey(w.t)

    def l1_registry(c):
        from pyvc.interp_data import cnt_f
        ex_ = c.ex
        e0 = c.env['e0'].t
        k = Val.vakey(e0)
        alive_now = z3.Select(ex_.abs_classes['AWorker'].arr(ex_, 'alive'), k)
        alive_then = z3.Select(ex_.ghost['alive_at_snapshot'], k) if 'alive_at_snapshot' in ex_.ghost else alive_now
        ref = ex_.class_attrs[(W, '_active_children')]
        now = ex_.heap[ref.addr].seq if isinstance(ex_.heap[ref.addr], HSymList) else ex_.interp.as_seq(ref)
        acq = ex_.ghost['reg_at_acquire']
        return z3.And(z3.Implies(alive_now, cnt_f(e0, now) == cnt_f(e0, acq)),
                      z3.Implies(z3.And(z3.Not(alive_now), z3.Not(alive_then)), cnt_f(e0, now) == 0))
    l1_registry.__doc__ = ('a registered worker (e0 arbitrary) that is alive when the registry is last written is still registered, as often as before - a live worker is '
                           'never dropped, also not one that was dead when looked at and has been restarted since; a worker that is dead throughout is dropped '
                           '(with one critical section: cnt(e0, registry) == (cnt(e0, registry at acquisition) if alive(e0) else 0))')

    def l1_result(c):
        from pyvc.interp_data import cnt_f
        ex_ = c.ex
        e0 = c.env['e0'].t
        k = Val.vakey(e0)
        if 'reg_at_snapshot' not in ex_.ghost:
            return z3.BoolVal(False)        # the registry was never read under the lock
        alive_then = z3.Select(ex_.ghost['alive_at_snapshot'], k)
        snap = ex_.ghost['reg_at_snapshot']
        r = c.env['result']
        y = ex_.heap[r.addr].seq if isinstance(ex_.heap[r.addr], HSymList) else ex_.interp.as_seq(r)
        return z3.And(cnt_f(e0, y) == z3.If(alive_then, cnt_f(e0, snap), 0), z3.Length(y) <= z3.Length(snap))
    l1_result.__doc__ = ('what is yielded is exactly the registered workers that were alive at the snapshot (first critical section), each as often as it is registered, '
                         'and no dead one: cnt(e0, result) == (cnt(e0, registry at the snapshot) if alive(e0) else 0); len(result) <= len(registry)')

    # ---------------------------------------------------------------- L1
    L1 = Contract(
        W + '.active_children', lid='L1',
        name='C19.L1 active_children yields exactly the live registered workers and drops the dead ones from the registry',
        setup=lambda ex_, env: registry_setup(ex_, env),
        ensures=[l1_registry, l1_result],
        all_exits=['not lock.held'],
        raises={}, raises_only=[])

    # ---------------------------------------------------------------- L2a
    L2a = Contract(
        W + '.register_child', lid='L2a', name='C19.L2a register_child appends the worker unless it is already registered, under the lock',
        params={'child': ('abs', 'AWorker')},
        setup=lambda ex_, env: registry_setup(ex_, env, extra_track=[lower(env['child'], ex_)]),
        ensures=(['Worker._active_children == (reg_at_acquire + (child,) if cnt(child, reg_at_acquire) == 0 else reg_at_acquire)'] if REP == 'list'
                 else [registered_once]) + [retained],
        all_exits=['not lock.held'],
        raises={}, raises_only=[])

    # ---------------------------------------------------------------- L2b
    start = Contract(W + '._start', name='Worker._start (abstract hook)', params={}, modifies=['self._dead'], returns='none',
                     trusted=True)
    ex.contracts[W + '._start'] = start
    ex.use_contract.add(W + '._start')

    def init_setup(ex_, env):
        self_v = ex_.alloc(HObj(wci, {}))
        env['self'] = self_v
        registry_setup(ex_, env, extra_track=[lower(self_v)])
        run = env['run']
        ex_.assume(z3.Or(run.t == Val.v_none, Val.is_v_bool(run.t)))
        env['me'] = VSym(lower(self_v))

    def registered_iff_live(c):
        from pyvc.interp_data import cnt_f
        ex_ = c.ex
        h = ex_.heap[c.env['self'].addr]
        started = ex_.interp.truth(h.attrs['_started'])
        dead = ex_.interp.truth(h.attrs['_dead']) if '_dead' in h.attrs else True     # never started: no child at all
        started = started if isinstance(started, z3.ExprRef) else z3.BoolVal(bool(started))
        dead = dead if isinstance(dead, z3.ExprRef) else z3.BoolVal(bool(dead))
        live = z3.And(started, z3.Not(dead))
        me = c.env['me'].t
        # 'before': the registry as of the last lock acquisition (other threads may register meanwhile)
        return reg_count(ex_, me) == z3.If(z3.And(live, reg_count(ex_, me, 'acquire') == 0), 1, reg_count(ex_, me, 'acquire'))
    registered_iff_live.__doc__ = ('a (re)construction that ended with a live child leaves the worker registered: it is appended once unless it already is in the '
                                   'registry (a restart whose dead incarnation was pruned meanwhile must be registered again); otherwise the registry is unchanged')

    L2b = Contract(
        W + '.__init__', lid='L2b',
        name='C19.L2b a construction or restart that ends with a live child leaves the worker registered exactly as often as before, but at least once',
        params={'self': ('const', None), 'target': 'any', 'host': 'none', 'args': 'any', 'kwargs': 'any', 'name': 'any',
                'userid': 'any', 'run': 'any', 'set_names': 'bool', 'init_state': 'any', '_is_restart': 'bool'},
        setup=init_setup,
        ensures=[registered_iff_live] +
                (['cnt(e0, Worker._active_children) >= cnt(e0, old(Worker._active_children))'] if REP == 'list' else []) +
                ['implies(not self._started, self._result == (True, None))'],
        all_exits=['not lock.held'],
        raises={'ValueError': None}, raises_only=['ValueError'])

    # ---------------------------------------------------------------- L3
    def auto_setup(ex_, env):
        registry_setup(ex_, env)
        k0 = ex_.fresh('k0', smt.Int)
        env['k0'] = VInt(k0)
        ex_.ghost['k0'] = VInt(k0)

    handled = 'closed(__seq__[k0]) and (waitret(__seq__[k0]) or terminated(__seq__[k0]))'
    L3 = Contract(
        'pyworkers.worker.autoclose_active_children', lid='L3',
        name='C19.L3 leaving an autoclose block closes, waits for and if needed terminates every active child, on every exit',
        params={'timeout': 'real'},
        setup=auto_setup,
        loops={0: Loop(invariant=[f'implies(0 <= k0 and k0 < __i__, {handled})'],
                       variant='__n__ - __i__',
                       modifies=['abs:AWorker.closed', 'abs:AWorker.waited', 'abs:AWorker.waitret', 'abs:AWorker.terminated'])},
        all_exits=[lambda c: last_seq_handled(c), 'not lock.held'],
        raises={'AnyException': None}, raises_only=['AnyException'],
        options={'__body_outcomes__': ['AnyException']})

    def last_seq_handled(c):
        ex_ = c.ex
        seq = ex_.ghost.get('__last_iter_seq__')
        if seq is None:
            return z3.BoolVal(False)       # the loop over the active children was never reached on this exit
        k0 = c.env['k0'].e
        w = Val.vakey(seq[k0])
        ac = ex_.abs_classes['AWorker']
        return z3.Implies(z3.And(k0 >= 0, k0 < z3.Length(seq)),
                          z3.And(ac.get(ex_, VAbs('AWorker', w), 'closed'),
                                 z3.Or(ac.get(ex_, VAbs('AWorker', w), 'waitret'), ac.get(ex_, VAbs('AWorker', w), 'terminated'))))
    last_seq_handled.__doc__ = 'every worker yielded by active_children() was closed and then waited for successfully or terminated'

    return [(L1, None), (L2a, None), (L2b, None), (L3, None)]


# ------------------------------------------------------------------------------ replay on the real code
def replay(ob, repo):
    from pyvc.native import run_script
    r = run_script('c19_native.py', {'lemma': ob['lemma'], 'site': ob['site']}, repo, timeout=120)
    return bool(r.get('violates')), r


def replay_file(path, repo):
    import json
    from pyvc.native import run_script
    d = json.load(open(path))
    r = run_script('c19_native.py', {'lemma': d.get('lemma', ''), 'site': d.get('site', '')}, repo, timeout=120)
    print(json.dumps(r, indent=1, default=str))
    if r.get('violates'):
        print(f'VIOLATION property=C19 replay={path}')
        return 1
    return 0
