"""C15 - load-time state patches reach only the addressed objects, leave no residue.

L1-init/enter/exit  RemoteState.context: a new context resets the per-thread stack whatever an earlier loads (also a failed one) left behind,
                    pushes the root frame exactly when there are patches, never masks the exception of a failed load  => every loads is independent.
Lg-*                the accessors of the current frame against the abstract view (stack, iter).
L2 / L3             break_patches / child_restored: a dict patch under key k becomes the frame of the direct child named k; a restored child is handed to
                    its parent's patches under its name, so that the parent's own merge keeps the (patched) child; a non-dict value under k gets the dummy
                    frame and simply replaces the child in the parent's merge.
L4                  the one-shot __setstate__ wrapper merges exactly current_patches() into a COPY of the state and passes it on once.
L5 (dump side)      remote_reduce names exactly the keys of the state whose value is an opt-in object.  The delivery obligation "every opt-in object that
                    will be restored before this object's own __setstate__ has a frame of its own" additionally needs the keys whose value merely CONTAINS
                    an opt-in object (list, dict, plain object): it does not hold - known finding F-C15-1 (patches for the top-level object land on such a
                    descendant, the top-level object gets none)."""
import z3

from pyvc import smt
from pyvc.smt import Val, ValList, SeqVal
from pyvc.values import *  # noqa
from pyvc.contracts import Contract, Loop
from . import rstate
from .rstate import RS, CTX

ID = 'C15'
MIN_OBLIGATIONS = 40
TRUSTED = [rstate.T5, 'T1 dict/list semantics of the symbolic containers', 'threading.local: attributes are per thread (concurrent loads on different threads do not share stack/iter)']
ASSUMPTIONS = [
    'the quantifier over graph shapes is discharged per function: each contract holds for every stack/iter/names/patches; the induction over the order in which pickle visits a graph is T5 plus the step obligations, not a machine-checked induction',
    'the attribute "ctxs" tested by context.__init__ is never assigned anywhere in pyworkers (syntactic check of the tree on every run)',
    'concurrent loads on several threads: only through the trusted per-thread semantics of threading.local',
]
MUTANTS = [
    ('pyworkers/_remote_pickle/state.py', "            RemoteState._active_contexts.stack = []\n            RemoteState._active_contexts.iter = -1\n", "            if not hasattr(RemoteState._active_contexts, 'stack'):\n                RemoteState._active_contexts.stack = []\n                RemoteState._active_contexts.iter = -1\n", 'residue of a failed loads survives into the next one'),
    ('pyworkers/_remote_pickle/state.py', "            if exc[0] is None:\n                if not RemoteState._active_contexts.unused:", "            if True:\n                if not RemoteState._active_contexts.unused:", 'a failed load is masked by the protocol assertions'),
    ('pyworkers/_remote_pickle/state.py', "                patched_state = state.copy()\n", "                patched_state = state\n", 'patches are written into the original state object'),
    ('pyworkers/_remote_pickle/state.py', "                patched_state.update(RemoteState.current_patches())", "                patched_state.update(RemoteState.parent_patches())", 'the parent\'s patches are applied to the child'),
    ('pyworkers/_remote_pickle/state.py', "            if parent_patches:\n                parent_patches[obj_name] = obj", "            if parent_patches:\n                pass", 'a patched child is overwritten by its own patch dict in the parent'),
    ('pyworkers/_remote_pickle/state.py', "                if isinstance(sub, dict):\n                    sub_patches.append(RemoteState._patches_t(it + len(sub_patches), name, sub))", "                if isinstance(sub, dict):\n                    sub_patches.append(RemoteState._patches_t(it + len(sub_patches), name, patches))", 'a child receives the whole patch dict of its parent'),
    ('pyworkers/_remote_pickle/state.py', "        del cls._active_contexts.stack[cls.patches_iter()]\n", "        del cls._active_contexts.stack[0]\n", 'close_current_ctx removes the root frame instead of the current one'),
]


def build(ex):
    rstate.install(ex)
    lemmas = []
    lemmas += rstate.context_lemmas(ex, 'C15')
    lemmas += rstate.getter_lemmas(ex, 'C15')
    lemmas.append(rstate.break_patches_lemma(ex, 'C15', with_protocol_step=False))
    lemmas.append(rstate.child_restored_lemma(ex, 'C15'))
    lemmas += rstate.setstate_lemmas(ex, 'C15')
    lemmas.append(rstate.reduce_lemma(ex, 'C15', delivery=True))
    return lemmas


def replay(ob, repo):
    from pyvc.native import run_script
    r = run_script('c14_native.py', {'prop': 'C15', 'lemma': ob['lemma'].split(' ')[0].split('.')[-1]}, repo, timeout=120)
    return bool(r.get('violates')), r


def replay_file(path, repo):
    import json
    from pyvc.native import run_script
    r = run_script('c14_native.py', {'prop': 'C15'}, repo, timeout=120)
    print(json.dumps(r, indent=1, default=str))
    if r.get('violates'):
        print(f'VIOLATION property=C15 replay={path}')
        return 1
    return 0
