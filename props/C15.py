"""C15 - load-time state patches reach only the addressed objects, leave no residue.

L1-init/enter/exit  RemoteState.context: a new context resets the per-thread stack whatever an earlier loads (also a failed one) left behind,
                    pushes the root frame exactly when there are patches, never masks the exception of a failed load  => every loads is independent.
Lg-*                the accessors of the current frame against the abstract view (stack, iter).
L2 / L3             break_patches / child_restored: a dict patch under key k becomes the frame of the direct child named k; a restored child is handed to
                    its parent's patches under its name, so that the parent's own merge keeps the (patched) child; a non-dict value under k gets the dummy
                    frame and simply replaces the child in the parent's merge.
L4                  the one-shot __setstate__ wrapper merges exactly current_patches() into a COPY of the state and passes it on once.
L5 (dump side)      remote_reduce names exactly the keys of the state whose value is an opt-in object.  The delivery obligation "every opt-in object that
                    will be restored before this object's own __setstate__ has a frame of its own" additionally needs the keys whose value merely CONTAINS
                    an opt-in object (list, dict, plain object): it does not hold - known finding F-C15-1 (patches for the top-level object land on such a
                    descendant, the top-level object gets none)."""
import z3

from pyvc import smt
from pyvc.smt import Val, ValList, SeqVal
from pyvc.values import *  # noqa
from pyvc.contracts import Contract, Loop
from . import rstate
from .rstate import RS, CTX

ID = 'C15'
MIN_OBLIGATIONS = 40
TRUSTED = [rstate.T5, 'T1 dict/list semantics of the symbolic containers', 'threading.local: attributes are per thread (concurrent loads on different threads do not share stack/iter)']
ASSUMPTIONS = [
    'the quantifier over graph shapes is discharged per function: each contract holds for every stack/iter/names/patches; the induction over the order in which pickle visits a graph is T5 plus the step obligations, not a machine-checked induction',
    'the attribute "ctxs" tested by context.__init__ is never assigned anywhere in pyworkers (syntactic check of the tree on every run)',
    'concurrent loads on several threads: through the trusted per-thread semantics of threading.local plus the structural clause that the stack really lives in the attributes of a threading.local instance (re-read from the class body every run); the native replay interleaves two patched loads on two threads',
]
MUTANTS = [
    ('pyworkers/_remote_pickle/state.py', "    _active_contexts = threading.local()\n", "    _active_contexts = fake_threading_local\n", 'the frame stack is shared by all threads'),
    ('pyworkers/_remote_pickle/state.py', "            RemoteState._active_contexts.stack = []\n            RemoteState._active_contexts.iter = -1\n", "            if not hasattr(RemoteState._active_contexts, 'stack'):\n                RemoteState._active_contexts.stack = []\n                RemoteState._active_contexts.iter = -1\n", 'residue of a failed loads survives into the next one'),
    ('pyworkers/_remote_pickle/state.py', "            if exc[0] is None:\n                if not RemoteState._active_contexts.unused:", "            if True:\n                if not RemoteState._active_contexts.unused:", 'a failed load is masked by the protocol assertions'),
    ('pyworkers/_remote_pickle/state.py', "                patched_state = state.copy()\n", "                patched_state = state\n", 'patches are written into the original state object'),
    ('pyworkers/_remote_pickle/state.py', "                patched_state.update(RemoteState.current_patches())", "                patched_state.update(RemoteState.parent_patches())", 'the parent\'s patches are applied to the child'),
    ('pyworkers/_remote_pickle/state.py', "            if parent_patches:\n                parent_patches[obj_name] = obj", "            if parent_patches:\n                pass", 'a patched child is overwritten by its own patch dict in the parent'),
    ('pyworkers/_remote_pickle/state.py', "                if isinstance(sub, dict):\n                    sub_patches.append(RemoteState._patches_t(it + len(sub_patches), name, sub))", "                if isinstance(sub, dict):\n                    sub_patches.append(RemoteState._patches_t(it + len(sub_patches), name, patches))", 'a child receives the whole patch dict of its parent'),
    ('pyworkers/_remote_pickle/state.py', "        del cls._active_contexts.stack[cls.patches_iter()]\n", "        del cls._active_contexts.stack[0]\n", 'close_current_ctx removes the root frame instead of the current one'),
]


def build(ex):
    rstate.install(ex)
    lemmas = []
    lemmas += rstate.context_lemmas(ex, 'C15')
    getters = rstate.getter_lemmas(ex, 'C15')
    lemmas += getters

    # structural: where the frame stack lives.  Every contract here speaks about ONE thread's stack/iter; that concurrent loads on several threads do not
    # share them is the semantics of threading.local - which holds for the attributes of a threading.local() instance (or of an instance of a plain
    # subclass), NOT for __slots__ or class-level attributes of a subclass.  Re-read from the class body on every run.
    def per_thread(c):
        import ast
        ci = ex.repo.cls(RS)
        e = ci.attrs.get('_active_contexts')
        ok = False
        if isinstance(e, ast.Call) and not e.args and not e.keywords:
            fn = ast.unparse(e.func)
            if fn == 'threading.local':
                ok = True
            else:
                sub = ex.repo.classes.get(ci.module.name + '.' + fn)
                if sub is not None and any(ast.unparse(b) == 'threading.local' for b in sub.base_exprs):
                    shared = [a for a in sub.attrs if a in ('__slots__', 'stack', 'iter', 'unused')]
                    ok = not shared and not any(m in sub.methods for m in ('__getattribute__', '__setattr__', '__getattr__', '__delattr__'))
        return z3.BoolVal(ok)
    per_thread.__doc__ = ('the frame stack of a load (stack / iter / unused) lives in the attributes of a threading.local() instance - or of a plain subclass '
                          'without __slots__ and without class-level defaults for them -, so every thread has its own')
    if getters:
        getters[0][0].ensures.append(per_thread)
    lemmas.append(rstate.break_patches_lemma(ex, 'C15', with_protocol_step=False))
    lemmas.append(rstate.child_restored_lemma(ex, 'C15'))
    lemmas += rstate.setstate_lemmas(ex, 'C15')
    lemmas.append(rstate.reduce_lemma(ex, 'C15', delivery=True))
    return lemmas


KNOWN_NATIVE = ('child in list, root patch', 'child under plain object, root patch', 'child in dict, root patch',       # F-C15-1
                'two siblings:', 'three siblings:', 'two siblings one level down:')     # F-C14-1 (run only when no lemma is selected)


def replay(ob, repo):
    from pyvc.native import run_script
    lemma = ob['lemma'].split(' ')[0].split('.')[-1]
    r = run_script('c14_native.py', {'prop': 'C15', 'lemma': lemma}, repo, timeout=120)
    # the container-held-descendant scenarios fail on the unchanged tree (F-C15-1, obligation L5 .../post#2): they are a witness for that lemma only
    new = [v for v in r.get('violations', []) if lemma.startswith('L5') or not any(v.startswith(k) for k in KNOWN_NATIVE)]
    r['violations_not_in_known_findings'] = new
    return bool(new), r


def replay_file(path, repo):
    import json
    from pyvc.native import run_script
    r = run_script('c14_native.py', {'prop': 'C15'}, repo, timeout=120)
    print(json.dumps(r, indent=1, default=str))
    if [v for v in r.get('violations', []) if not any(v.startswith(k) for k in KNOWN_NATIVE)]:
        print(f'VIOLATION property=C15 replay={path}')
        return 1
    return 0
