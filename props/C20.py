"""C20 - creating a worker returns a usable worker or raises; it never hangs.

Every wait in a _start function is released on ALL exits of the function that is supposed to release it (assume/guarantee
between the constructor and the helper thread it starts); a failed handshake makes the constructor raise.  The server side
of the handshake (client socket answered / handed over / closed before the next accept) is the step obligation of
RemoteServer.run (shared cone, props/C11.py)."""
import z3

from pyvc import smt
from pyvc.smt import Val, ValList, SeqVal
from pyvc.values import *  # noqa
from pyvc.contracts import Contract, Loop
from pyvc.core import PyRaise
from . import common, workers, server, C11 as _c11
from .workers import RW, PW, TW

ID = 'C20'
MIN_OBLIGATIONS = 30
TRUSTED = _c11.TRUSTED + [common.event_class().text, workers.proc_class().text,
                          'T4 multiprocessing.connection.wait([pipe, sentinel]) returns when the child has written or has exited']
ASSUMPTIONS = [
    'assume/guarantee: RemoteWorker._start sees the effects of the front-end thread only through the all-exits contract of _run_frontend (proved as lemma L1a)',
    'L4 (no orphan after an aborted server-side handshake) is not decided in this round: the design probe P-19 observed the spawned backend exiting on its own; it rests on pipe EOF at unreachable objects (CPython reference counting)',
    'connecting sockets (socket.connect) and the listening side are bounded by the OS (T2/T9)',
]
MUTANTS = [
    ('pyworkers/remote.py', "        finally:\n            self._startup_sync.set()\n", "        self._startup_sync.set()\n", 'start-up event set on the success path only'),
    ('pyworkers/remote.py', "        if self._startup_error is not None:\n", "        if False:\n", 'constructor ignores a failed handshake'),
    ('pyworkers/thread.py', "        self._startup_sync.set()\n        try:\n            assert self.is_child\n            self._init_child()\n            self._result = (True, self.do_work())\n", "        try:\n            assert self.is_child\n            self._init_child()\n            self._result = (True, self.do_work())\n            self._startup_sync.set()\n", 'thread worker releases its creator only after the work returned normally'),
    ('pyworkers/remote_server.py', "                            cli.close()\n                            continue", "                            continue", 'unknown context: client socket left open'),
]


def remote_parent(ex, env, started=False):
    """parent-side RemoteWorker inside _start / _run_frontend"""
    I = ex.interp
    ci = ex.repo.cls(RW)
    sock = common.new_chan(ex, 'Conn', 'data')
    ev = common.new_event(ex)
    cur_pid = ex.ext_models['os.getpid'](ex, [], {})
    cur_tid = ex.ext_models['threading.get_native_id'](ex, [], {})
    ptid = I.sym('parent_tid')
    ex.assume(ptid.t != cur_tid.t)
    attrs = {'_socket': sock, '_startup_sync': ev, '_context': I.sym('context'), '_pid': cur_pid, '_tid': ptid,
             '_host': I.sym('phost'), '_ident': I.sym('pident'), '_set_names': I.sym('set_names', 'bool'), '_name': I.sym('name'),
             '_result': NONE, '_user_state': I.sym('state0'), '_remote_side': VBool(False), '_is_backend': VBool(False),
             '_target_host': I.sym('target_host'), '_started': VBool(True), '_dead': VBool(True), '_target': I.sym('target'),
             '_args': I.sym('args'), '_kwargs': I.sym('kwargs'), '_startup_error': NONE}
    self_v = ex.alloc(HObj(ci, attrs))
    env.update(self=self_v, sock=sock, ev=ev)
    return self_v


def build(ex):
    server.install(ex)
    workers.install(ex)
    lemmas = [(_c11.build_run_contract(ex, 'C20'), None)]
    repo = ex.repo

    def sock_factory(ex_, a, k):
        n = ex_.fresh_ctr.get('#csock', 0)
        ex_.fresh_ctr['#csock'] = n + 1
        return common.new_chan(ex_, 'Conn', f'csock#{n}')
    ex.ext_models['socket.socket'] = sock_factory

    def connect(ex_, a, k):
        outs = ex_.ghost.get('connect_raises', [])
        if outs:
            d = ex_.choose(1 + len(outs), 'connect:outcome')
            if d > 0:
                ex_.note(f'connect raises {outs[d - 1]}')
                raise PyRaise(VExc(outs[d - 1], []))
        return NONE
    ex.abs_classes['Conn'].methods['connect'] = connect
    ex.abs_classes['Conn'].methods['getsockname'] = lambda ex_, a, k: VSym(ex_.fresh('sockname', Val))
    ex.call_hooks['pyworkers.remote.set_keepalive'] = lambda I, fi, a, k, n, s: NONE
    ex.call_hooks['pyworkers.remote.set_linger'] = lambda I, fi, a, k, n, s: NONE

    opts = {'__call_hooks__': dict(common.MSG_HOOKS), 'recv_closed_check': False, 'connect_raises': ['ConnectionRefusedError'],
            'unpack_forks': True, 'send_raises': {'data': ['ConnectionClosedError']}}

    # ------------------------------------------------------------------ L1a front-end thread
    def fe_setup(ex_, env):
        remote_parent(ex_, env)
        ex_.ghost['handshake_ok'] = z3.BoolVal(False)

    def released(c):
        return c.ex.abs_classes['Event'].get(c.ex, c.env['ev'], 'isset')
    released.__doc__ = 'the start-up event is set on EVERY exit of the front-end thread (normal, connection lost at any step, refused control connection, malformed message)'

    def failure_recorded(c):
        ex_ = c.ex
        a = ex_.heap[c.env['self'].addr].attrs
        # success = the runtime-info message was received: the identity fields are no longer the parent's own
        ident_set = a.get('_ident') is not None and not (isinstance(a['_ident'], VSym) and a['_ident'].t.eq(z3.Const('pident', Val)))
        err = a.get('_startup_error', NONE)
        err_none = ex_.interp.eq(err, NONE)
        err_none = err_none if isinstance(err_none, z3.ExprRef) else z3.BoolVal(bool(err_none))
        return z3.BoolVal(True) if ident_set else z3.Not(err_none)
    failure_recorded.__doc__ = 'if the handshake did not complete (no runtime info received), the failure is recorded for the constructor (_startup_error is not None)'

    L1a = Contract(
        RW + '._run_frontend', lid='L1a', name='C20.L1a RemoteWorker._run_frontend releases the constructor on all exits and records a failed handshake',
        params={'self': ('const', None)}, self_class=RW, setup=fe_setup,
        all_exits=[released, failure_recorded],
        raises={'AnyException': None, 'ConnectionClosedError': None, 'ConnectionRefusedError': None, 'TypeError': None, 'ValueError': None},
        raises_only=['Exception'], options=opts)

    # ------------------------------------------------------------------ L1b/L2 the constructor side
    def start_setup(ex_, env):
        self_v = remote_parent(ex_, env)
        a = ex_.heap[self_v.addr].attrs
        del a['_socket']
        ok = ex_.fresh('handshake_ok', smt.Bool)
        env['ok'] = VBool(ok)

        def thread_start(ex2, th):
            # effects of the front-end thread up to the point where it releases us, by its contract L1a
            ex2.abs_classes['Event'].set(ex2, env['ev'], 'isset', z3.BoolVal(True))
            for f in ('_host', '_pid', '_tid', '_ident'):
                a[f] = VSym(z3.If(ok, ex2.fresh('remote' + f, Val), lower(a[f], ex2)))
            a['_startup_error'] = VSym(z3.If(ok, Val.v_none, Val.v_exc(z3.IntVal(smt.cls_code('ConnectionClosedError')), Val.v_none)))
        ex_.ghost['__thread_start__'] = thread_start
        ex_.abs_classes['Proc'].methods['start'] = lambda ex2, a_, k: (thread_start(ex2, a_[0]), NONE)[1]

    def start_returns_only_on_success(c):
        return c.env['ok'].e
    start_returns_only_on_success.__doc__ = '_start returns normally only if the handshake completed (else the constructor would hand out a worker carrying the parent\'s own identity)'

    L2 = Contract(
        RW + '._start', lid='L2', name='C20.L1b/L2 RemoteWorker._start never waits on an event nobody sets, and raises when the handshake failed',
        params={'self': ('const', None)}, self_class=RW, setup=start_setup,
        ensures=[start_returns_only_on_success],
        raises={'RuntimeError': 'not ok', 'ConnectionRefusedError': None, 'ConnectionClosedError': 'not ok'},
        raises_only=['RuntimeError', 'ConnectionRefusedError', 'ConnectionClosedError'],
        options=dict(opts, on_block='oblige'))

    # ------------------------------------------------------------------ L1c thread kind
    def thread_setup(ex_, env):
        I = ex_.interp
        ci = ex_.repo.cls(TW)
        ev = common.new_event(ex_)
        cur_tid = ex_.ext_models['threading.get_native_id'](ex_, [], {})
        ptid = I.sym('parent_tid')
        ex_.assume(ptid.t != cur_tid.t)
        attrs = {'_startup_sync': ev, '_tid': ptid, '_ident': I.sym('pident'), '_set_names': I.sym('set_names', 'bool'), '_name': I.sym('name'),
                 '_started': VBool(True), '_result': NONE, '_target': I.sym('target'), '_args': ex_.alloc(HSymList(ex_.fresh('args', SeqVal))),
                 '_kwargs': common.new_odict(ex_, ex_.fresh('kwargs', Val)), '_user_state': I.sym('state0')}
        env.update(self=ex_.alloc(HObj(ci, attrs)), ev=ev)
    L1c = Contract(
        TW + '._run', lid='L1c', name='C20.L1c ThreadWorker._run releases the constructor on all exits',
        params={'self': ('const', None)}, self_class=TW, setup=thread_setup,
        all_exits=[released], raises={}, raises_only=[],
        options={'__opaque_call__': common.opaque_call, 'target_raises': ['AnyException', 'AnyBaseException']})

    # ------------------------------------------------------------------ L1d process kind
    def proc_setup(ex_, env):
        self_v = workers.process_parent(ex_, env)
        a = ex_.heap[self_v.addr].attrs
        a['_dead'] = VBool(True)

        def conn_wait(ex2, args, k):
            # [pipe, sentinel]: released when the child writes its identity or exits (T4); both are in the list
            lst = ex2.heap[args[0].addr].items
            ex2.oblige('block', z3.BoolVal(len(lst) == 2), 'connection.wait() includes the child\'s sentinel, so a child that dies before reporting releases the constructor',
                       ex2.ghost.get('__cur_node__'), key=('wait-sentinel',))
            d = ex2.choose(2, 'wait:ready')
            if d == 0:
                # the pipe is reported ready: the child has written its identity (EOF is impossible here, see below)
                ac2 = ex2.abs_classes['Conn']
                ex2.assume(ac2.get(ex2, env['comms_parent'], 'ipos') < z3.Length(ac2.get(ex2, env['comms_parent'], 'inq')))
            return ex2.alloc(HList([lst[0]] if d == 0 else [lst[1]]))
        ex_.ghost['__conn_wait__'] = conn_wait
        # T3: a pipe reports EOF only when EVERY copy of its write end is closed; the parent still holds its own copy of the child's end while _start runs
        # (ProcessWorker.__init__ closes it afterwards), so a child that dies before reporting does NOT make a plain recv() on the pipe return: it blocks
        ex_.abs_classes['Conn'].set(ex_, env['comms_parent'], 'peer_closed', z3.BoolVal(False))
        ex_.ghost['on_block'] = 'oblige'
        ex_.ext_models['multiprocessing.get_context'] = lambda ex2, a_, k: VExt('mpctx')
        ex_.ext_models['mpctx.Process'] = common.new_thread
    L1d = Contract(
        PW + '._start', lid='L1d', name='C20.L1d ProcessWorker._start waits for the child\'s identity or its exit, never for the pipe alone',
        params={'self': ('const', None)}, self_class=PW, setup=proc_setup,
        ensures=['not self._dead'], raises={'AssertionError': None, 'EOFError': None}, raises_only=['AssertionError', 'EOFError'],
        options={'chan_elem_inv': {'comms.parent': lambda ex_, x, i: z3.And(Val.is_v_tup(x), ValList.is_vl_cons(Val.vitems(x)),
                                                                               ValList.is_vl_cons(ValList.vl_tl(Val.vitems(x))),
                                                                               ValList.is_vl_cons(ValList.vl_tl(ValList.vl_tl(Val.vitems(x)))),
                                                                               ValList.is_vl_nil(ValList.vl_tl(ValList.vl_tl(ValList.vl_tl(Val.vitems(x))))))},
                 'recv_closed_check': False, 'assert_mode': 'fork'})
    return lemmas + [(L1a, None), (L2, None), (L1c, None), (L1d, None)]


def replay(ob, repo):
    from pyvc.native import run_script
    if 'remote_server' in ob['site']:
        r = run_script('c11_native.py', {'name': 'all'}, repo, timeout=150)
    else:
        r = run_script('c20_native.py', {'lemma': ob['lemma']}, repo, timeout=150)
    return bool(r.get('violates')), r


def replay_file(path, repo):
    import json
    from pyvc.native import run_script
    r = run_script('c20_native.py', {}, repo, timeout=150)
    print(json.dumps(r, indent=1, default=str))
    if r.get('violates'):
        print(f'VIOLATION property=C20 replay={path}')
        return 1
    return 0
