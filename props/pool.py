"""Contracts for Pool.run and its closures (cones of C07 and C08).

Environment = ghost state constrained only by the abstract PersistentWorker interface contract W:
  una(w)   inputs accepted by w.enqueue and not yet answered (FIFO)
  ended(w) an end marker / EOF of w has been read
  alive(w) what w.is_alive() reports (may drop to False at any time)
  a True message read from w's queue carries the target's value for head(una(w)) and pops it; after the end
  marker / EOF no True message follows.  WHICH message arrives next, from whom, and when workers die is
  unconstrained - that is the quantifier "all interleavings".
Counting is Skolemised: e0 is an arbitrary input, w0 an arbitrary worker id.
  E := drawn(e0) - done(e0) - sum_w cnt(e0, ppw[w]) - cnt(e0, retries)      (conservation defect; 0 at rest)
"""
import z3

from pyvc import smt
from pyvc.smt import Val, ValList, SeqVal
from pyvc.values import *  # noqa
from pyvc.contracts import Contract, Loop, AbsClass
from pyvc.core import PyRaise, PathEnd, Undecided
from pyvc.interp_data import cnt_f, EMPTYSET
from . import common

P = 'pyworkers.pool.Pool'
RUN = P + '.run'
result_of = z3.Function('result_of', Val, Val)          # target's value for an input (T7)


def as_abs(cls, obj):
    if isinstance(obj, VAbs):
        return obj
    return VAbs(cls, Val.vakey(obj.t))


def wkey(w):
    return w.key if isinstance(w, VAbs) else Val.vakey(w.t)


def F(ex, cls, obj, f):
    return ex.abs_classes[cls].get(ex, as_abs(cls, obj), f)


def S(ex, cls, obj, f, v):
    ex.abs_classes[cls].set(ex, as_abs(cls, obj), f, v)


def bump(ex, name, cond):
    ex.ghost[name] = ex.ghost[name] + z3.If(cond, 1, 0)


def inp_term(ex, args):
    """the input (a tuple value) passed as *inp"""
    if len(args) == 1 and isinstance(args[0], VStar):
        return lower(args[0].v, ex)
    if any(isinstance(x, VStar) for x in args):
        raise Undecided('mixed positional and star arguments in an enqueue call')
    return lower(VTuple(list(args)), ex)


# ------------------------------------------------------------------------------ W: the worker interface
def pworker_class():
    def wid(interp, obj):
        return VSym(obj.key)

    def enqueue(ex, a, k):
        w = a[0]
        t = inp_term(ex, a[1:])
        d = ex.choose(2, 'enqueue:outcome')
        if d == 1:
            ex.note('enqueue:raises')
            raise PyRaise(VExc('AnyException', []))
        ex.note('enqueue:accepted')
        una = F(ex, 'PWorker', w, 'una')
        new = z3.Concat(una, z3.Unit(t))
        ex.interp.fact_concat(new, [una, z3.Unit(t)])
        S(ex, 'PWorker', w, 'una', new)
        return NONE

    def is_alive(ex, a, k):
        w = a[0]
        al = F(ex, 'PWorker', w, 'alive')
        still = ex.fresh('still_alive', smt.Bool)
        now = z3.And(al, still)               # a worker may die at any time, never comes back
        S(ex, 'PWorker', w, 'alive', now)
        return VBool(now)
    return AbsClass('PWorker', fields={'una': SeqVal, 'ended': smt.Bool, 'alive': smt.Bool},
                    methods={'enqueue': enqueue, 'is_alive': is_alive}, attrs={'id': wid},
                    text='W: abstract PersistentWorker interface (proved for the concrete classes in C05/C06)')


def pconn_class():
    def recv(ex, a, k):
        """the next message of worker w's result queue, any message W allows"""
        c = a[0]
        w = VAbs('PWorker', c.key)
        d = ex.choose(3, 'recv:kind')
        ended = F(ex, 'PWorker', w, 'ended')
        if d == 0:
            ex.note('recv:result')
            una = F(ex, 'PWorker', w, 'una')
            ex.assume(z3.Not(ended))
            ex.assume(z3.Length(una) > 0)
            x = ex.fresh('answered', Val)
            rest = ex.fresh('una_rest', SeqVal)
            ex.assume(una == z3.Concat(z3.Unit(x), rest))
            ex.interp.fact_concat(una, [z3.Unit(x), rest])
            S(ex, 'PWorker', w, 'una', rest)
            e0 = ex.ghost['cnt_track'][0]
            ex.ghost['last_answered'] = x
            # ghost accounting: a result counts as delivered if the pool has not already declared its worker dead
            # (the inputs of a worker declared dead were re-queued or dropped when its death was handled)
            pool_v = ex.ghost['__specenv__']['pool']
            closed = ex.heap[ex.heap[pool_v.addr].attrs['_closed'].addr].dom
            counted = z3.Not(z3.Select(closed, c.key))
            ex.ghost['done'] = ex.ghost['done'] + z3.If(z3.And(counted, x == e0), 1, 0)
            ans = ex.ghost['answered']
            ex.ghost['answered'] = z3.If(counted, z3.Concat(ans, z3.Unit(x)), ans)
            ex.interp.fact_concat(z3.Concat(ans, z3.Unit(x)), [ans, z3.Unit(x)])
            if not ex.feasible():
                raise PathEnd('no result message possible')
            return VTuple([VSym(ex.fresh('ctr', Val)), VBool(True), VSym(result_of(x)), VSym(c.key)])
        if d == 1:
            ex.note('recv:end-marker')
            ex.assume(z3.Not(ended))
            S(ex, 'PWorker', w, 'ended', z3.BoolVal(True))
            S(ex, 'PWorker', w, 'alive', z3.BoolVal(False))
            if not ex.feasible():
                raise PathEnd('no marker possible')
            return VTuple([VSym(ex.fresh('ctr', Val)), VBool(False), NONE, VSym(c.key)])
        ex.note('recv:EOF')
        S(ex, 'PWorker', w, 'ended', z3.BoolVal(True))
        S(ex, 'PWorker', w, 'alive', z3.BoolVal(False))
        raise PyRaise(VExc('EOFError', []))

    def close(ex, a, k):
        return NONE
    return AbsClass('PConn', fields={}, methods={'recv': recv, 'close': close},
                    text='parent end of a worker result pipe: conn.recv() yields what W allows for that worker')


# ------------------------------------------------------------------------------ state
def pool_state(ex, env, frame=None):
    """symbolic Pool in the middle of run(): returns the closure environment"""
    I = ex.interp
    ci = ex.repo.cls(P)
    e0 = ex.fresh('e0', Val)
    w0 = ex.fresh('w0', Val)
    ex.ghost['cnt_track'] = [e0]
    kv = z3.Const('__wk__', Val)
    workers = HSymDict(ex.fresh('workers_dom', z3.ArraySort(Val, smt.Bool)),
                       z3.Lambda([kv], Val.v_abs(z3.IntVal(smt.cls_code('PWorker')), kv)), vkind=('abs', 'PWorker'))
    queues = HSymDict(ex.fresh('queues_dom', z3.ArraySort(Val, smt.Bool)),
                      z3.Lambda([kv], Val.v_abs(z3.IntVal(smt.cls_code('PConn')), kv)), vkind=('abs', 'PConn'))
    workers.fixed_map = True      # a worker is registered under its own id; a queue under its worker's id
    queues.fixed_map = True
    ppw = HSymDict(ex.fresh('ppw_dom', z3.ArraySort(Val, smt.Bool)), ex.fresh('ppw_map', z3.ArraySort(Val, SeqVal)),
                   vkind='symlist')
    sumlen = ex.fresh('sumlen', smt.Int)
    sumcnt = ex.fresh('sumcnt', smt.Int)
    ppw.extra = {'sumlen': sumlen, 'sumcnt': [sumcnt]}
    ex.assume(sumlen >= 0)
    ex.assume(sumcnt >= 0)
    ex.assume(sumcnt <= sumlen)
    retries = HSymList(ex.fresh('retries', SeqVal))
    closed = HSymSet(ex.fresh('closed', z3.ArraySort(Val, smt.Bool)))
    ret = HSymList(ex.fresh('ret', SeqVal))
    r_workers, r_queues, r_ppw = ex.alloc(workers), ex.alloc(queues), ex.alloc(ppw)
    r_retries, r_closed, r_ret = ex.alloc(retries), ex.alloc(closed), ex.alloc(ret)
    I.fact_part(e0, retries.seq)
    attrs = {'_workers': r_workers, '_queues': r_queues, '_pending_per_worker': r_ppw, '_retries': r_retries,
             '_closed': r_closed, '_pending': I.sym('pending', 'int'), '_depleted': I.sym('depleted', 'bool'),
             '_retry': I.sym('retry', 'bool'), '_map_guard': VBool(True), '_pool_closed': VBool(False),
             '_name': VStr('pool'), '_target': I.sym('target')}
    self_v = ex.alloc(HObj(ci, attrs))
    ex.ghost['drawn'] = ex.fresh('drawn', smt.Int)
    ex.ghost['done'] = ex.fresh('done', smt.Int)
    ex.ghost['refused'] = ex.fresh('refused0', smt.Bool)        # sticky: the user enqueue function has refused at least once (possibly before this call)
    ex.ghost['__settled__'] = ex.fresh('settled', z3.ArraySort(Val, smt.Bool))      # logical variable: the workers for which J is claimed (all of them in Pool.run's main loop)
    ex.ghost['answered'] = ex.fresh('answered_seq', SeqVal)
    I.fact_part(e0, ex.ghost['answered'])
    source = I.sym('source')
    cenv = {'self': self_v, 'ret': r_ret, 'worker_callback': I.sym('worker_callback'), 'enqueue_fn': I.sym('enqueue_fn'),
            'input_sources': VTuple([source]), 'worker_extra_pending_inputs': I.sym('extra_pending', 'nat'),
            'return_results': I.sym('return_results', 'bool')}
    env.update(cenv)
    env.update(e0=VSym(e0), w0=VSym(w0), pool=self_v)
    return cenv


def closure_env(ex, frame):
    """free variables of the closures of Pool.run (the frame of run at the point where they are defined)"""
    env = {}
    cenv = pool_state(ex, env, frame)
    ex.ghost['__poolenv__'] = env
    ex.ghost['__specenv__'] = env
    ex.ghost['__closure_frame__'] = frame
    fi_run = ex.repo.func(RUN)
    for name in ('next_inputs', 'get_next_idle_worker', 'handle_death', 'handle_no_enqueue', 'handle_unused_data',
                 'handle_enqueue', 'try_enqueue', 'handle_new_result', 'first_enqueue'):
        cenv[name] = VFunc(ex.repo.func(f'{RUN}.<{name}>'), frame)
    return cenv


def with_poolenv(setup=None):
    def f(ex, env):
        env.update(ex.ghost['__poolenv__'])
        if setup:
            setup(ex, env)
    return f


# ------------------------------------------------------------------------------ specification pieces
def _pool(c):
    ex = c.ex
    return ex.heap[c.env['pool'].addr].attrs


def H(ex, ref, old=False):
    return (ex.old['heap'] if old else ex.heap)[ref.addr]


def E_term(c, old=False):
    """conservation defect for the Skolem input e0"""
    ex = c.ex
    a = (ex.old['heap'] if old else ex.heap)[c.env['pool'].addr].attrs
    g = ex.old['ghost'] if old else ex.ghost
    e0 = c.env['e0'].t
    ppw = H(ex, a['_pending_per_worker'], old)
    ret = H(ex, a['_retries'], old)
    return g['drawn'] - g['done'] - ppw.extra['sumcnt'][0] - cnt_f(e0, ret.seq)


def worker_keys(c, mode):
    """instantiation terms for invariants quantified over worker ids"""
    keys = [c.env['w0'].t]
    if mode == 'assume':
        for name, v in c.env.items():
            if isinstance(v, VAbs) and v.cls == 'PWorker':
                k = v.key
            elif isinstance(v, VSym) and v.hint in (('abs', 'PWorker'), ('abs', 'PConn')):
                k = Val.vakey(v.t)
            else:
                continue
            if not any(k.eq(x) for x in keys):
                keys.append(k)
    return keys


def inv_clauses():
    def pending_is_sum(c):
        a = _pool(c)
        return a['_pending'].e == H(c.ex, a['_pending_per_worker']).extra['sumlen']
    pending_is_sum.__doc__ = 'self._pending == sum over workers of len(_pending_per_worker[w])'

    def keys_are_workers(c):
        a = _pool(c)
        return H(c.ex, a['_pending_per_worker']).dom == H(c.ex, a['_workers']).dom
    keys_are_workers.__doc__ = 'keys of _pending_per_worker == registered worker ids'

    def open_worker_matches_una(c, w0):
        ex = c.ex
        a = _pool(c)
        ppw = H(ex, a['_pending_per_worker'])
        una = F(ex, 'PWorker', VAbs('PWorker', w0), 'una')
        return z3.Implies(z3.And(z3.Select(ppw.dom, w0), z3.Not(z3.Select(H(ex, a['_closed']).dom, w0))),
                          z3.Select(ppw.map, w0) == una)
    open_worker_matches_una.__doc__ = 'w0 registered and not closed ==> _pending_per_worker[w0] == una(w0)'

    def closed_worker_has_nothing(c, w0):
        ex = c.ex
        a = _pool(c)
        ppw = H(ex, a['_pending_per_worker'])
        return z3.Implies(z3.And(z3.Select(ppw.dom, w0), z3.Select(H(ex, a['_closed']).dom, w0)),
                          z3.Length(z3.Select(ppw.map, w0)) == 0)
    closed_worker_has_nothing.__doc__ = 'w0 closed ==> _pending_per_worker[w0] == []'

    def queues_subset(c):
        a = _pool(c)
        return z3.IsSubset(H(c.ex, a['_queues']).dom, H(c.ex, a['_workers']).dom)
    queues_subset.__doc__ = 'every open queue belongs to a registered worker'
    def no_idle_while_work(c, w0):
        ex = c.ex
        a = _pool(c)
        ppw = H(ex, a['_pending_per_worker'])
        idle = z3.And(z3.Select(ppw.dom, w0), z3.Not(z3.Select(H(ex, a['_closed']).dom, w0)), z3.Length(z3.Select(ppw.map, w0)) == 0)
        nothing_to_do = z3.And(a['_depleted'].e, z3.Length(H(ex, a['_retries']).seq) == 0)
        return z3.Implies(idle, nothing_to_do)
    no_idle_while_work.__doc__ = 'w0 registered, not closed and idle ==> no input is left to hand out (depleted and retries == [])'
    no_idle_while_work.forall = worker_keys
    open_worker_matches_una.forall = worker_keys
    closed_worker_has_nothing.forall = worker_keys
    return [pending_is_sum, keys_are_workers, open_worker_matches_una, closed_worker_has_nothing, queues_subset]


# ------------------------------------------------------------------------------ progress invariant J (C08.L1)
def _st(c, old):
    ex = c.ex
    a = (ex.old['heap'] if old else ex.heap)[c.env['pool'].addr].attrs
    g = ex.old['ghost'] if old else ex.ghost
    return ex, a, g


def idle_live(c, w0, old=False):
    ex, a, g = _st(c, old)
    ppw = H(ex, a['_pending_per_worker'], old)
    return z3.And(z3.Select(H(ex, a['_workers'], old).dom, w0), z3.Not(z3.Select(H(ex, a['_closed'], old).dom, w0)),
                  z3.Select(ppw.dom, w0), z3.Length(z3.Select(ppw.map, w0)) == 0)


def nothing_left(c, old=False):
    ex, a, g = _st(c, old)
    return z3.And(a['_depleted'].e, z3.Length(H(ex, a['_retries'], old).seq) == 0)


def J_of(c, w0, old=False, settled=None, depleted_only=False):
    """J(w0): a settled, registered, non-closed worker with nothing pending exists only if nothing is left to hand out
    (source depleted and retry list empty) - or the user's enqueue function has refused an input.
    depleted_only: the weaker Jd (retries may be non-empty: inside handle_death's re-dispatch loop)"""
    ex, a, g = _st(c, old)
    S = settled if settled is not None else g['__settled__']
    rest = a['_depleted'].e if depleted_only else nothing_left(c, old)
    return z3.Implies(z3.And(z3.Select(S, w0), idle_live(c, w0, old)), z3.Or(g['refused'], rest))


def _others(c, w0, name='worker'):
    w = c.env.get(name)
    if w is None:
        return z3.BoolVal(True)
    return w0 != wkey(w)


def preserves_J(c, w0):
    return z3.Implies(z3.And(_others(c, w0), J_of(c, w0, old=True)), J_of(c, w0))


preserves_J.__doc__ = 'for every other worker w0: J(w0) before ==> J(w0) after  (J: settled idle live worker ==> nothing left to hand out, or the user function refused)'
preserves_J.forall = worker_keys


def preserves_Jd(c, w0):
    return z3.Implies(z3.And(_others(c, w0), J_of(c, w0, old=True, depleted_only=True)), J_of(c, w0, depleted_only=True))


preserves_Jd.__doc__ = 'for every other worker w0: Jd(w0) before ==> Jd(w0) after  (Jd: settled idle live worker ==> source depleted, or the user function refused)'
preserves_Jd.forall = worker_keys


def own_J(c):
    w = c.env['worker']
    return J_of(c, wkey(w), settled=z3.K(Val, z3.BoolVal(True)))


own_J.__doc__ = 'the worker this call was about: if it is (still) live and has nothing pending, nothing is left to hand out - or the user function refused'


def busy_stays_busy(c, w0):
    return z3.Implies(z3.And(_others(c, w0), idle_live(c, w0)), idle_live(c, w0, old=True))


busy_stays_busy.__doc__ = 'another worker that is idle and live now was idle and live before (no pending input disappears here)'
busy_stays_busy.forall = worker_keys


def false_means_nothing_left(c):
    r = c.env['result']
    t = c.ex.interp.truth(r)
    t = t if isinstance(t, z3.ExprRef) else z3.BoolVal(bool(t))
    return z3.Implies(z3.Not(t), nothing_left(c))


false_means_nothing_left.__doc__ = 'try_enqueue returns False only when nothing is left to hand out (source depleted, no retries)'


def refused_sticky(c):
    return z3.Implies(c.ex.old['ghost']['refused'], c.ex.ghost['refused'])


refused_sticky.__doc__ = 'a refusal of the user enqueue function is never forgotten'


def J_gives_Jd(c, w0):
    return z3.Implies(z3.And(_others(c, w0), J_of(c, w0, old=True)), J_of(c, w0, depleted_only=True))


J_gives_Jd.__doc__ = 'J(w0) at entry ==> Jd(w0) now'
J_gives_Jd.forall = worker_keys


def depleted_kept(c):
    ex = c.ex
    a = _pool(c)
    a0 = ex.old['heap'][c.env['pool'].addr].attrs
    return z3.Implies(a0['_depleted'].e, a['_depleted'].e)


depleted_kept.__doc__ = '_depleted never goes back to False'


def conservation_kept(c):
    a = _pool(c)
    return z3.Implies(a['_retry'].e, E_term(c) == E_term(c, old=True))


conservation_kept.__doc__ = 'retry on ==> E(e0) == old(E(e0))   (no input is lost or duplicated by this call)'


def no_answers(c):
    ex = c.ex
    return z3.And(ex.ghost['done'] == ex.old['ghost']['done'], ex.ghost['answered'] == ex.old['ghost']['answered'],
                  ex.ghost['drawn'] >= ex.old['ghost']['drawn'])


no_answers.__doc__ = 'no result message is consumed here: done(e0) and the answered sequence are unchanged; drawn(e0) only grows'


def never_loses_negative(c):
    return E_term(c) >= E_term(c, old=True)


never_loses_negative.__doc__ = 'E(e0) >= old(E(e0)): an input is never queued or answered more often than before'


def progress_or_refused(c, start=None):
    """a call of try_enqueue that had a retry to hand out makes progress in the well-founded order
    (number of non-closed workers, number of retries) - unless the user's enqueue function refused"""
    ex = c.ex
    a = _pool(c)
    snap = start if start is not None else ex.old
    a0 = snap['heap'][c.env['pool'].addr].attrs
    r0 = snap['heap'][a0['_retries'].addr].seq
    r1 = H(ex, a['_retries']).seq
    c0 = snap['heap'][a0['_closed'].addr].dom
    c1 = H(ex, a['_closed']).dom
    return z3.Implies(z3.Length(r0) > 0, z3.Or(z3.Length(r1) < z3.Length(r0), c1 != c0))


progress_or_refused.__doc__ = ('retries non-empty before ==> fewer retries afterwards or one more worker closed '
                               '(lexicographic progress; fails exactly when a refused input is put back)')


def iteration_progress(c):
    return z3.Or(c.ex.ghost['refused'], progress_or_refused(c, start=c.ex.ghost['__iter_start__']))


iteration_progress.__doc__ = 'the user enqueue function refused in this iteration, or: ' + progress_or_refused.__doc__


def strict_progress(c):
    return progress_or_refused(c, start=c.ex.ghost['__iter_start__'])


strict_progress.__doc__ = ('every iteration of the retry loop that goes round again made progress in the well-founded order (number of non-closed workers, '
                           'number of retries): one more worker closed, or fewer retries - also when the user enqueue function refuses (the loop then stops)')


def no_progress_means_nothing_enqueued(c):
    """try_enqueue called with a retry to hand out: if neither a worker was closed nor the retry list got shorter, this worker's pending list is as before"""
    ex = c.ex
    a = _pool(c)
    a0 = ex.old['heap'][c.env['pool'].addr].attrs
    r0 = ex.old['heap'][a0['_retries'].addr].seq
    r1 = H(ex, a['_retries']).seq
    c0 = ex.old['heap'][a0['_closed'].addr].dom
    c1 = H(ex, a['_closed']).dom
    w = c.env['worker']
    p0 = ex.old['heap'][a0['_pending_per_worker'].addr]
    p1 = H(ex, a['_pending_per_worker'])
    return z3.Implies(z3.And(z3.Length(r0) > 0, c1 == c0, z3.Length(r1) >= z3.Length(r0)),
                      z3.Length(z3.Select(p1.map, wkey(w))) == z3.Length(z3.Select(p0.map, wkey(w))))


no_progress_means_nothing_enqueued.__doc__ = ('retries non-empty before, and afterwards no worker more is closed and the retry list is not shorter (the input was refused or the '
                                              'worker turned out closed) ==> nothing was added to this worker\'s pending inputs')


def no_refusal_in_retry_loop(c):
    g0 = c.ex.ghost['__iter_start__']['ghost']['refused']
    return z3.Implies(z3.Not(g0), z3.Not(c.ex.ghost['refused']))


no_refusal_in_retry_loop.__doc__ = ('the user enqueue function does not refuse the retried input in this iteration (if it does, the '
                                    'input is put back at the front of retries, the same idle worker is picked again and the loop never ends)')


def closed_monotone(c):
    ex = c.ex
    a = _pool(c)
    return z3.IsSubset(H(ex, a['_closed'], True).dom, H(ex, a['_closed']).dom)


closed_monotone.__doc__ = '_closed only grows'


def ret_genuine(c):
    """the result handed in is appended exactly when results are collected"""
    ex = c.ex
    ret0 = H(ex, c.env['ret'], True).seq
    ret1 = H(ex, c.env['ret']).seq
    rr = c.env['return_results'].e
    return z3.If(rr, ret1 == z3.Concat(ret0, z3.Unit(lower(c.old_env['result'], ex))), ret1 == ret0)


ret_genuine.__doc__ = 'return_results ==> ret == old(ret) ++ [result]; otherwise ret is unchanged'

MODS = ['pool._pending', 'pool._retries', 'pool._closed', 'pool._pending_per_worker', 'pool._depleted',
        'abs:PWorker.una', 'abs:PWorker.alive', 'abs:PWorker.ended', 'ghost:drawn', 'ghost:done', 'ghost:refused', 'ghost:answered', 'ret']


# ------------------------------------------------------------------------------ hooks for user code and sources
def opaque_pool_call(ex, f, args, kwargs, node):
    """enqueue_fn(worker, *inp) / worker_callback(...) / source(worker): T7 - no access to pool internals, no raise"""
    env = ex.ghost['__poolenv__']
    if f is env['enqueue_fn']:
        r = ex.fresh('enqueue_fn_ret', smt.Bool)
        if ex.branch(r, 'enqueue_fn:accepted'):
            # the user function has enqueued to the worker itself
            w = args[0]
            t = inp_term(ex, args[1:])
            wa = w if isinstance(w, VAbs) else VAbs('PWorker', Val.vakey(w.t))
            una = F(ex, 'PWorker', wa, 'una')
            new = z3.Concat(una, z3.Unit(t))
            ex.interp.fact_concat(new, [una, z3.Unit(t)])
            S(ex, 'PWorker', wa, 'una', new)
            return VBool(True)
        ex.ghost['refused'] = z3.BoolVal(True)
        ex.note('enqueue_fn:refused')
        return VBool(False)
    if f is env['worker_callback']:
        return NONE
    if f is env['input_sources'].items[0]:
        return draw(ex)
    raise Undecided(f'opaque call of {f!r} in Pool.run')


def draw(ex):
    x = ex.fresh('drawn_input', Val)
    e0 = ex.ghost['cnt_track'][0]
    bump(ex, 'drawn', Val.v_tup(smt.mk_list([x])) == e0)
    ex.note('source:item')
    return VSym(x)


def next_hook(ex, it, rest):
    env = ex.ghost['__poolenv__']
    if it is env['input_sources'].items[0]:
        if ex.choose(2, 'source:next') == 1:
            ex.note('source:StopIteration')
            raise PyRaise(VExc('StopIteration', []))
        return draw(ex)
    return NotImplemented


OPTIONS = {'__opaque_call__': opaque_pool_call, '__next_hook__': next_hook, 'keyerror_forks': False}


def unused_data_hook(interp, fi, args, kwargs, node, self_cls):
    """C08.L4: with retry disabled an input that could not be enqueued is dropped by handle_unused_data; that is
    legitimate only for an input that was being handed to a worker that died (or that the user's function refused)"""
    ex = interp.ex
    env = ex.ghost.get('__poolenv__')
    if env is None:
        return NotImplemented
    pool_v = env['pool']
    a = ex.heap[pool_v.addr].attrs
    caller = ex.frames[-1] if ex.frames else None
    w = caller.locals.get('worker') if caller is not None else None
    if w is not None and isinstance(w, (VAbs, VSym)):
        died = z3.Select(ex.heap[a['_closed'].addr].dom, wkey(w))
        ex.oblige('drop', z3.Or(a['_retry'].e, died, ex.ghost['refused']),
                  'retry off: an input is dropped only if the worker it was being handed to has died (or the user enqueue function refused it)',
                  node, key=('drop', getattr(node, 'lineno', 0)))
    return NotImplemented


def install(ex):
    common.install(ex)
    ex.call_hooks[RUN + '.<handle_unused_data>'] = unused_data_hook
    ex.abs_classes['PWorker'] = pworker_class()
    ex.abs_classes['PConn'] = pconn_class()


# ------------------------------------------------------------------------------ contracts of the closures
def sums_sane(c):
    ex = c.ex
    a = _pool(c)
    ppw = H(ex, a['_pending_per_worker'])
    return z3.And(ppw.extra['sumcnt'][0] >= 0, ppw.extra['sumcnt'][0] <= ppw.extra['sumlen'])


sums_sane.__doc__ = '0 <= sum_w cnt(e0, ppw[w]) <= sum_w len(ppw[w])'


def worker_registered(name='worker'):
    def f(c):
        ex = c.ex
        a = _pool(c)
        w = c.env[name]
        key = w.key if isinstance(w, VAbs) else Val.vakey(w.t)
        return z3.Select(H(ex, a['_workers']).dom, key)
    f.__doc__ = f'{name}.id is a registered worker id'
    return f


def worker_not_closed(name='worker', old=False):
    def f(c):
        ex = c.ex
        a = (ex.old['heap'] if old else ex.heap)[c.env['pool'].addr].attrs
        w = c.env[name]
        key = w.key if isinstance(w, VAbs) else Val.vakey(w.t)
        return z3.Not(z3.Select(H(ex, a['_closed'], old).dom, key))
    f.__doc__ = f'{name}.id not in _closed'
    return f


def worker_closed(name='worker'):
    def f(c):
        ex = c.ex
        a = _pool(c)
        w = c.env[name]
        key = w.key if isinstance(w, VAbs) else Val.vakey(w.t)
        return z3.Select(H(ex, a['_closed']).dom, key)
    f.__doc__ = f'{name}.id in _closed'
    return f


def ret_unchanged(c):
    return H(c.ex, c.env['ret']).seq == H(c.ex, c.env['ret'], True).seq


ret_unchanged.__doc__ = 'the result list is not touched'


def abs_worker(name):
    return lambda I, nm: VAbs('PWorker', I.ex.fresh(nm, Val))


def opt_worker(I, nm):
    return VSym(I.ex.fresh(nm, Val), hint=('abs', 'PWorker'))


def build_closure_contracts(ex, with_variants=True):
    INV = inv_clauses() + [sums_sane]
    cons = {}

    def mk(fname, lid, **kw):
        kw.setdefault('options', dict(OPTIONS))
        kw.setdefault('raises', {})
        kw.setdefault('raises_only', [])
        c = Contract(f'{RUN}.<{fname}>', lid=lid, closure_env=closure_env, self_class=P, **kw)
        cons[fname] = c
        ex.contracts[c.func] = c
        return c

    # ---- get_next_idle_worker
    def idle_ok(c):
        ex_ = c.ex
        a = _pool(c)
        rt = lower(c.env['result'], ex_)
        rid = Val.vakey(rt)
        ppw = H(ex_, a['_pending_per_worker'])
        good = z3.And(Val.is_v_abs(rt), z3.Select(H(ex_, a['_workers']).dom, rid), z3.Not(z3.Select(H(ex_, a['_closed']).dom, rid)),
                      z3.Length(z3.Select(ppw.map, rid)) == 0)
        return z3.Or(rt == Val.v_none, good)
    idle_ok.__doc__ = 'result is None or a registered, non-closed worker with no pending input'

    def none_means_no_idle(c):
        ex_ = c.ex
        a = _pool(c)
        rt = lower(c.env['result'], ex_)
        w0 = c.env['w0'].t
        ppw = H(ex_, a['_pending_per_worker'])
        idle0 = z3.And(z3.Select(ppw.dom, w0), z3.Length(z3.Select(ppw.map, w0)) == 0, z3.Not(z3.Select(H(ex_, a['_closed']).dom, w0)))
        return z3.Implies(rt == Val.v_none, z3.Not(idle0))
    none_means_no_idle.__doc__ = 'result is None ==> the arbitrary worker w0 is not (registered, idle, non-closed)'

    mk('get_next_idle_worker', 'Lg', name='C07.Lg get_next_idle_worker returns an idle non-closed registered worker, None only if there is none',
       setup=with_poolenv(), requires=INV, ensures=[idle_ok, none_means_no_idle], modifies=[], returns=opt_worker)

    # ---- try_enqueue
    def held_term(c):
        ex_ = c.ex
        hd = ex_.interp.truth(c.env['has_data'])
        hd = hd if isinstance(hd, z3.ExprRef) else z3.BoolVal(bool(hd))
        return z3.If(z3.And(hd, lower(c.env['inp'], ex_) == c.env['e0'].t), 1, 0)

    def in_hand(c):
        """inside try_enqueue's loop: the input taken from next_inputs is accounted for exactly once"""
        a = _pool(c)
        return z3.Implies(a['_retry'].e, E_term(c) == E_term(c, old=True) + held_term(c))
    in_hand.__doc__ = 'retry on ==> E(e0) == old(E(e0)) + [the input in hand is e0]'

    def in_hand_weak(c):
        return E_term(c) >= E_term(c, old=True) + held_term(c)
    in_hand_weak.__doc__ = 'E(e0) >= old(E(e0)) + [the input in hand is e0]'

    def pending_of_worker_kept(c):
        ex_ = c.ex
        a = _pool(c)
        a0 = ex_.old['heap'][c.env['pool'].addr].attrs
        w = c.env['worker']
        p0 = ex_.old['heap'][a0['_pending_per_worker'].addr]
        p1 = H(ex_, a['_pending_per_worker'])
        return z3.Length(z3.Select(p1.map, wkey(w))) == z3.Length(z3.Select(p0.map, wkey(w)))
    pending_of_worker_kept.__doc__ = 'while the input is in hand nothing has been added to this worker\'s pending inputs'

    def data_facts(c):
        """while an input is in hand: it came from the retry list (then that list was non-empty at entry) or from the source (then the source is not depleted, now as at entry)"""
        ex_ = c.ex
        a = _pool(c)
        a0 = ex_.old['heap'][c.env['pool'].addr].attrs
        hd = ex_.interp.truth(c.env['has_data'])
        hd = hd if isinstance(hd, z3.ExprRef) else z3.BoolVal(bool(hd))
        fr_ = ex_.interp.truth(c.env['from_retries'])
        fr_ = fr_ if isinstance(fr_, z3.ExprRef) else z3.BoolVal(bool(fr_))
        return z3.And(z3.Implies(hd, z3.And(z3.Implies(z3.Not(fr_), z3.And(z3.Not(a['_depleted'].e), z3.Not(a0['_depleted'].e))), a['_depleted'].e == a0['_depleted'].e)),
                      z3.Implies(z3.Not(hd), nothing_left(c)))
    data_facts.__doc__ = ('an input in hand that did not come from the retry list was drawn from a source that is not depleted, and _depleted is as at entry while an input is in hand; '
                          'no input in hand means nothing is left to hand out')

    def progress_unless_refused(c):
        return z3.Or(c.ex.ghost['refused'], progress_or_refused(c))
    progress_unless_refused.__doc__ = 'the user enqueue function refused during this call, or: ' + progress_or_refused.__doc__

    def retries_in_loop(c):
        ex_ = c.ex
        a = _pool(c)
        a0 = ex_.old['heap'][c.env['pool'].addr].attrs
        r0 = ex_.old['heap'][a0['_retries'].addr].seq
        r1 = H(ex_, a['_retries']).seq
        fr_ = ex_.interp.truth(c.env['from_retries'])
        fr_ = fr_ if isinstance(fr_, z3.ExprRef) else z3.BoolVal(bool(fr_))
        return z3.And(fr_ == (z3.Length(r0) > 0), z3.Length(r1) == z3.Length(r0) - z3.If(fr_, 1, 0),
                      H(ex_, a['_closed']).dom == ex_.old['heap'][a0['_closed'].addr].dom)
    retries_in_loop.__doc__ = ('while the input is in hand: from_retries iff retries was non-empty at entry; retries is '
                               'one shorter exactly then; _closed is as at entry')

    mk('try_enqueue', 'Lt', name='C07.Lt try_enqueue places the input it takes (worker, retries) or hands it to handle_unused_data; keeps Inv',
       params={'worker': abs_worker('worker')}, setup=with_poolenv(),
       requires=INV + [worker_registered(), worker_not_closed()],
       ensures=INV + [conservation_kept, closed_monotone, ret_unchanged, no_answers, never_loses_negative, progress_unless_refused, no_progress_means_nothing_enqueued,
                      preserves_J, preserves_Jd, own_J, busy_stays_busy, false_means_nothing_left, refused_sticky, depleted_kept],
       returns='bool', modifies=MODS,
       loops={0: Loop(invariant=INV + [in_hand, in_hand_weak, retries_in_loop, closed_monotone, ret_unchanged, no_answers, worker_registered(), worker_not_closed(), pending_of_worker_kept,
                                       busy_stays_busy, data_facts, refused_sticky, depleted_kept],
                      modifies=MODS, locals={'trials': 'int'})})

    # ---- handle_death
    mk('handle_death', 'Ld', name='C07.Ld handle_death closes the worker, moves its pending inputs to retries (retry on) and re-dispatches; keeps Inv',
       params={'worker': abs_worker('worker'), 'when': 'any'}, setup=with_poolenv(),
       requires=INV + [worker_registered(), worker_not_closed()],
       ensures=INV + [conservation_kept, closed_monotone, ret_unchanged, worker_closed(), no_answers, never_loses_negative, preserves_J, preserves_Jd, busy_stays_busy, refused_sticky, depleted_kept],
       returns='none', modifies=MODS,
       loops={0: Loop(invariant=INV + [conservation_kept, closed_monotone, ret_unchanged, worker_closed(), no_answers, never_loses_negative, preserves_Jd, J_gives_Jd, busy_stays_busy, refused_sticky,
                                       depleted_kept],
                      modifies=MODS, locals={'idle': opt_worker}, progress=[strict_progress])})

    # ---- handle_new_result
    def just_answered(c):
        """state right after a True message of `worker` was read: its oldest pending input is the one answered"""
        ex_ = c.ex
        a = _pool(c)
        w = c.env['worker']
        ppw = H(ex_, a['_pending_per_worker'])
        una = F(ex_, 'PWorker', w, 'una')
        la = ex_.ghost['last_answered']
        closed = z3.Select(H(ex_, a['_closed']).dom, wkey(w))
        return z3.Implies(z3.Not(closed), z3.Select(ppw.map, wkey(w)) == z3.Concat(z3.Unit(la), una))
    just_answered.__doc__ = 'worker not closed ==> ppw[worker.id] == [answered input] ++ una(worker)'

    def others_match(c, w0):
        ex_ = c.ex
        a = _pool(c)
        w = c.env['worker']
        ppw = H(ex_, a['_pending_per_worker'])
        una0 = F(ex_, 'PWorker', VAbs('PWorker', w0), 'una')
        return z3.Implies(z3.And(w0 != wkey(w), z3.Select(ppw.dom, w0), z3.Not(z3.Select(H(ex_, a['_closed']).dom, w0))),
                          z3.Select(ppw.map, w0) == una0)
    others_match.__doc__ = 'every other open worker w0: ppw[w0] == una(w0)'
    others_match.forall = worker_keys

    def answered_pending(c):
        ex_ = c.ex
        a = _pool(c)
        w = c.env['worker']
        ppw = H(ex_, a['_pending_per_worker'])
        return z3.Length(z3.Select(ppw.map, wkey(w))) > 0
    answered_pending.__doc__ = 'the worker that answered has a pending input recorded (so pop(0) cannot fail)'

    def result_is_answer(c):
        return c.env['result'].t == result_of(c.ex.ghost['last_answered'])
    result_is_answer.__doc__ = 'the result handed in is the target value for the answered input'

    def cons_after_answer(c):
        ex_ = c.ex
        a = _pool(c)
        la = ex_.old['ghost']['last_answered']
        e0 = c.env['e0'].t
        return z3.Implies(a['_retry'].e, E_term(c) == E_term(c, old=True) + z3.If(la == e0, 1, 0))
    cons_after_answer.__doc__ = 'retry on ==> E(e0) == old(E(e0)) + [answered input is e0]  (done was counted when the message was read)'

    def cons_after_answer_weak(c):
        ex_ = c.ex
        la = ex_.old['ghost']['last_answered']
        return E_term(c) >= E_term(c, old=True) + z3.If(la == c.env['e0'].t, 1, 0)
    cons_after_answer_weak.__doc__ = 'E(e0) >= old(E(e0)) + [answered input is e0]'

    def new_result_setup(ex_, env):
        ex_.ghost['last_answered'] = ex_.fresh('answered', Val)
        # handle_new_result reads run()'s local `wid` (for a log line).  At its only call site that local has just been unpacked from the message and the
        # worker looked up under it, so it is bound and equals worker.id (assumption A-wid, stated in C07.ASSUMPTIONS; not re-checked at the call site)
        fr = ex_.ghost.get('__closure_frame__')
        w = env.get('worker')
        if fr is not None and isinstance(w, VAbs):
            fr.locals['wid'] = VSym(w.key)
    inv_wo_match = [x for x in INV if x.__name__ != 'open_worker_matches_una']
    mk('handle_new_result', 'Ln', name='C07.Ln handle_new_result pops the answered input, records the genuine result, refills the worker; restores Inv',
       params={'worker': abs_worker('worker'), 'result': 'any'}, setup=with_poolenv(new_result_setup),
       requires=inv_wo_match + [worker_registered(), just_answered, others_match, answered_pending, result_is_answer],
       ensures=INV + [cons_after_answer, cons_after_answer_weak, closed_monotone, ret_genuine, no_answers, preserves_J, own_J, refused_sticky, depleted_kept],
       returns='none', modifies=MODS)

    # ---- first_enqueue
    def base_set(c):
        i = c.env['__i__'].e
        return z3.If(i >= 1, z3.K(Val, z3.BoolVal(True)), z3.K(Val, z3.BoolVal(False)))

    def J_rounds(c, w0):
        return J_of(c, w0, settled=base_set(c))
    J_rounds.__doc__ = 'J(w0) for the workers settled so far: all of them once the first round is complete'
    J_rounds.forall = worker_keys

    def J_round(c, w0):
        return J_of(c, w0, settled=z3.SetUnion(base_set(c), c.env['__visited__'].t))
    J_round.__doc__ = 'J(w0) for the workers of earlier rounds and those already visited in this round'
    J_round.forall = worker_keys

    def settle_current(ex_, fr):
        # logical variable of the callee contracts: the set for which J is claimed after this call = earlier rounds + visited + the worker visited now
        i = fr.locals['__i__'].e
        base = z3.If(i >= 1, z3.K(Val, z3.BoolVal(True)), z3.K(Val, z3.BoolVal(False)))
        ex_.ghost['__settled__'] = z3.SetUnion(base, z3.Store(fr.locals['__visited__'].t, fr.locals['__k__'].t, z3.BoolVal(True)))
        w = fr.locals.get('worker')
        if isinstance(w, VSym):
            ex_.assume(Val.vakey(w.t) == fr.locals['__k__'].t)          # a worker is registered under its own id (fixed_map)

    def J_all(c, w0):
        return J_of(c, w0, settled=z3.K(Val, z3.BoolVal(True)))
    J_all.__doc__ = 'afterwards J holds for every worker: a live worker with nothing pending exists only if nothing is left to hand out (or the user function refused)'
    J_all.forall = worker_keys

    def unsettled_entry(ex_, env):
        ex_.ghost['__settled__'] = z3.K(Val, z3.BoolVal(False))
    mk('first_enqueue', 'Lf', name='C07.Lf first_enqueue keeps Inv, loses no input and leaves no worker idle while there is work',
       setup=with_poolenv(unsettled_entry), requires=INV, ensures=INV + [conservation_kept, closed_monotone, ret_unchanged, no_answers, never_loses_negative, J_all, refused_sticky, depleted_kept],
       returns='none', modifies=MODS,
       loops={0: Loop(invariant=INV + [conservation_kept, closed_monotone, ret_unchanged, no_answers, never_loses_negative, J_rounds, refused_sticky, depleted_kept], modifies=MODS,
                      locals={'worker': abs_worker('worker'), 'more_data': 'bool'}),
              1: Loop(invariant=INV + [conservation_kept, closed_monotone, ret_unchanged, no_answers, never_loses_negative, J_round, refused_sticky, depleted_kept], modifies=MODS,
                      locals={'more_data': 'bool'}, on_bind=settle_current)})
    # the same function against its J-free contract (loop contracts that do not depend on the shape of the iteration): kept as a lemma of its own so that
    # a refactoring of first_enqueue's loops that leaves the J-carrying proof undecided is still checked for Inv / conservation / the callee preconditions
    lf = cons['first_enqueue']
    plain = [x for x in INV]
    extra = [conservation_kept, closed_monotone, ret_unchanged, no_answers, never_loses_negative]
    lf0 = Contract(lf.func, lid='Lf0', name='C07.Lf0 first_enqueue keeps Inv and loses no input (shape-independent part)', closure_env=closure_env, self_class=P,
                   setup=with_poolenv(), requires=plain, ensures=plain + extra, returns='none', modifies=MODS, raises={}, raises_only=[], options=dict(OPTIONS),
                   loops={0: Loop(invariant=plain + extra, modifies=MODS, locals={'worker': abs_worker('worker'), 'more_data': 'bool'}),
                          1: Loop(invariant=plain + extra, modifies=MODS, locals={'more_data': 'bool', 'worker': abs_worker('worker')})})
    cons['first_enqueue0'] = lf0
    for n in ('get_next_idle_worker', 'try_enqueue', 'handle_death', 'handle_new_result', 'first_enqueue'):
        ex.use_contract.add(f'{RUN}.<{n}>')
    return cons


# ------------------------------------------------------------------------------ Pool.run itself
def open_worker_has_queue(c, w0):
    ex = c.ex
    a = _pool(c)
    return z3.Implies(z3.And(z3.Select(H(ex, a['_workers']).dom, w0), z3.Not(z3.Select(H(ex, a['_closed']).dom, w0))),
                      z3.Select(H(ex, a['_queues']).dom, w0))


open_worker_has_queue.__doc__ = 'w0 registered and not closed ==> its result queue is still open'
open_worker_has_queue.forall = worker_keys


def at_rest(c):
    a = _pool(c)
    return z3.Implies(a['_retry'].e, E_term(c) == 0)


at_rest.__doc__ = 'retry on ==> E(e0) == 0: every drawn input is answered, pending at a worker, or waiting in retries'


def never_duplicated(c):
    return E_term(c) >= 0


never_duplicated.__doc__ = 'E(e0) >= 0: no input is answered or queued more often than it was drawn'


def pairing(c):
    """the k0-th collected result is the target's value for the k0-th answered input"""
    ex = c.ex
    ret = H(ex, c.env['ret']).seq
    ans = ex.ghost['answered']
    k0 = c.env['k0'].e
    rr = c.env['return_results'].e
    e0 = c.env['e0'].t
    return z3.And(ex.ghost['done'] == cnt_f(e0, ans),
                  z3.Implies(rr, z3.And(z3.Length(ret) == z3.Length(ans),
                                        z3.Implies(z3.And(k0 >= 0, k0 < z3.Length(ans)), ret[k0] == result_of(ans[k0])))))


pairing.__doc__ = ('done(e0) == cnt(e0, answered) and, when results are collected, len(ret) == len(answered) and '
                   'ret[k0] == result_of(answered[k0]) for the arbitrary position k0')


def build_run_contract(ex, strict_poolerror=False):
    INV = inv_clauses() + [sums_sane, open_worker_has_queue]
    fi_run = ex.repo.func(RUN)

    def setup(ex_, env):
        cenv = pool_state(ex_, env)
        pool_v = cenv['self']
        a = ex_.heap[pool_v.addr].attrs
        a['_map_guard'] = ex_.interp.sym('map_guard', 'bool')
        a['_pool_closed'] = ex_.interp.sym('pool_closed', 'bool')
        env['self'] = pool_v
        env['input_sources'] = cenv['input_sources']
        for k in ('worker_callback', 'enqueue_fn', 'worker_extra_pending_inputs', 'return_results'):
            env[k] = cenv[k]
        k0 = ex_.fresh('k0', smt.Int)
        env['k0'] = VInt(k0)
        # nothing of this run has happened yet
        ex_.ghost['drawn'] = z3.IntVal(0)
        ex_.ghost['done'] = z3.IntVal(0)
        ex_.ghost['refused'] = z3.BoolVal(False)                       # nothing has been refused when run() starts
        ex_.ghost['__settled__'] = z3.K(Val, z3.BoolVal(True))         # in the main loop J is claimed for every worker
        ex_.ghost['answered'] = z3.Empty(SeqVal)
        ex_.ghost['__specenv__'] = {'pool': pool_v, 'e0': env['e0'], 'w0': env['w0'], 'k0': env['k0']}
        ex_.ghost['__poolenv__'] = env
        ex_.ghost['__attr_kinds__'] = {'_retries': 'symlist'}
        ex_.ghost['__local_kinds__'] = {(RUN, 'ret'): 'symlist'}

        def ppw_comp(interp, e, fr):
            wk = ex_.heap[a['_workers'].addr]
            d = HSymDict(wk.dom, z3.K(Val, z3.Empty(SeqVal)), vkind='symlist')
            d.extra = {'sumlen': z3.IntVal(0), 'sumcnt': [z3.IntVal(0)]}
            return ex_.alloc(d)
        # the dict comprehension { worker.id: [] for worker in self.workers }: one empty list per registered worker
        ex_.ghost['__comp_hooks__'] = {(RUN, 'dict', 0): ppw_comp}

        def conn_wait(ex2, args, k):
            ex2.oblige('block', a_pending(ex2) > 0,
                       'connection.wait() is reached only while some non-closed worker owes a message (pending > 0), so it cannot block for ever',
                       ex2.ghost.get('__cur_node__'), key=('wait-block',))
            r = ex2.alloc(HSymList(ex2.fresh('ready', SeqVal)))
            ex2.heap[r.addr].elem_hint = ('abs', 'PConn')
            return r

        def a_pending(ex2):
            return ex2.heap[pool_v.addr].attrs['_pending'].e
        ex_.ghost['__conn_wait__'] = conn_wait
        ex_.ghost['__list_of_view__'] = lambda ex2, v: VStr('<list of queues>')

    def entry_no_outstanding(c, w0):
        ex_ = c.ex
        a = _pool(c)
        una = F(ex_, 'PWorker', VAbs('PWorker', w0), 'una')
        return z3.Implies(z3.Not(z3.Select(H(ex_, a['_closed']).dom, w0)), z3.Length(una) == 0)
    entry_no_outstanding.__doc__ = 'at entry no non-closed worker has unanswered inputs of an earlier run (C09.L2)'
    entry_no_outstanding.forall = worker_keys

    def conn_is_open_queue(ex_, fr):
        """T3: connection.wait returns distinct members of the list it was given; a queue is removed only when its own
        EOF is handled, so the connection bound here is still a registered queue"""
        pool_v = ex_.ghost['__specenv__']['pool']
        q = ex_.heap[ex_.heap[pool_v.addr].attrs['_queues'].addr]
        conn = fr.locals['conn']
        ex_.assume(conn.t == Val.v_abs(z3.IntVal(smt.cls_code('PConn')), Val.vakey(conn.t)))
        ex_.assume(z3.Select(q.dom, Val.vakey(conn.t)))
        for inv in loop_inv:
            if getattr(inv, 'forall', None) is not None:
                ex_.assume(ex_.spec_bool(inv, fr, mode='assume'))     # the invariant holds for every worker id: instantiate at this queue's

    def J_main(c, w0):
        return J_of(c, w0, settled=z3.K(Val, z3.BoolVal(True)))
    J_main.__doc__ = ('progress invariant J: a registered, non-closed worker (w0 arbitrary) with nothing pending exists only if nothing is left to hand out '
                      '(source depleted and no retries) - or the user enqueue function has refused an input')
    J_main.forall = worker_keys

    def _all_closed(c):
        ex_ = c.ex
        a = _pool(c)
        w0 = c.env['w0'].t
        ppw = H(ex_, a['_pending_per_worker'])
        # T1 (sum abstraction): each summand of the sum of the pending-list lengths is at most the sum
        ex_.assume(z3.Implies(z3.Select(ppw.dom, w0), z3.And(z3.Length(z3.Select(ppw.map, w0)) >= 0, z3.Length(z3.Select(ppw.map, w0)) <= ppw.extra['sumlen'])))
        return z3.Implies(z3.Select(H(ex_, a['_workers']).dom, w0), z3.Select(H(ex_, a['_closed']).dom, w0))

    def poolerror_only_without_workers(c):
        return z3.Or(_all_closed(c), c.ex.ghost['refused'])
    poolerror_only_without_workers.__doc__ = ('C08.L1: PoolError is raised only if every registered worker (w0 arbitrary) has died or been closed - '
                                              'or the user enqueue function refused an input (see the strict clause)')

    def poolerror_strict(c):
        exc = c.env.get('raised')
        if not isinstance(exc, VExc) or exc.cls != 'PoolError':
            return z3.BoolVal(True)
        return _all_closed(c)
    poolerror_strict.__doc__ = ('C08.L1 (strict): PoolError is raised only if every registered worker has died or been closed - also when the user enqueue function '
                                'refuses (worker, input) pairs')

    loop_inv = INV + [at_rest, never_duplicated, pairing, J_main, refused_sticky]
    main = Loop(invariant=loop_inv, modifies=MODS + ['pool._queues'], locals={})
    inner = Loop(invariant=loop_inv, modifies=MODS + ['pool._queues'], on_bind=conn_is_open_queue,
                 locals={'msg': 'any', 'found': 'bool', 'wid': 'any', 'queue': 'any', 'flag': 'bool', 'result': 'any',
                         'unused_counter': 'any', 'worker': opt_worker})

    def search_inv(c):
        ex_ = c.ex
        conn = c.env['conn']
        vis = c.env['__visited__'].t
        return z3.And(z3.Not(c.env['found'].e), z3.Not(z3.Select(vis, Val.vakey(conn.t))))
    search_inv.__doc__ = 'the queue of the connection that reported EOF has not been passed yet (so the search finds it)'
    search = Loop(invariant=[search_inv], modifies=[], locals={'wid': 'any', 'queue': opt_conn})

    def all_workers_closed(c):
        ex_ = c.ex
        a = _pool(c)
        w0 = c.env['w0'].t
        return z3.Implies(z3.Select(H(ex_, a['_workers']).dom, w0), z3.Select(H(ex_, a['_closed']).dom, w0))
    all_workers_closed.__doc__ = 'PoolError is raised only if every registered worker (w0 arbitrary) has died or been closed'

    def exactly_once(c):
        ex_ = c.ex
        a = _pool(c)
        return z3.Implies(a['_retry'].e, ex_.ghost['drawn'] == ex_.ghost['done'])
    exactly_once.__doc__ = 'retry on, normal return ==> drawn(e0) == answered(e0): each input answered exactly once'

    def returns_ret(c):
        ex_ = c.ex
        r = c.env['result']
        rr = c.env['return_results'].e
        if isinstance(r, VRef):
            return z3.And(rr, pairing_on(c, ex_.heap[r.addr].seq))
        return z3.Or(z3.Not(rr), ex_.ghost['drawn'] == 0)
    returns_ret.__doc__ = 'the returned list is the collected results: one genuine result per answered input, in answer order'

    def pairing_on(c, ret):
        ex_ = c.ex
        ans = ex_.ghost['answered']
        k0 = c.env['k0'].e
        return z3.And(z3.Length(ret) == z3.Length(ans),
                      z3.Implies(z3.And(k0 >= 0, k0 < z3.Length(ans)), ret[k0] == result_of(ans[k0])))

    def partial_genuine(c):
        ex_ = c.ex
        exc = c.env['raised']
        if not isinstance(exc, VExc) or exc.cls != 'PoolError':
            return z3.BoolVal(True)
        pr = exc.fields.get('partial_results')
        rr = c.env['return_results'].e
        base = ex_.ghost['done'] <= ex_.ghost['drawn']
        if isinstance(pr, VRef):
            return z3.And(base, pairing_on(c, ex_.heap[pr.addr].seq))
        return z3.And(base, z3.Not(rr))
    partial_genuine.__doc__ = 'PoolError.partial_results holds only genuine results, at most one per input'

    con = Contract(
        RUN, lid='Lr', name='C07.Lr Pool.run: exactly one genuine result per input on normal return (retry on); only PoolError/RuntimeError escape',
        self_class=P, setup=setup,
        params={'self': ('const', None), 'input_sources': ('const', None), 'worker_callback': ('const', None),
                'enqueue_fn': ('const', None), 'worker_extra_pending_inputs': ('const', None), 'return_results': ('const', None)},
        requires=[inv_clauses()[1], inv_clauses()[4], open_worker_has_queue, entry_no_outstanding],
        ensures=[exactly_once, returns_ret],
        raises={'PoolError': poolerror_only_without_workers, 'RuntimeError': None},
        raises_only=['PoolError', 'RuntimeError'],
        all_exits=[partial_genuine] + ([poolerror_strict] if strict_poolerror else []),
        loops={0: main, 1: inner, 2: search},
        options=dict(OPTIONS))
    ex.contracts[RUN + '#top'] = con
    return con


def opt_conn(I, nm):
    return VSym(I.ex.fresh(nm, Val), hint=('abs', 'PConn'))
