"""RemoteServer.run under contract (cones of C11, C18, C20.L3, C12.L1).

Environment: every accept() yields a fresh client connection whose message stream is arbitrary within the
protocol's message types and may END AT ANY POINT (client crash / disconnect = recv_msg raises
ConnectionClosedError at that point; send_msg to a vanished client raises ConnectionClosedError).
"""
import z3

from pyvc import smt
from pyvc.smt import Val, ValList, SeqVal
from pyvc.values import *  # noqa
from pyvc.contracts import Contract, Loop, AbsClass
from pyvc.core import PyRaise, PathEnd, Undecided
from pyvc.interp_data import cnt_f
from . import common

RS = 'pyworkers.remote_server.RemoteServer'


def raise_(cls, *a):
    raise PyRaise(VExc(cls, list(a)))


def F(ex, cls, o, f):
    return ex.abs_classes[cls].get(ex, o, f)


def S(ex, cls, o, f, v):
    ex.abs_classes[cls].set(ex, o, f, v)


def header_inv(ex, x, ipos):
    """protocol: first message of a client is None or (ctx_id, is_worker: bool)"""
    lst = Val.vitems(x)
    pair = z3.And(Val.is_v_tup(x), ValList.is_vl_cons(lst), ValList.is_vl_cons(ValList.vl_tl(lst)),
                  ValList.is_vl_nil(ValList.vl_tl(ValList.vl_tl(lst))), Val.is_v_bool(ValList.vl_hd(ValList.vl_tl(lst))))
    ctx_or_none = z3.Or(x == Val.v_none,
                        z3.And(Val.is_v_abs(x), Val.vacls(x) == smt.cls_code('RCtx')))
    return z3.If(ipos == 0, z3.Or(x == Val.v_none, pair), ctx_or_none)


def lsock_class():
    def accept(ex, a, k):
        """blocks until a client connects; the only other way out is the asynchronous terminate request"""
        s = a[0]
        prev = ex.ghost.get('cur_cli')
        if prev is not None:
            c = prev
            ok = z3.Or(z3.Not(F(ex, 'Conn', c, 'open')), z3.Length(F(ex, 'Conn', c, 'out')) > 0, ex.ghost['cli_handed'],
                       ex.ghost['cli_gone'], ex.ghost['cli_no_reply_expected'])
            ex.oblige('resource', ok,
                      'before the next accept() the previous client socket has been answered, handed to a worker/context, or closed '
                      '(otherwise that client waits for ever)', ex.ghost.get('__cur_node__'), key=('accept-resource',))
        d = ex.choose(2, 'accept:outcome')
        if d == 1:
            ex.note('accept:terminated')
            ex.ghost['terminate_requested'] = z3.BoolVal(True)
            raise_('WorkerTerminatedError')
        n = ex.fresh_ctr.get('#cli', 0)
        ex.fresh_ctr['#cli'] = n + 1
        cli = common.new_chan(ex, 'Conn', f'cli#{n}')
        ex.ghost['cur_cli'] = cli
        ex.ghost['cli_handed'] = z3.BoolVal(False)
        ex.ghost['cli_gone'] = z3.BoolVal(False)
        ex.ghost['cli_no_reply_expected'] = z3.BoolVal(False)
        ex.ghost['none_header_received'] = z3.BoolVal(False)
        ex.ghost['new_child_key'] = None
        ex.ghost['n_accepts'] = ex.ghost.get('n_accepts', z3.IntVal(0)) + 1
        return VTuple([cli, VSym(ex.fresh('cli_addr', Val))])

    def close(ex, a, k):
        S(ex, 'LSock', a[0], 'open', z3.BoolVal(False))
        return NONE
    return AbsClass('LSock', fields={'open': smt.Bool}, methods={'accept': accept, 'close': close},
                    text='listening socket: accept() returns a new connected client socket (blocks until one connects)')


def rctx_class():
    """a registered remote context (server side): the RemoteContext object unpickled from the client"""
    def call(ex, a, k):
        ex.ghost['cli_handed'] = z3.BoolVal(True)
        S(ex, 'RCtx', a[0], 'calls', F(ex, 'RCtx', a[0], 'calls') + 1)
        return VBool(ex.fresh('ctx_call_ret', smt.Bool))

    def wait(ex, a, k):
        r = ex.fresh('ctx_wait_ret', smt.Bool)
        S(ex, 'RCtx', a[0], 'waited', z3.BoolVal(True))
        S(ex, 'RCtx', a[0], 'alive', z3.And(F(ex, 'RCtx', a[0], 'alive'), z3.Not(r)))
        return VBool(r)

    def terminate(ex, a, k):
        S(ex, 'RCtx', a[0], 'terminated', z3.BoolVal(True))
        outs = ex.ghost.get('child_terminate_raises', []) if '_release_remote_ctrl' in k else []
        if outs:
            d = ex.choose(1 + len(outs), 'terminate:outcome')
            if d > 0:
                S(ex, 'RCtx', a[0], 'term_raised', z3.BoolVal(True))
                raise_(outs[d - 1])
        r = ex.fresh('terminate_ret', smt.Bool)
        S(ex, 'RCtx', a[0], 'alive', z3.And(F(ex, 'RCtx', a[0], 'alive'), z3.Not(r)))
        return VBool(r)

    def is_alive(ex, a, k):
        return VBool(F(ex, 'RCtx', a[0], 'alive'))
    return AbsClass('RCtx', fields={'calls': smt.Int, 'waited': smt.Bool, 'terminated': smt.Bool, 'alive': smt.Bool, 'killed': smt.Bool, 'term_raised': smt.Bool},
                    methods={'call': call, 'wait': wait, 'terminate': terminate, 'is_alive': is_alive},
                    attrs={'pid': lambda I, o: VSym(Val.v_tup(smt.mk_list([Val.v_str(z3.IntVal(smt.str_code('<pid of>'))), o.key])))},
                    text='server-side child handle (remote worker or context): wait/terminate/is_alive per C04; call() hands the client socket to the context helper')


def worker_payload_hook(interp, fi, args, kwargs, node, self_cls):
    """recv_msg on a client connection.  With state overwrites it is the worker payload: unpickling runs the server-side
    RemoteWorker.__setstate__ (own lemma), which returns the started child or fails with ConnectionClosedError when the client
    goes away during the handshake."""
    ex = interp.ex
    patches = args[1] if len(args) > 1 else kwargs.get('state_overwrites', NONE)
    if patches is NONE:
        try:
            s = args[0]
            first = smt.simp(F(ex, 'Conn', s, 'ipos') == 0) if isinstance(s, VAbs) else None
            r = common.msg_recv_hook(interp, fi, args, kwargs, node, self_cls)
            if first is not None and z3.is_true(first) and isinstance(r, VSym):
                # a client that sends None as its header expects no reply
                ex.ghost['cli_no_reply_expected'] = (r.t == Val.v_none)
                ex.ghost['none_header_received'] = (r.t == Val.v_none)
            return r
        except PyRaise as pr:
            if pr.exc.cls == 'ConnectionClosedError':
                ex.ghost['cli_gone'] = z3.BoolVal(True)
            raise
    d = ex.choose(2, 'payload:outcome')
    if d == 1:
        ex.note('payload:client-failure')
        ex.ghost['cli_gone'] = z3.BoolVal(True)
        raise_('ConnectionClosedError')
    n = ex.fresh_ctr.get('#child', 0)
    ex.fresh_ctr['#child'] = n + 1
    child = VAbs('RCtx', Val.v_str(z3.IntVal(smt.str_code(f'<child#{n}>'))))
    S(ex, 'RCtx', child, 'alive', z3.BoolVal(True))
    S(ex, 'RCtx', child, 'terminated', z3.BoolVal(False))
    S(ex, 'RCtx', child, 'killed', z3.BoolVal(False))
    ex.ghost['cli_handed'] = z3.BoolVal(True)
    ex.ghost['new_child_key'] = child.key
    # allocation: the new child is a fresh object; the arbitrary child c0, if it is this one, cannot have been registered before
    env = ex.ghost.get('__srvenv__')
    if env is not None:
        c0 = ex.ghost['cnt_track'][0]
        a = ex.heap[env['self'].addr].attrs
        ch = a.get('children')
        fresh = z3.Not(ex.ghost['was_child'])
        if isinstance(ch, VRef) and isinstance(ex.heap[ch.addr], HSymList):
            fresh = z3.And(fresh, cnt_f(c0, ex.heap[ch.addr].seq) == 0)
        ex.assume(z3.Implies(Val.vakey(c0) == child.key, fresh))
    return child


def send_hook(interp, fi, args, kwargs, node, self_cls):
    ex = interp.ex
    try:
        return common.msg_send_hook(interp, fi, args, kwargs, node, self_cls)
    except PyRaise as pr:
        if pr.exc.cls == 'ConnectionClosedError':
            ex.ghost['cli_gone'] = z3.BoolVal(True)
        raise


def os_kill(ex, a, k):
    pid = a[0]
    ex.ghost['killed_pids'] = z3.Store(ex.ghost['killed_pids'], lower(pid, ex), z3.BoolVal(True))
    return NONE


def server_state(ex, env):
    I = ex.interp
    ci = ex.repo.cls(RS)
    lsock = VAbs('LSock', Val.v_str(z3.IntVal(smt.str_code('<listening socket>'))))
    S(ex, 'LSock', lsock, 'open', z3.BoolVal(True))
    attrs = {'closed': VBool(False), 'socket': lsock, 'close_on_none': I.sym('close_on_none', 'bool'),
             'children': ex.alloc(HSymList(z3.Empty(SeqVal))), 'req_addr': I.sym('req_addr'), 'addr': I.sym('addr')}
    self_v = ex.alloc(HObj(ci, attrs))
    env['self'] = self_v
    env['lsock'] = lsock
    ex.ghost['killed_pids'] = z3.K(Val, z3.BoolVal(False))
    ex.ghost['was_child'] = z3.BoolVal(False)
    ex.ghost['cur_cli'] = None
    ex.ghost['terminate_requested'] = z3.BoolVal(False)
    ex.ghost['none_header_received'] = z3.BoolVal(False)
    ex.ghost['__attr_kinds__'] = {'children': 'symlist', 'contexts': ('symdict', ('abs', 'RCtx'))}
    for nm, srt in (('p0', smt.Int), ('k1', smt.Int), ('k2', smt.Int)):
        env[nm] = VInt(ex.fresh(nm, srt))
    env['q0'] = VSym(ex.fresh('q0', Val))
    ex.ghost['__srvenv__'] = env
    c0 = ex.fresh('c0', Val)
    ex.ghost['cnt_track'] = [c0]
    env['c0'] = VSym(c0, hint=('abs', 'RCtx'))
    ex.assume(c0 == Val.v_abs(z3.IntVal(smt.cls_code('RCtx')), Val.vakey(c0)))        # c0 ranges over child handles
    F(ex, 'RCtx', VAbs('RCtx', Val.vakey(c0)), 'calls')       # the call counters exist from the start (C18.L2 compares them across an iteration)
    return self_v


OPTIONS = {
    '__call_hooks__': {'pyworkers.remote.recv_msg': worker_payload_hook, 'pyworkers.remote.send_msg': send_hook,
                       'pyworkers.remote.set_linger': lambda i, fi, a, k, n, s: NONE,
                       'pyworkers.remote.set_keepalive': lambda i, fi, a, k, n, s: NONE},
    'send_raises': {},
    'chan_elem_inv': {},
}


def install(ex):
    common.install(ex)
    ex.abs_classes['LSock'] = lsock_class()
    ex.abs_classes['RCtx'] = rctx_class()
    ex.ext_models['os.kill'] = os_kill
    ex.ext_models['itertools.chain'] = chain_model


def chain_model(ex, a, k):
    """itertools.chain(children_list, contexts.values()): a sequence R that starts with the list and continues with the dict's values.
    Coverage is made usable without quantifiers through Skolem constants fixed at set-up: p0 an arbitrary position of the list,
    q0 an arbitrary key of the dict; k1 / k2 are positions of R holding those two elements (they exist by the semantics of chain)."""
    I = ex.interp
    env = ex.ghost['__srvenv__']
    lst, view = a[0], a[1]
    if not (isinstance(lst, VRef) and isinstance(ex.heap[lst.addr], HSymList)):
        raise Undecided('itertools.chain over ' + repr(a))
    s = ex.heap[lst.addr].seq
    ctxs = ex.heap[ex.heap[env['self'].addr].attrs['contexts'].addr]
    if type(view).__name__ == 'VIterView' and view.kind == 'values':
        h = ex.heap[view.base.addr]
    elif isinstance(view, VRef) and isinstance(ex.heap[view.addr], HList) and not ex.heap[view.addr].items:
        h = HSymDict(z3.EmptySet(Val), ctxs.map)         # chaining with an empty sequence
    else:
        raise Undecided('itertools.chain over ' + repr(a))
    R = ex.fresh('chained', SeqVal)
    nvals = ex.fresh('n_values', smt.Int)
    ex.assume(nvals >= 0)
    ex.assume(z3.Length(R) == z3.Length(s) + nvals)
    p0, q0, k1, k2 = env['p0'].e, env['q0'].t, env['k1'].e, env['k2'].e
    ex.assume(z3.Implies(z3.And(p0 >= 0, p0 < z3.Length(s)), z3.And(k1 == p0, R[k1] == s[p0])))
    ex.assume(z3.Implies(z3.Select(h.dom, q0), z3.And(k2 >= z3.Length(s), k2 < z3.Length(R), R[k2] == z3.Select(h.map, q0), nvals >= 1)))
    # the arbitrary child handle c0, if it is in the list, sits at the arbitrary position p0 (both are Skolem constants: for any
    # position p take c0 := s[p])
    c0 = ex.ghost['cnt_track'][0]
    I.fact_part(c0, s)
    ex.assume(z3.Implies(cnt_f(c0, s) > 0, z3.And(p0 >= 0, p0 < z3.Length(s), s[p0] == c0)))
    ex.ghost['chain_children'] = s
    ex.ghost['chain_ctx_dom'] = ctxs.dom          # coverage is stated against the server's own table
    ex.ghost['chain_ctx_map'] = ctxs.map
    res = ex.alloc(HSymList(R))
    ex.heap[res.addr].elem_hint = ('abs', 'RCtx')
    return res


def child_registered_now(ex, env):
    a = ex.heap[env['self'].addr].attrs
    ch = a.get('children')
    if not isinstance(ch, VRef) or not isinstance(ex.heap[ch.addr], HSymList):
        return z3.BoolVal(False)
    c0 = ex.ghost['cnt_track'][0]
    seq = ex.heap[ch.addr].seq
    ex.interp.fact_part(c0, seq)
    return cnt_f(c0, seq) > 0


def signal_safe_point(interp, st, fr):
    """C12.L2/L4: the SIGTERM handler (which signals exactly the members of self.children) may run at any statement boundary of
    run(): a child that has been registered and has not had terminate() invoked on it yet must still be in self.children"""
    ex = interp.ex
    env = ex.ghost.get('__srvenv__')
    if env is None or fr.fi.qualname != RS + '.run':
        return
    c0 = ex.ghost['cnt_track'][0]
    now = child_registered_now(ex, env)
    term = F(ex, 'RCtx', VAbs('RCtx', Val.vakey(c0)), 'terminated')
    ex.oblige('at-all-points', z3.Implies(z3.And(ex.ghost['was_child'], z3.Not(term)), now),
              'a child registered in self.children stays there until terminate() has been invoked on it (the SIGTERM handler signals '
              'only the members of self.children and can run at any statement boundary)', st, key=('sigsafe', st.lineno))
    ex.ghost['was_child'] = z3.Or(ex.ghost['was_child'], now)


def was_child_inv(c):
    ex = c.ex
    env = ex.ghost['__srvenv__']
    c0 = ex.ghost['cnt_track'][0]
    term = F(ex, 'RCtx', VAbs('RCtx', Val.vakey(c0)), 'terminated')
    return z3.Implies(z3.And(ex.ghost['was_child'], z3.Not(term)), child_registered_now(ex, env))


was_child_inv.__doc__ = 'c0 was registered in self.children and terminate() was not yet invoked on it ==> it is still in self.children'
