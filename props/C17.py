"""C17 - restart() always yields a fresh, equivalent, live worker - or raises instead of abandoning a running child.

The real PersistentWorker.restart is executed symbolically for the three persistent kinds, INCLUDING the real constructor chain it re-runs
(Persistent<Kind>Worker.__init__ -> PersistentWorker.__init__ -> <Kind>Worker.__init__ -> Worker.__init__) and the real _get_restart_args
overrides.  Abstracted by contract: wait/terminate/is_alive of the old incarnation (truthful, C04), _get_result (any value, also non-None
while the child lives - see the doc-string of Worker._get_result), the kind's _start (C20: returns with a live child or raises) and
register_child (C19).

L1-<kind>  on EVERY exit: the handle to the old incarnation (__dict__) was cleared only after that incarnation had been observed dead
           (wait() returned True or is_alive() returned False)  - never abandons a running child; if it could not be stopped: RuntimeError
           and the object is untouched.
           normal return: same target / default args / kwargs / name / userid (/ host, context, main_path); results pipe = the caller's
           pipe if given, else one created by this call; the args pipe (thread, process) is created by this call - so neither queued inputs
           nor unread results of the previous incarnation are reachable from the new one; not closed; live (_dead is False).
L2         PersistentWorker._init_child starts the result counter of every incarnation at zero."""
import z3

from pyvc import smt
from pyvc.smt import Val, ValList, SeqVal
from pyvc.values import *  # noqa
from pyvc.contracts import Contract, Loop
from pyvc.core import PyRaise, Undecided
from . import common

ID = 'C17'
MIN_OBLIGATIONS = 30
PT = 'pyworkers.persistent_thread.PersistentThreadWorker'
PP = 'pyworkers.persistent_process.PersistentProcessWorker'
PR = 'pyworkers.persistent_remote.PersistentRemoteWorker'
PWK = 'pyworkers.persistent.PersistentWorker'
TRUSTED = ['terminate() of the old incarnation by its contract (C04, proved there); wait() and is_alive() are no longer trusted: their C04 lemmas are obligations here (Lw)',
           'C20: <Kind>Worker._start returns only with a live child carrying a new identity, or raises',
           'T4 a dead child writes nothing more: pipes created by this call are reachable only from the new incarnation',
           common.TEXT['chan']]
ASSUMPTIONS = [
    'restart() is called from the parent (is_child False), with timeout None or >= 0, on a worker that was run (run=True)',
    'RemoteWorker: main_path recorded at construction is not None (otherwise __init__ recomputes it from sys.modules, not modelled)',
    '"new identity" and "empty result stream" are consequences of L1 (fresh channels, dead old child) under T4, not separate obligations; the result counter of the remote parent side is the local variable of _fetch_results (C06)',
]
MUTANTS = [
    ('pyworkers/persistent.py', "            if self.is_alive():\n                raise RuntimeError(f'Could not stop a worker!')\n", "", 'restart abandons a child that could not be stopped'),
    ('pyworkers/persistent.py', "        ctor_args, ctor_kwargs = self._get_restart_args()\n        self.__dict__.clear()", "        self.__dict__.clear()\n        ctor_args, ctor_kwargs = [None], {}", 'restart forgets the constructor arguments'),
    ('pyworkers/persistent.py', "        ctor_args, ctor_kwargs = self._get_restart_args()\n        self.__dict__.clear()", "        ctor_args, ctor_kwargs = self._get_restart_args()\n        results_pipe = results_pipe or self._results_pipe\n        self.__dict__.clear()", 'restart reuses the old results pipe (unread results of the previous incarnation stay in the stream)'),
    ('pyworkers/worker.py', "'name': self._name, 'userid': self._userid,", "'name': self._name, 'userid': None,", 'userid lost on restart'),
    ('pyworkers/remote.py', "        kwargs.update({ 'host': self._target_host, 'context': self._context, 'main_path': self._main_path })", "        kwargs.update({ 'host': self._target_host, 'main_path': self._main_path })", 'remote restart loses the context'),
    ('pyworkers/persistent.py', "        super().__init__(target, **kwargs)\n        self._closed = False\n", "        super().__init__(target, **kwargs)\n", 'the closed flag is not reset by the constructor'),
    ('pyworkers/persistent.py', "    def _init_child(self):\n        self._counter = 0", "    def _init_child(self):\n        self._counter = getattr(self, '_counter', 0)", 'result counter carried over'),
]
EQ_ATTRS = ['_target', '_name', '_userid', '_set_names']


def raise_(cls):
    raise PyRaise(VExc(cls, []))


def build(ex):
    common.install(ex)
    repo = ex.repo
    lemmas = []

    def method_qual(ci, name):
        fi, owner = repo.lookup_method(ci, name)
        return fi.qualname

    def make(kind_cls, lid, remote=False, pipe_kind='Pipe'):
        ci = repo.cls(kind_cls)

        def setup(ex_, env):
            I = ex_.interp
            old_results, _ = common.make_pipe(ex_, 'old_results', pipe_kind)
            attrs = {'_target': I.sym('target'), '_args': I.sym('args0'), '_kwargs': I.sym('kwargs0'), '_name': I.sym('name'), '_userid': I.sym('userid'),
                     '_do_run': VBool(True), '_set_names': I.sym('set_names', 'bool'), '_user_state': I.sym('state'), '_results_pipe': old_results,
                     '_closed': I.sym('closed', 'bool'), '_dead': I.sym('dead', 'bool'), '_started': VBool(True), '_result': I.sym('result0'),
                     '_child': VAbs('Proc', ex_.fresh('old_child', Val)), '_cleaned_up': VBool(False)}
            if not remote:
                old_args, _ = common.make_pipe(ex_, 'old_args', pipe_kind)
                attrs['_args_pipe'] = old_args
            else:
                attrs.update(_target_host=I.sym('target_host'), _context=I.sym('context'), _main_path=I.sym('main_path'), _socket_closed=I.sym('sc', 'bool'))
                ex_.assume(attrs['_main_path'].t != Val.v_none)
            # the object was built by Worker.__init__, which accepted its target: None, False or a callable
            ic = ex_.ghost.setdefault('__callable_pred__', z3.Function('is_callable', Val, smt.Bool))
            tt = attrs['_target'].t
            ex_.assume(z3.Or(tt == Val.v_none, tt == Val.v_bool(z3.BoolVal(False)), ic(tt)))
            # C16 across a restart: `final_state` is the state the old child assigned last.  The thread and remote kinds have it in _user_state already (shared
            # object / front-end thread, C16.L4r); the process kind gets it only when _get_result() reads the child's final message (C16.L4b) - until then the
            # parent's copy is the stale construction-time value
            final_state = I.sym('final_state')
            ex_.ghost['final_state'] = final_state
            ex_.ghost['sync_by_get_result'] = (not remote and pipe_kind == 'Pipe')
            if not ex_.ghost['sync_by_get_result']:
                attrs['_user_state'] = final_state
            self_v = ex_.alloc(HObj(ci, attrs))
            env['self'] = self_v
            env['args'] = VTuple([])
            env['kwargs'] = ex_.alloc(HDict({}))
            env['timeout'] = I.sym('timeout')
            if ex_.choose(2, 'results_pipe given') == 0:
                env['results_pipe'] = NONE
            else:
                env['results_pipe'], _ = common.make_pipe(ex_, 'caller_pipe', 'Pipe')       # what Pool.restart_workers hands in
            ex_.ghost['old'] = {k: lower(v, ex_) for k, v in attrs.items() if k in EQ_ATTRS + ['_args', '_kwargs', '_target_host', '_context', '_main_path', '_user_state']}
            ex_.ghost['old_vals'] = dict(attrs)
            ex_.ghost['old_heap_size'] = max(ex_.heap) + 1
            ex_.ghost['alive'] = ex_.fresh('alive0', smt.Bool)       # the old child, as the OS sees it
            ex_.ghost['known_dead'] = z3.BoolVal(False)              # ... has been observed dead by this call
            ex_.ghost['cleared'] = z3.BoolVal(False)
            ex_.ghost['alive_at_clear'] = z3.BoolVal(False)
            ex_.ghost['started'] = z3.IntVal(0)
            ex_.ghost['__specenv__'] = env

            def wait(I2, fi, a, k, node, sc):
                r = ex_.fresh('wait_ret', smt.Bool)
                ex_.assume(z3.Implies(r, z3.Not(ex_.ghost['alive'])))          # truthful (C04)
                ex_.ghost['alive'] = z3.And(ex_.ghost['alive'], ex_.fresh('still_alive', smt.Bool))
                ex_.ghost['known_dead'] = z3.Or(ex_.ghost['known_dead'], r)
                return VBool(r)

            def terminate(I2, fi, a, k, node, sc):
                ex_.ghost['alive'] = z3.And(ex_.ghost['alive'], ex_.fresh('survives_terminate', smt.Bool))
                return VBool(ex_.fresh('term_ret', smt.Bool))

            def is_alive(I2, fi, a, k, node, sc):
                if ex_.ghost.get('in_new_incarnation'):
                    return VBool(True)
                now = ex_.ghost['alive']
                ex_.ghost['known_dead'] = z3.Or(ex_.ghost['known_dead'], z3.Not(now))
                return VBool(now)

            def get_result(I2, fi, a, k, node, sc):
                # any value: "a non-None result may be reported while the child is still alive" (Worker._get_result)
                if ex_.ghost['sync_by_get_result'] and isinstance(a[0], VRef) and '_user_state' in ex_.heap[a[0].addr].attrs:
                    # C16.L4b: on a dead process worker _get_result() takes the state over from the child's final message
                    ex_.heap[a[0].addr].attrs['_user_state'] = ex_.ghost['final_state']
                return VSym(ex_.fresh('final_result', Val))

            def start(I2, fi, a, k, node, sc):
                ex_.ghost['started'] = ex_.ghost['started'] + 1
                if ex_.choose(2, '_start:outcome') == 1:
                    ex_.note('_start raises')
                    raise_('RuntimeError')
                h = ex_.heap[a[0].addr]
                h.attrs['_child'] = VAbs('Proc', ex_.fresh('new_child', Val))
                h.attrs['_dead'] = VBool(False)
                for f in ('_pid', '_tid', '_ident') + (('_host',) if remote else ()):
                    h.attrs[f] = VSym(ex_.fresh('new' + f, Val))
                ex_.ghost['in_new_incarnation'] = True
                return NONE

            def on_clear(I2, ref):
                ex_.ghost['cleared'] = z3.BoolVal(True)
                ex_.ghost['alive_at_clear'] = z3.Not(ex_.ghost['known_dead'])
            ex_.ghost['__dict_clear__'] = on_clear
            hooks = {method_qual(ci, 'wait'): wait, method_qual(ci, 'terminate'): terminate, method_qual(ci, 'is_alive'): is_alive,
                     method_qual(ci, '_get_result'): get_result, method_qual(ci, '_start'): start,
                     method_qual(ci, 'is_child'): lambda I2, fi, a, k, node, sc: VBool(False),
                     'pyworkers.worker.Worker.register_child': lambda I2, fi, a, k, node, sc: NONE,
                     'pyworkers.utils.LocalPipe.__init__': local_pipe_init, 'pyworkers.utils.Pipe.__init__': pipe_init,
                     'pyworkers.remote.sanitize_target_host': lambda I2, fi, a, k, node, sc: a[0]}
            if remote:
                hooks[method_qual(ci, 'is_remote_side')] = lambda I2, fi, a, k, node, sc: VBool(False)
            ex_.ghost['__call_hooks__'] = hooks
            ex_.ghost['in_new_incarnation'] = False

        n = [0]

        def local_pipe_init(I2, fi, a, k, node, sc):
            n[0] += 1
            I2.ex.heap[a[0].addr].attrs['_q'] = common.new_chan(I2.ex, 'Queue', f'newlocal{n[0]}.q')
            return NONE

        def pipe_init(I2, fi, a, k, node, sc):
            n[0] += 1
            ex2 = I2.ex
            pe = repo.cls('pyworkers.utils.PipeEndpoint')
            e0 = ex2.alloc(HObj(pe, {'_pipe': common.new_chan(ex2, 'Conn', f'newpipe{n[0]}.parent')}))
            e1 = ex2.alloc(HObj(pe, {'_pipe': common.new_chan(ex2, 'Conn', f'newpipe{n[0]}.child')}))
            ex2.heap[a[0].addr].attrs['_endpoints'] = VTuple([e0, e1])
            return NONE

        def never_abandons(c):
            g = c.ex.ghost
            return z3.Implies(g['cleared'], z3.Not(g['alive_at_clear']))
        never_abandons.__doc__ = ('the handle to the old incarnation is dropped (__dict__.clear()) only after that incarnation was observed dead: wait() returned True or '
                                  'is_alive() returned False - whatever _get_result() says')

        def untouched_if_not_stopped(c):
            ex_ = c.ex
            g = ex_.ghost
            if not isinstance(c.env.get('raised'), VExc):
                return z3.BoolVal(True)
            h = ex_.heap[c.env['self'].addr]
            same = all(k in h.attrs and h.attrs[k] is v for k, v in g['old_vals'].items() if k not in ('_dead',))
            return z3.Or(g['cleared'], z3.BoolVal(same))
        untouched_if_not_stopped.__doc__ = 'if restart raises before the old handle was dropped (the child could not be stopped), the worker object is exactly as before'

        def attr_term(ex_, h, name):
            v = h.attrs.get(name)
            return None if v is None or type(v).__name__ in ('_Maybe', '_Absent') else v

        def equivalent(c):
            ex_ = c.ex
            h = ex_.heap[c.env['self'].addr]
            old = ex_.ghost['old']
            conj = []
            names = EQ_ATTRS + (['_target_host', '_context', '_main_path'] if remote else [])
            for nme in names:
                v = attr_term(ex_, h, nme)
                if v is None:
                    return z3.BoolVal(False)
                conj.append(lower(v, ex_) == old[nme])
            for nme, empty in (('_args', 'list'), ('_kwargs', 'dict')):
                v = attr_term(ex_, h, nme)
                if v is None:
                    return z3.BoolVal(False)
                ov = ex_.ghost['old_vals'][nme]
                if v is ov:
                    continue
                # `args or []`: a falsy default is replaced by a new empty container
                falsy = z3.Not(ex_.interp.truth(ov)) if isinstance(ex_.interp.truth(ov), z3.ExprRef) else z3.BoolVal(not ex_.interp.truth(ov))
                is_empty = isinstance(v, VRef) and ((isinstance(ex_.heap[v.addr], HList) and not ex_.heap[v.addr].items) or
                                                    (isinstance(ex_.heap[v.addr], HDict) and not ex_.heap[v.addr].items))
                conj.append(z3.Or(lower(v, ex_) == old[nme], z3.And(falsy, z3.BoolVal(bool(is_empty)))))
            return z3.And(*conj)
        equivalent.__doc__ = ('the new incarnation has the same target, name, userid, set_names' + (', host, context, main_path' if remote else '') +
                              ' and the same default args/kwargs (a falsy default becomes an empty container)')

        def fresh_channels(c):
            ex_ = c.ex
            h = ex_.heap[c.env['self'].addr]
            rp = attr_term(ex_, h, '_results_pipe')
            given = c.env['results_pipe']
            ok = isinstance(rp, VRef) and ((given is not NONE and rp.addr == given.addr) or (given is NONE and rp.addr >= ex_.ghost['old_heap_size']))
            if not remote:
                ap = attr_term(ex_, h, '_args_pipe')
                ok = ok and isinstance(ap, VRef) and ap.addr >= ex_.ghost['old_heap_size']
            return z3.BoolVal(bool(ok))
        fresh_channels.__doc__ = ('the results pipe of the new incarnation is the caller\'s pipe if one was given, else a pipe created by this call' +
                                  ('' if remote else '; its args pipe is created by this call') + ' (nothing queued or unread from the previous incarnation is reachable)')

        def state_passed_on(c):
            ex_ = c.ex
            h = ex_.heap[c.env['self'].addr]
            v = attr_term(ex_, h, '_user_state')
            if v is None:
                return z3.BoolVal(False)
            return lower(v, ex_) == lower(ex_.ghost['final_state'], ex_)
        state_passed_on.__doc__ = ('C16 across a restart: the new incarnation starts from the state the old child assigned LAST - for the process kind that state '
                                   'reaches the parent only through _get_result(), on every way the old incarnation was stopped (waited for, or terminated)')

        def live_and_open(c):
            ex_ = c.ex
            h = ex_.heap[c.env['self'].addr]
            cl, dd = attr_term(ex_, h, '_closed'), attr_term(ex_, h, '_dead')
            if cl is None or dd is None:
                return z3.BoolVal(False)
            t1, t2 = ex_.interp.truth(cl), ex_.interp.truth(dd)
            t1 = t1 if isinstance(t1, z3.ExprRef) else z3.BoolVal(bool(t1))
            t2 = t2 if isinstance(t2, z3.ExprRef) else z3.BoolVal(bool(t2))
            return z3.And(z3.Not(t1), z3.Not(t2), ex_.ghost['started'] == 1)
        live_and_open.__doc__ = 'exactly one new child was started, the worker is live (_dead False) and accepts input (_closed False)'

        return Contract(PWK + '.restart', lid=lid, name=f'C17.{lid} restart of a {kind_cls.rsplit(".", 1)[1]}: never abandons a running child; new incarnation equivalent, fresh, live',
                        params={'self': ('const', None), 'args': ('const', None), 'results_pipe': ('const', None), 'timeout': ('const', None), 'kwargs': ('const', None)},
                        self_class=kind_cls, setup=setup,
                        ensures=[equivalent, fresh_channels, live_and_open, state_passed_on],
                        all_exits=[never_abandons, untouched_if_not_stopped],
                        raises={'RuntimeError': None}, raises_only=['RuntimeError'],
                        options={'recv_closed_check': False, 'assert_mode': 'fork'})

    lemmas.append((make(PT, 'L1-thread', pipe_kind='LocalPipe'), None))
    lemmas.append((make(PP, 'L1-process'), None))
    lemmas.append((make(PR, 'L1-remote', remote=True, pipe_kind='LocalPipe'), None))

    # ------------------------------------------------------------------ L2
    def ic_setup(ex_, env):
        ci = repo.cls(PWK)
        env['self'] = ex_.alloc(HObj(ci, {'_counter': ex_.interp.sym('stale_counter', 'int'), '_stop': ex_.interp.sym('stale_stop', 'bool')}))
    lemmas.append((Contract(PWK + '._init_child', lid='L2', name='C17.L2 every incarnation starts its result counter at zero',
                            params={'self': ('const', None)}, self_class=PWK, setup=ic_setup,
                            ensures=['self._counter == 0', 'not self._stop'], raises={}, raises_only=[]), None))
    return lemmas + truthful_lemmas(ex)


def truthful_lemmas(ex):
    """Lw: L1 takes wait()/is_alive() of the old incarnation through their contract ("True only if the child is dead", C04) - that is what "never abandons a
    running child" rests on.  The wait/is_alive lemmas of the C04 cone are therefore obligations of this check too (as C02 does with C10's transport lemmas):
    a wait() that starts answering True for a child that still runs is a violation of C17, not only of C04."""
    from . import C04 as _c04
    saved = (dict(ex.abs_classes), dict(ex.ext_models), dict(ex.spec_functions), dict(ex.call_hooks), dict(ex.contracts), set(ex.use_contract))
    built = _c04.build(ex)
    tables = (ex.abs_classes, ex.ext_models, ex.spec_functions, ex.call_hooks, ex.contracts)
    c04_env = tuple(dict(t) for t in tables) + (set(ex.use_contract),)
    for tgt, sv in zip(tables, saved[:5]):
        tgt.clear()
        tgt.update(sv)
    ex.use_contract.clear()
    ex.use_contract.update(saved[5])

    def use_c04_env(ex_):
        # the two cones model the same primitives differently (cost-aware child handle in C04): a C04 lemma is verified with C04's tables
        for tgt, sv in zip((ex_.abs_classes, ex_.ext_models, ex_.spec_functions, ex_.call_hooks, ex_.contracts), c04_env[:5]):
            tgt.clear()
            tgt.update(sv)
        ex_.use_contract.clear()
        ex_.use_contract.update(c04_env[5])
    out = []
    for con, v in built:
        if con.lid.startswith('Lw') or con.lid.startswith('La'):
            con.name = 'C17.Lw[' + con.name + ']'
            con.lid = 'Lw.' + con.lid
            con.pre_verify = use_c04_env
            out.append((con, v))
    return out


def replay(ob, repo):
    from pyvc.native import run_script
    if 'C17.Lw[' in ob.get('lemma', ''):
        from . import C04 as _c04
        return _c04.replay(dict(ob, lemma=ob['lemma'].split('C17.Lw[', 1)[1]), repo)
    r = run_script('c17_native.py', {'lemma': ob['lemma'].split(' ')[0].split('.')[-1]}, repo, timeout=200)
    return bool(r.get('violates')), r


def replay_file(path, repo):
    import json
    from pyvc.native import run_script
    r = run_script('c17_native.py', {}, repo, timeout=200)
    print(json.dumps(r, indent=1, default=str))
    if r.get('violates'):
        print(f'VIOLATION property=C17 replay={path}')
        return 1
    return 0
