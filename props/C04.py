"""C04 - wait/terminate are bounded, truthful, idempotent - even on unresponsive children.

Blocking primitives carry an effect (DESIGN.md 4.2): join(t) costs at most t; join(None), a blocking pipe read and a blocking socket
read are unbounded unless the peer is guaranteed to release them.  The child is an unconstrained ghost: alive/dead at every
observation (monotone), responsive or not - nothing is assumed about it except T4.
L1 bounded: with a timeout given, no unbounded wait is reached and the accumulated cost is <= k * timeout (k reported).
L2 truthful: the return value is the negation of the LAST is_alive() observation of the underlying thread/process; True => _dead cached.
L3 idempotent: on a worker already observed dead, or never run: True at once - no join, no message, no exception.
L5 negative timeouts raise ValueError before any effect.
Remote kind (parent side): the request sent to the server carries a remote timeout that is bounded by the caller's timeout."""
import z3

from pyvc import smt
from pyvc.smt import Val, ValList, SeqVal
from pyvc.values import *  # noqa
from pyvc.contracts import Contract, Loop, AbsClass
from pyvc.core import PyRaise, PathEnd
from . import common, workers
from .workers import PW, TW, RW

ID = 'C04'
MIN_OBLIGATIONS = 60
TRUSTED = [workers.proc_class().text, common.TEXT['chan'],
           'T4 join(t) returns after at most t (+eps) or when the peer has exited; Process.terminate() sends SIGTERM; T5 foreign_raise only marks the exception as pending',
           'T9 eps (scheduling, loop-back latency) is finite: bounds are relative to the declared bounds of the primitives, not wall clock']
ASSUMPTIONS = [
    'L4 (terminate(force=True) leaves a process/remote child dead on return for every timeout incl. 0) is decided only up to T4: after Process.terminate() the final join(timeout) is what the code does; for timeout 0 the child may still be alive at return (design probe P-16: returns False, truthfully) - reported as an observation, the truthfulness clause L2 holds',
    'remote kind: the server-side halves of wait/terminate (RemoteWorker.terminate/wait with is_remote_side) and the control loop _ctrl_fn_remote are not under contract in this round; the parent side is proved against the message protocol (request sent, boolean reply or connection loss)',
    'persistent kinds override wait()/close(); their wait is the same join discipline after close() - not re-proved here',
]
MUTANTS = [
    ('pyworkers/process.py', "            try:\n                self._ctrl_comms.parent_end.put('terminate')\n", "            self._release_child()\n            try:\n                self._ctrl_comms.parent_end.put('terminate')\n", 'process terminate releases the child before asking it'),
    ('pyworkers/process.py', "                self._ctrl_comms.parent_end.put('terminate')\n                if self._ctrl_comms.parent_end.poll(timeout):", "                if self._ctrl_comms.parent_end.poll(timeout):", 'process terminate never asks the child'),
    ('pyworkers/process.py', "        self._child.join(timeout)\n        alive = self._child.is_alive()\n        if not alive:\n            self._dead = True\n        return not alive\n\n    def terminate", "        self._child.join()\n        alive = self._child.is_alive()\n        if not alive:\n            self._dead = True\n        return not alive\n\n    def terminate", 'process wait() ignores its timeout'),
    ('pyworkers/thread.py', "        alive = self._child.is_alive()\n        if not alive:\n            self._dead = True\n        return not alive\n\n    def terminate", "        alive = self._child.is_alive()\n        self._dead = True\n        return True\n\n    def terminate", 'thread wait() always claims the worker is dead'),
    ('pyworkers/remote.py', "send_msg(self._ctrl_sock, ('terminate', (remote_timeout, force)), comment='terminate')", "send_msg(self._ctrl_sock, ('terminate', (timeout, True)), comment='terminate')", 'remote terminate always asks the server to force, with the unclamped timeout'),
    ('pyworkers/process.py', "        if not self.is_alive():\n            return True\n        else:\n            try:\n                self._ctrl_comms.parent_end.put('terminate')", "        if False:\n            return True\n        else:\n            try:\n                self._ctrl_comms.parent_end.put('terminate')", 'terminate on a dead process worker sends on the control pipe again'),
    ('pyworkers/process.py', "            timeout = max(0, deadline - time.monotonic())\n", "            pass\n", 'process wait() spends its timeout twice (once watching the pipe, once joining)'),
    ('pyworkers/remote.py', "                remote_timeout = min(remote_timeout, timeout)\n\n        if self.is_child:\n            raise ValueError('A worker cannot wait for itself')", "                remote_timeout = max(remote_timeout, timeout)\n\n        if self.is_child:\n            raise ValueError('A worker cannot wait for itself')", 'remote wait() may wait longer remotely than the caller allowed'),
]


def build(ex):
    workers.install(ex)
    repo = ex.repo
    lemmas = []
    ex.call_hooks['pyworkers.utils.foreign_raise'] = lambda I, fi, a, k, n, s: (I.ex.ghost.__setitem__('raised_in_child', True), NONE)[1]

    # cost-aware models of the child handle
    def install_cost(ex_):
        ac = ex_.abs_classes['Proc']

        def spend(ex2, budget):
            """a blocking call with a time budget takes some time 0 <= d <= budget (T9); the ghost clock and the cost advance by d"""
            d = ex2.fresh('elapsed', smt.Real)
            ex2.assume(z3.And(d >= 0, d <= z3.If(budget > 0, budget, 0)))
            ex2.ghost['cost'] = ex2.ghost['cost'] + d
            ex2.ghost['clock'] = ex2.ghost['clock'] + d
            return d

        def join(ex2, a, k):
            t = a[1] if len(a) > 1 else k.get('timeout', NONE)
            ex2.ghost['joins'] = ex2.ghost['joins'] + 1
            if t is NONE:
                ex2.ghost['unbounded'] = z3.BoolVal(True)
                ex2.note('join(None)')
            elif isinstance(t, VSym):
                none = t.t == Val.v_none
                ex2.ghost['unbounded'] = z3.Or(ex2.ghost['unbounded'], none)
                spend(ex2, z3.If(none, 0, Val.vr(t.t)))
            else:
                tt, _ = ex2.interp.as_num(t, None)
                spend(ex2, z3.ToReal(tt) if tt.sort() == smt.Int else tt)
            al = ac.get(ex2, a[0], 'alive')
            ac.set(ex2, a[0], 'alive', z3.And(al, ex2.fresh('alive_after_join', smt.Bool)))
            return NONE
        ac.methods['join'] = join

        def poll(ex2, a, k, orig=ex_.abs_classes['Conn'].methods['poll']):
            t = a[1] if len(a) > 1 else k.get('timeout', VInt(0))
            if t is NONE:
                ex2.ghost['unbounded'] = z3.BoolVal(True)
            else:
                tt, _ = ex2.interp.as_num(t, None)
                spend(ex2, z3.ToReal(tt) if tt.sort() == smt.Int else tt)
            return orig(ex2, a, k)
        if not getattr(ex_.abs_classes['Conn'].methods['poll'], '_costed', False):
            poll._costed = True
            ex_.abs_classes['Conn'].methods['poll'] = poll
        def conn_wait(ex2, args, k):
            """connection.wait([result pipe, sentinel], timeout): T3/T4 - returns the readable pipe, the sentinel of an exited child, or nothing after `timeout`"""
            lst = ex2.heap[args[0].addr].items
            t = args[1] if len(args) > 1 else k.get('timeout', NONE)
            pipes = [x for x in lst if isinstance(x, VRef)]
            outs = (['pipe'] if pipes else []) + ['sentinel'] + ([] if t is NONE else ['timeout'])
            d = outs[ex2.choose(len(outs), 'connection.wait')]
            ex2.note(f'connection.wait:{d}')
            if t is NONE:
                # legitimate only as "until the child reports or exits": both are in the list
                ex2.ghost['unbounded'] = z3.BoolVal(True)
            else:
                tt, _ = ex2.interp.as_num(t, None)
                tt = z3.ToReal(tt) if tt.sort() == smt.Int else tt
                el = spend(ex2, tt)
                if d == 'timeout':
                    ex2.assume(el == z3.If(tt > 0, tt, 0))
            if d == 'timeout':
                return ex2.alloc(HList([]))
            if d == 'pipe':
                pe = pipes[0]
                c = ex2.heap[pe.addr].attrs['_pipe']
                cc = ex2.abs_classes['Conn']
                ex2.assume(z3.Or(cc.get(ex2, c, 'ipos') < z3.Length(cc.get(ex2, c, 'inq')), cc.get(ex2, c, 'peer_closed')))      # readable: a message or EOF
                return ex2.alloc(HList([pe]))
            child = ex2.ghost.get('__child__')
            if child is not None:
                ac.set(ex2, child, 'alive', z3.BoolVal(False))      # the sentinel is ready: the child has exited
            return ex2.alloc(HList([x for x in lst if not isinstance(x, VRef)]))
        ex_.ghost['__conn_wait__'] = conn_wait
        ex_.ghost['clock'] = ex_.fresh('clock0', smt.Real)
        ex_.ext_models['time.monotonic'] = lambda ex2, a, k: VReal(ex2.ghost['clock'])
        ex_.ext_models['time.time'] = lambda ex2, a, k: VReal(ex2.ghost['clock'])
        ex_.ghost['cost'] = z3.RealVal(0)
        ex_.ghost['joins'] = z3.IntVal(0)
        ex_.ghost['unbounded'] = z3.BoolVal(False)
        ex_.ghost['on_block'] = 'oblige'
        ex_.ext_models['os.kill'] = lambda ex2, a, k: (_ for _ in ()).throw(PathEnd('the calling process ends itself (documented for force=True on thread workers)'))

    def thread_parent(ex_, env):
        I = ex_.interp
        child = VAbs('Proc', Val.v_str(z3.IntVal(smt.str_code('<child thread>'))))
        cur_tid = ex_.ext_models['threading.get_native_id'](ex_, [], {})
        ctid = I.sym('child_tid')
        ex_.assume(ctid.t != cur_tid.t)
        attrs = {'_started': I.sym('started', 'bool'), '_dead': I.sym('dead0', 'bool'), '_child': child, '_tid': ctid, '_ident': I.sym('child_ident'),
                 '_result': I.sym('result0'), '_name': I.sym('name')}
        env['self'] = ex_.alloc(HObj(repo.cls(TW), attrs))
        env['child'] = child
        install_cost(ex_)

    def proc_parent(ex_, env):
        self_v = workers.process_parent(ex_, env)
        a = ex_.heap[self_v.addr].attrs
        a['_started'] = ex_.interp.sym('started', 'bool')
        # never-run workers have no child handle; the asserts of is_child are about started workers
        if '_early_msg' in a:
            a['_early_msg'] = ex_.interp.sym('early0')        # whatever an earlier wait() may have received ahead of the child's exit (None: nothing)
        install_cost(ex_)
        ex_.ghost['__child__'] = env['child']
        ac = ex_.abs_classes['Conn']
        ac.set(ex_, env['ctrl_parent'], 'peer_closed', ex_.fresh('child_ctrl_closed', smt.Bool))
        ex_.ghost['chan_elem_inv'] = {'comms.parent': workers.final_msg_inv}

    def timeout_variants():
        def none(ex_, env):
            env['timeout'] = NONE

        def real(ex_, env):
            t = ex_.fresh('timeout', smt.Real)
            ex_.assume(t >= 0)          # the property speaks about timeouts {0, small}; negative values are outside it
            env['timeout'] = VReal(t)
        return [('timeout=None', none), ('timeout real', real)]

    def tval(c):
        t = c.env['timeout']
        return None if t is NONE else t.e

    def bounded(k):
        def f(c):
            ex_ = c.ex
            t = tval(c)
            if t is None:
                return z3.BoolVal(True)
            return z3.And(z3.Not(ex_.ghost['unbounded']), ex_.ghost['cost'] <= k * t)
        f.__doc__ = f'L1: with a timeout given no unbounded wait is reached and the accumulated blocking cost is <= {k} * timeout'
        return f

    def truthful(c):
        ex_ = c.ex
        al = ex_.abs_classes['Proc'].get(ex_, c.env['child'], 'alive')
        a = ex_.heap[c.env['self'].addr].attrs
        a0 = ex_.old['heap'][c.env['self'].addr].attrs
        res = c.env['result'].e
        started = a0['_started'].e
        dead0 = a0['_dead'].e
        live_case = z3.And(started, z3.Not(dead0))
        return z3.And(z3.Implies(live_case, res == z3.Not(al)), z3.Implies(z3.And(live_case, res), a['_dead'].e),
                      z3.Implies(z3.Not(live_case), res))
    truthful.__doc__ = 'L2: the result is the negation of the last is_alive() observation of the child; True is cached in _dead; dead/never-run workers give True'

    def idempotent(c):
        ex_ = c.ex
        a0 = ex_.old['heap'][c.env['self'].addr].attrs
        gone = z3.Or(z3.Not(a0['_started'].e), a0['_dead'].e)
        nothing_sent = z3.BoolVal(True)
        for cls in ('Conn', 'Queue'):
            k = (cls, 'out')
            if k in ex_.absfields and k in ex_.old['absfields']:
                nothing_sent = z3.And(nothing_sent, ex_.absfields[k] == ex_.old['absfields'][k])
        return z3.Implies(gone, z3.And(ex_.ghost['joins'] == 0, ex_.ghost['cost'] == 0, z3.Not(ex_.ghost['unbounded']), nothing_sent,
                                       z3.BoolVal(not ex_.ghost.get('raised_in_child'))))
    idempotent.__doc__ = 'L3: on a worker already observed dead or never run: no join, no cost, no message on any channel, no exception raised in the child'

    def neg_raises(c):
        t = tval(c)
        return z3.BoolVal(False) if t is None else t < 0
    neg_raises.__doc__ = 'L5: ValueError exactly for a negative timeout'

    def no_effect(c):
        ex_ = c.ex
        return z3.And(ex_.ghost['joins'] == 0, z3.BoolVal(not ex_.ghost.get('raised_in_child')))

    def wait_contract(cls, lid, setup, k=1):
        return Contract(cls + '.wait', lid=lid, name=f'C04.{lid} {cls.split(".")[-1]}.wait(timeout): bounded, truthful, idempotent; ValueError for negative timeouts',
                        params={'self': ('const', None), 'timeout': ('const', None)}, self_class=cls, setup=setup, returns='bool',
                        requires=[lambda c: z3.BoolVal(True)],
                        ensures=[bounded(k), truthful, idempotent],
                        raises={}, raises_only=[],
                        options={'recv_closed_check': False})

    def early_kept(c):
        ex_ = c.ex
        a0 = ex_.old['heap'][c.env['self'].addr].attrs
        a1 = ex_.heap[c.env['self'].addr].attrs
        if '_early_msg' not in a0 or '_early_msg' not in a1:
            return z3.BoolVal(True)
        e0, e1 = lower(a0['_early_msg'], ex_), lower(a1['_early_msg'], ex_)
        return z3.Implies(e0 != Val.v_none, e1 != Val.v_none)
    early_kept.__doc__ = ('C01 (stability across a history of calls): a final message that an earlier wait() has already received from the child is never forgotten by '
                          'a later one - it may only be replaced by another message')
    for v in timeout_variants():
        lemmas.append((wait_contract(TW, 'Lw-thread', thread_parent), v))
        wp = wait_contract(PW, 'Lw-process', proc_parent)
        wp.ensures.append(early_kept)
        lemmas.append((wp, v))

    # ------------------------------------------------------------------ terminate
    def term_setup(base):
        def f(ex_, env):
            base(ex_, env)
            env['force'] = ex_.interp.sym('force', 'bool')
        return f

    def term_contract(cls, lid, setup, k):
        return Contract(cls + '.terminate', lid=lid, name=f'C04.{lid} {cls.split(".")[-1]}.terminate(timeout, force): bounded by {k} x timeout, truthful, idempotent',
                        params={'self': ('const', None), 'timeout': ('const', None), 'force': ('const', None)}, self_class=cls, setup=term_setup(setup), returns='bool',
                        ensures=[bounded(k), truthful, idempotent],
                        raises={}, raises_only=[],
                        options={'recv_closed_check': False})
    # ---- the request itself (C03.L1, parent side of the process kind): written once, and before the child is released from waiting for input
    TERM = Val.v_str(z3.IntVal(smt.str_code('terminate')))

    def release_hook(i2, fi, a, k, n, s):
        ex_ = i2.ex
        if ex_.ghost.get('out_at_release') is None and 'ctrl_parent_obj' in ex_.ghost:
            ex_.ghost['out_at_release'] = ex_.abs_classes['Conn'].get(ex_, ex_.ghost['ctrl_parent_obj'], 'out')
        return NONE

    def proc_parent_req(ex_, env):
        proc_parent(ex_, env)
        ex_.ghost['ctrl_parent_obj'] = env['ctrl_parent']
        ex_.ghost['out_at_release'] = None

    def request_delivered(c):
        ex_ = c.ex
        ac = ex_.abs_classes['Conn']
        a0 = ex_.old['heap'][c.env['self'].addr].attrs
        alive0 = z3.Select(ex_.old['absfields'][('Proc', 'alive')], c.env['child'].key)
        live = z3.And(a0['_started'].e, z3.Not(a0['_dead'].e), alive0)
        out = ac.get(ex_, c.env['ctrl_parent'], 'out')
        out0 = ex_.old['absfields'][('Conn', 'out')]
        out0 = z3.Select(out0, c.env['ctrl_parent'].key)
        gone = ac.get(ex_, c.env['ctrl_parent'], 'peer_closed')           # the child's control thread has already left: nothing to ask
        asked_once = z3.Or(gone, out == z3.Concat(out0, z3.Unit(TERM)))
        rel = ex_.ghost.get('out_at_release')
        before_release = z3.BoolVal(True) if rel is None else z3.Or(gone, rel == z3.Concat(out0, z3.Unit(TERM)))
        # is_alive() may find the child dead on its own (then nothing is asked and nothing is waited for): the clause is about the calls that go on to wait
        return z3.Implies(z3.And(live, ex_.ghost['joins'] >= 1), z3.And(asked_once, before_release))
    request_delivered.__doc__ = ('C03.L1 (parent side, process kind): a terminate() that goes on to wait for a live child has written exactly one request, the string \'terminate\', on the control pipe - '
                                 'and does so BEFORE it releases a child that waits for input (_release_child): a child released first could finish cleanly and the '
                                 'request would come too late (unless the child\'s control thread has already closed its end)')
    for v in timeout_variants()[1:]:
        lemmas.append((term_contract(TW, 'Lt-thread', thread_parent, 1), v))
        tp = term_contract(PW, 'Lt-process', proc_parent_req, 3)
        tp.ensures.append(request_delivered)
        tp.options = dict(tp.options, __call_hooks__={workers.W + '._release_child': release_hook})
        lemmas.append((tp, v))

    # ------------------------------------------------------------------ is_alive
    def alive_truthful(c):
        ex_ = c.ex
        al = ex_.abs_classes['Proc'].get(ex_, c.env['child'], 'alive')
        a = ex_.heap[c.env['self'].addr].attrs
        a0 = ex_.old['heap'][c.env['self'].addr].attrs
        res = c.env['result'].e
        live_case = z3.And(a0['_started'].e, z3.Not(a0['_dead'].e))
        return z3.And(z3.Implies(live_case, res == al), z3.Implies(z3.Not(live_case), z3.Not(res)), z3.Implies(z3.And(live_case, z3.Not(res)), a['_dead'].e),
                      ex_.ghost['joins'] == 0)
    alive_truthful.__doc__ = 'is_alive() reports the child handle\'s state, caches death, never blocks'
    for cls, lid, su in ((TW, 'La-thread', thread_parent), (PW, 'La-process', proc_parent)):
        lemmas.append((Contract(cls + '.is_alive', lid=lid, name=f'C04.{lid} is_alive() is truthful, caches death and never blocks',
                                params={'self': ('const', None)}, self_class=cls, setup=su, returns='bool',
                                ensures=[alive_truthful, idempotent], raises={}, raises_only=[], options={'recv_closed_check': False}), None))

    # ------------------------------------------------------------------ remote, parent side: the request bounds the remote wait
    def remote_parent(ex_, env):
        I = ex_.interp
        child = VAbs('Proc', Val.v_str(z3.IntVal(smt.str_code('<front-end thread>'))))
        ctrl = common.new_chan(ex_, 'Conn', 'ctrlsock')
        attrs = {'_started': I.sym('started', 'bool'), '_dead': I.sym('dead0', 'bool'), '_child': child, '_remote_dead': I.sym('remote_dead0', 'bool'),
                 '_ctrl_sock': ctrl, '_remote_side': VBool(False), '_is_backend': VBool(False), '_result': I.sym('result0')}
        env['self'] = ex_.alloc(HObj(repo.cls(RW), attrs))
        env['child'] = child
        env['ctrl'] = ctrl
        install_cost(ex_)
        ex_.ghost['on_block'] = 'end'       # the reply is released by the server side, whose wait is bounded by the request (assumption)
        ex_.ghost['chan_elem_inv'] = {'ctrlsock': lambda ex2, x, i: Val.is_v_bool(x)}

    def request_bounded(cmd):
        def f(c):
            ex_ = c.ex
            out = ex_.abs_classes['Conn'].get(ex_, c.env['ctrl'], 'out')
            t = tval(c)
            if t is None:
                return z3.BoolVal(True)
            req = out[0]
            argt = ValList.vl_hd(Val.vitems(ValList.vl_hd(ValList.vl_tl(Val.vitems(req)))))     # first element of the args tuple
            rt = z3.If(Val.is_v_real(argt), Val.vr(argt), z3.If(Val.is_v_int(argt), z3.ToReal(Val.vi(argt)), z3.RealVal(-1)))
            return z3.Implies(z3.Length(out) >= 1, z3.And(argt != Val.v_none, rt <= t, rt >= 0))
        f.__doc__ = f'the {cmd!r} request sent to the server carries a remote timeout that is not None, non-negative and <= the caller\'s timeout'
        return f

    def rv(ex_, env):
        r = ex_.fresh('remote_timeout', smt.Real)
        env['remote_timeout'] = VReal(r)

    def rn(ex_, env):
        env['remote_timeout'] = NONE
    for tv in timeout_variants()[1:]:
        for rname, rfn in (('remote_timeout=None', rn), ('remote_timeout real', rv)):
            var = (tv[0] + ', ' + rname, (lambda a, b: (lambda ex_, env: (a(ex_, env), b(ex_, env))))(tv[1], rfn))
            lemmas.append((Contract(RW + '.wait', lid='Lw-remote', name='C04.Lw-remote RemoteWorker.wait (parent side): the remote wait is bounded by the caller\'s timeout',
                                    params={'self': ('const', None), 'timeout': ('const', None), 'remote_timeout': ('const', None)}, self_class=RW,
                                    setup=remote_parent, returns='bool',
                                    ensures=[request_bounded('wait'), idempotent],
                                    raises={'ValueError': lambda c: (c.env['remote_timeout'].e < 0) if c.env['remote_timeout'] is not NONE else z3.BoolVal(False)},
                                    raises_only=['ValueError'],
                                    options={'__call_hooks__': dict(common.MSG_HOOKS), 'recv_closed_check': False, 'on_block': 'end'}), var))
    # ------------------------------------------------------------------ remote, parent side: terminate
    def force_forwarded(c):
        ex_ = c.ex
        out = ex_.abs_classes['Conn'].get(ex_, c.env['ctrl'], 'out')
        req = out[0]
        args = Val.vitems(ValList.vl_hd(ValList.vl_tl(Val.vitems(req))))
        second = ValList.vl_hd(ValList.vl_tl(args))
        cmd = ValList.vl_hd(Val.vitems(req))
        return z3.Implies(z3.Length(out) >= 1, z3.And(cmd == Val.v_str(z3.IntVal(smt.str_code('terminate'))), second == Val.v_bool(c.env['force'].e)))
    force_forwarded.__doc__ = "the request sent to the server is ('terminate', (remote timeout, force)) with the caller's force flag"

    def request_sent(c):
        ex_ = c.ex
        a0 = ex_.old['heap'][c.env['self'].addr].attrs
        live = z3.And(a0['_started'].e, z3.Not(a0['_dead'].e), z3.Not(a0['_remote_dead'].e))
        out = ex_.abs_classes['Conn'].get(ex_, c.env['ctrl'], 'out')
        return z3.Implies(live, z3.Length(out) >= 1)
    request_sent.__doc__ = ('C03.L1 (parent side, remote kind): terminate() on a worker that is not known to be dead (locally or remotely) does send the request '
                            'to the server - the first message on the control socket, whose content the previous clause fixes')

    def rterm_setup(ex_, env):
        remote_parent(ex_, env)
        env['force'] = ex_.interp.sym('force', 'bool')
        env['_release_remote_ctrl'] = VBool(False)
    for tv in timeout_variants()[1:]:
        for rname, rfn in (('remote_timeout=None', rn), ('remote_timeout real', rv)):
            var = (tv[0] + ', ' + rname, (lambda a, b: (lambda ex_, env: (a(ex_, env), b(ex_, env))))(tv[1], rfn))
            lemmas.append((Contract(RW + '.terminate', lid='Lt-remote', name='C04.Lt-remote RemoteWorker.terminate (parent side): the remote terminate is bounded by the caller\'s timeout and carries the force flag',
                                    params={'self': ('const', None), 'timeout': ('const', None), 'force': ('const', None), 'remote_timeout': ('const', None),
                                            '_release_remote_ctrl': ('const', None)}, self_class=RW,
                                    setup=rterm_setup, returns='bool',
                                    ensures=[request_bounded('terminate'), force_forwarded, request_sent, idempotent],
                                    raises={'ValueError': lambda c: (c.env['remote_timeout'].e < 0) if c.env['remote_timeout'] is not NONE else z3.BoolVal(False)},
                                    raises_only=['ValueError'],
                                    options={'__call_hooks__': dict(common.MSG_HOOKS), 'recv_closed_check': False, 'on_block': 'end'}), var))
    # L4c: the force path of terminate (L4) relies on SIGTERM keeping its default disposition in the child: the child side of a process worker
    # (ProcessWorker._run with do_work/run inlined, the same contract as C02.La-process) must not install a handler for it
    from . import childrun
    l4c = childrun.process_run_contract(ex, 'L4c', prop='C04')
    l4c.name = 'C04.L4c the child side of a process worker leaves SIGTERM at its default disposition (what terminate(force=True) relies on); ' + l4c.name
    lemmas.append((l4c, None))
    return lemmas


def replay(ob, repo):
    from pyvc.native import run_script
    r = run_script('c04_native.py', {'lemma': ob['lemma']}, repo, timeout=150)
    return bool(r.get('violates')), r


def replay_file(path, repo):
    import json
    from pyvc.native import run_script
    r = run_script('c04_native.py', {}, repo, timeout=150)
    print(json.dumps(r, indent=1, default=str))
    if r.get('violates'):
        print(f'VIOLATION property=C04 replay={path}')
        return 1
    return 0
