"""Shared sidecar pieces: channel models (T3), opaque user calls (T7), worker object builders.

Channels are time-abstract: the ghost field `inq` of a reading endpoint is the whole sequence of messages that
will ever be delivered to it (fixed, arbitrary, constrained only by the channel invariant of DESIGN.md appendix B
that the property's lemma assumes); `ipos` is how many the code has taken.  A blocking read with nothing left and
an open peer blocks for ever (the path ends there, or an obligation is raised when the lemma is about hanging);
with a closed peer it reports EOF.  A writing endpoint appends to its ghost `out`.
"""
import z3

from pyvc import smt, extlib
from pyvc.smt import Val, ValList, SeqVal
from pyvc.values import *  # noqa
from pyvc.contracts import AbsClass, Contract
from pyvc.core import PyRaise, PathEnd, Undecided, Vanish

apply_f = z3.Function('apply', Val, SeqVal, Val, Val)           # value returned by target(*args, **kwargs)
dict_update_f = z3.Function('dict_update', Val, Val, Val)       # d.update(e) as a mathematical function
EMPTY_DICT = Val.v_str(z3.IntVal(smt.str_code('<empty dict>')))

PyRaise = PyRaise

TEXT = {
    'chan': 'T3 pipes/queues: FIFO of whole messages; recv on an exhausted channel blocks while the peer is open and raises '
            'EOFError once it is closed; get_nowait/poll are non-blocking; send appends (may raise BrokenPipeError/OSError when '
            'the peer is gone, if the lemma enables that outcome)',
    'target': 'T7 the user target is a function of its arguments: apply(target, args, kwargs); it may raise',
}


def raise_(cls, *args):
    raise PyRaise(VExc(cls, list(args)))


def _blocked(ex, what):
    mode = ex.ghost.get('on_block', 'end')
    if mode == 'oblige':
        ex.oblige('block', z3.BoolVal(False), f'{what} cannot block for ever', ex.ghost.get('__cur_node__'), key=('block', what))
    ex.note(f'blocked:{what}')
    raise PathEnd('blocked for ever: ' + what)


def chan_class(name):
    """name in ('Conn', 'Queue')"""
    def F(ex, obj, f):
        return ex.abs_classes[name].get(ex, obj, f)

    def S(ex, obj, f, v):
        ex.abs_classes[name].set(ex, obj, f, v)

    def take(ex, c, what):
        inq, ipos = F(ex, c, 'inq'), F(ex, c, 'ipos')
        x = inq[ipos]
        S(ex, c, 'ipos', ipos + 1)
        inv = ex.ghost.get('chan_elem_inv', {}).get(what)
        v = VSym(x)
        if inv is not None:
            ex.assume(inv(ex, x, ipos))
        return v

    def recv(ex, a, k):
        c = a[0]
        inq, ipos = F(ex, c, 'inq'), F(ex, c, 'ipos')
        tag = chan_tag(ex, c)
        if ex.ghost.get('recv_closed_check', True) and name == 'Conn':
            if not ex.branch(F(ex, c, 'open'), f'{tag}:open'):
                raise_('OSError', 'handle is closed')
        if ex.branch(ipos < z3.Length(inq), f'{tag}:avail'):
            outs = ex.ghost.get('recv_raises', {}).get(tag, [])
            if outs:
                d = ex.choose(1 + len(outs), f'{tag}:recv-outcome')
                if d > 0:
                    S(ex, c, 'ipos', ipos + 1)
                    ex.note(f'{tag}:recv raises {outs[d - 1]}')
                    raise_(outs[d - 1])
            return take(ex, c, tag)
        if name == 'Conn':
            if ex.branch(F(ex, c, 'peer_closed'), f'{tag}:peer-closed'):
                raise_('EOFError')
        _blocked(ex, f'{name}.recv on {tag}')

    def get(ex, a, k):
        # queue.Queue.get(block=True, timeout=None)
        c = a[0]
        block = a[1] if len(a) > 1 else k.get('block', VBool(True))
        if not ex.interp.cond(block, 'get:block'):
            return get_nowait(ex, [c], {})
        return recv(ex, [c], {})

    def get_nowait(ex, a, k):
        c = a[0]
        inq, ipos = F(ex, c, 'inq'), F(ex, c, 'ipos')
        tag = chan_tag(ex, c)
        ready = ex.fresh('ready', smt.Bool)
        ex.assume(z3.Implies(ready, ipos < z3.Length(inq)))
        if ex.branch(ready, f'{tag}:ready'):
            return take(ex, c, tag)
        raise_('queue.Empty')

    def poll(ex, a, k):
        c = a[0]
        inq, ipos = F(ex, c, 'inq'), F(ex, c, 'ipos')
        tag = chan_tag(ex, c)
        if ex.ghost.get('recv_closed_check', True) and name == 'Conn':
            if not ex.branch(F(ex, c, 'open'), f'{tag}:open'):
                raise_('OSError', 'handle is closed')
        r = ex.fresh('poll', smt.Bool)
        # readable iff a message is there or the peer is gone (EOF counts as readable); a message that will
        # arrive later may not be there yet
        ex.assume(z3.Implies(r, z3.Or(ipos < z3.Length(inq), F(ex, c, 'peer_closed'))))
        ex.assume(z3.Implies(z3.And(F(ex, c, 'peer_closed'), ipos >= z3.Length(inq)), r))
        return VBool(r)

    def send(ex, a, k):
        c, m = a[0], a[1]
        tag = chan_tag(ex, c)
        if name == 'Conn':
            if not ex.branch(F(ex, c, 'open'), f'{tag}:open'):
                raise_('OSError', 'handle is closed')
        outs = ex.ghost.get('send_raises', {}).get(tag, [])
        if outs:
            d = ex.choose(1 + len(outs), f'{tag}:send-outcome')
            if d > 0:
                ex.note(f'{tag}:send raises {outs[d - 1]}')
                raise_(outs[d - 1])
        t = lower(m, ex)
        new = z3.Concat(F(ex, c, 'out'), z3.Unit(t))
        S(ex, c, 'out', new)
        hook = ex.ghost.get('on_send', {}).get(tag)
        if hook:
            hook(ex, c, m)
        return NONE

    def close(ex, a, k):
        c = a[0]
        if name == 'Conn':
            S(ex, c, 'open', z3.BoolVal(False))
        return NONE

    def fileno(ex, a, k):
        return VInt(ex.fresh('fd', smt.Int))

    methods = {'recv': recv, 'get': get, 'get_nowait': get_nowait, 'poll': poll, 'send': send, 'put': send,
               'close': close, 'fileno': fileno}
    if name == 'Queue':
        methods.pop('recv')
        methods.pop('poll')
        methods.pop('send')
        methods.pop('fileno')
    return AbsClass(name, fields={'inq': SeqVal, 'ipos': smt.Int, 'out': SeqVal, 'open': smt.Bool, 'peer_closed': smt.Bool},
                    methods=methods, text=TEXT['chan'])


_tags = {}


def chan_tag(ex, c):
    """human-readable tag of a channel endpoint (keys are interned string constants)"""
    k = smt.simp(c.key)
    try:
        if Val.is_v_str(k) is not None and k.decl().name() == 'v_str':
            return smt.str_of_code(k.arg(0).as_long())
    except Exception:
        pass
    return str(k)


def new_chan(ex, cls, tag, inq=None):
    key = Val.v_str(z3.IntVal(smt.str_code(tag)))
    c = VAbs(cls, key)
    ac = ex.abs_classes[cls]
    ac.set(ex, c, 'inq', inq if inq is not None else ex.fresh(f'{tag}.inq', SeqVal))
    ac.set(ex, c, 'ipos', z3.IntVal(0))
    ac.set(ex, c, 'out', z3.Empty(SeqVal))
    ac.set(ex, c, 'open', z3.BoolVal(True))
    ac.set(ex, c, 'peer_closed', ex.fresh(f'{tag}.peer_closed', smt.Bool))
    return c


def make_pipe(ex, tag, kind):
    """a real utils.Pipe / utils.LocalPipe object graph whose OS-level ends are modelled channels.
    kind 'Pipe': parent_end/child_end are real PipeEndpoint objects over two Conn endpoints;
    kind 'LocalPipe': both ends are the same Queue."""
    repo = ex.repo
    if kind == 'LocalPipe':
        q = new_chan(ex, 'Queue', tag + '.q')
        return ex.alloc(HObj(repo.cls('pyworkers.utils.LocalPipe'), {'_q': q})), {'q': q}
    pe = repo.cls('pyworkers.utils.PipeEndpoint')
    c0 = new_chan(ex, 'Conn', tag + '.parent')
    c1 = new_chan(ex, 'Conn', tag + '.child')
    e0 = ex.alloc(HObj(pe, {'_pipe': c0}))
    e1 = ex.alloc(HObj(pe, {'_pipe': c1}))
    p = ex.alloc(HObj(repo.cls('pyworkers.utils.Pipe'), {'_endpoints': VTuple([e0, e1])}))
    return p, {'parent': c0, 'child': c1, 'parent_ep': e0, 'child_ep': e1}


# ------------------------------------------------------------------------------ opaque dict values (kwargs)
def odict_class():
    def update(ex, a, k):
        d, other = a[0], a[1]
        ac = ex.abs_classes['ODict']
        ac.set(ex, d, 'content', dict_update_f(ac.get(ex, d, 'content'), odict_content(ex, other)))
        add_shares(ex, d, spread_sources(ex, other))
        return NONE

    def copy_(ex, a, k):
        d = new_odict(ex, ex.abs_classes['ODict'].get(ex, a[0], 'content'))
        add_shares(ex, d, [a[0]])          # shallow copy: the values are the same objects
        return d
    return AbsClass('ODict', fields={'content': Val}, methods={'update': update, 'copy': copy_},
                    text='a dict whose content is an opaque mathematical value; update(e) is the function dict_update')


def _okey(d):
    return smt.simp(d.key).sexpr()


def shares_of(ex, d):
    """the dicts whose inner (value) objects `d` may alias: a shallow copy / merge shares its values with its sources, a
    deep copy shares nothing.  Tracked per path in python (identities of abstract dicts are literal keys)."""
    return ex.ghost.setdefault('__odict_shares__', {}).get(_okey(d), [])


def add_shares(ex, d, sources):
    reg = ex.ghost.setdefault('__odict_shares__', {})
    cur = list(reg.get(_okey(d), []))
    for s in sources:
        for x in [s] + list(shares_of(ex, s)):
            if not any(_okey(x) == _okey(y) for y in cur):
                cur.append(x)
    reg[_okey(d)] = cur


def spread_sources(ex, v):
    """abstract dicts that a dict display {**a, **b} / an abstract dict passes on by reference"""
    if isinstance(v, VAbs) and v.cls == 'ODict':
        return [v]
    if isinstance(v, VRef) and isinstance(ex.heap[v.addr], HDict):
        out = []
        for k, x in ex.heap[v.addr].items.items():
            if isinstance(k, tuple):
                out.extend(spread_sources(ex, x))
        return out
    return []


def odict_content(ex, v):
    if isinstance(v, VAbs) and v.cls == 'ODict':
        return ex.abs_classes['ODict'].get(ex, v, 'content')
    if isinstance(v, VRef) and isinstance(ex.heap[v.addr], HDict) and ex.heap[v.addr].items \
            and all(isinstance(k, tuple) for k in ex.heap[v.addr].items):
        # {**a, **b, ...}: left-to-right merge
        parts = [odict_content(ex, x) for x in ex.heap[v.addr].items.values()]
        cur = parts[0]
        for nxt in parts[1:]:
            cur = dict_update_f(cur, nxt)
        if len(parts) == 1:
            cur = dict_update_f(EMPTY_DICT, cur)
        return cur
    if isinstance(v, VSym):
        return v.t
    if isinstance(v, VRef) and isinstance(ex.heap[v.addr], HDict) and not ex.heap[v.addr].items:
        return EMPTY_DICT
    raise Undecided(f'content of dict-like {v!r}')


def new_odict(ex, content):
    n = ex.fresh_ctr.get('#odict', 0)
    ex.fresh_ctr['#odict'] = n + 1
    k = Val.v_str(z3.IntVal(smt.str_code(f'<odict#{n}>')))       # allocation: a key distinct from every other dict
    d = VAbs('ODict', k)
    ex.abs_classes['ODict'].set(ex, d, 'content', content)
    return d


def deepcopy_model(ex, a, k):
    v = a[0]
    if isinstance(v, VAbs) and v.cls == 'ODict':
        return new_odict(ex, ex.abs_classes['ODict'].get(ex, v, 'content'))
    return extlib.copy_deepcopy(ex, a, k)


# ------------------------------------------------------------------------------ opaque user calls
def opaque_call(ex, f, args, kwargs, node):
    """target(*args, **kwargs): value apply(target, argseq, kwcontent); outcomes per option 'target_raises'"""
    I = ex.interp
    pos = []
    star = None
    for x in args:
        if isinstance(x, VStar):
            star = x.v
        else:
            pos.append(x)
    seq = I.as_seq(VTuple(pos)) if pos else z3.Empty(SeqVal)
    if star is not None:
        seq = z3.Concat(seq, I.as_seq(star)) if pos else I.as_seq(star)
    kw = EMPTY_DICT
    items = {kk: vv for kk, vv in kwargs.items()}
    if len(items) == 1 and isinstance(next(iter(items)), tuple):
        kw = odict_content(ex, next(iter(items.values())))
    elif items:
        # named keyword arguments: an interned record
        kw = Val.v_tup(smt.mk_list([Val.v_tup(smt.mk_list([Val.v_str(z3.IntVal(smt.str_code(str(kk)))), lower(vv, ex)]))
                                    for kk, vv in sorted(items.items(), key=lambda p: str(p[0]))]))
    # T7 the target may mutate what it is handed: every abstract dict whose value objects are reachable from the keyword
    # arguments (the dict itself is a fresh **kwargs dict, but a shallow copy/merge hands the callee the ORIGINAL value objects)
    # may have a different deep content afterwards
    if ex.ghost.get('target_mutates_arguments', True):
        victims = []
        for vv in items.values():
            for src in spread_sources(ex, vv):
                for x in list(shares_of(ex, src)) + ([src] if isinstance(vv, VRef) else []):
                    if not any(_okey(x) == _okey(y) for y in victims):
                        victims.append(x)
        for x in victims:
            ex.abs_classes['ODict'].set(ex, x, 'content', ex.fresh('mutated_by_target', Val))
            ex.note('target may mutate ' + chan_tag(ex, x))
        if star is not None and isinstance(star, VRef):
            for addr in getattr(ex.heap[star.addr], 'shares', []):
                ex.heap[addr].seq = ex.fresh('list_mutated_by_target', SeqVal)
    ft = lower(f, ex)
    calls = ex.ghost.get('calls')
    rec = Val.v_tup(smt.mk_list([ft, smt.mk_seq(seq), kw]))
    ex.assume(smt.seq_of(smt.mk_seq(seq)) == seq)
    if calls is not None:
        ex.ghost['calls'] = z3.Concat(calls, z3.Unit(rec))
    outs = ex.ghost.get('target_raises', [])
    ex.note('call:target')
    if outs:
        d = ex.choose(1 + len(outs), 'target:outcome')
        if d > 0:
            ex.note(f'target raises {outs[d - 1]}')
            e = VExc(outs[d - 1], [], ident=None)
            ex.ghost['target_exc'] = e
            raise PyRaise(e)
    return VSym(apply_f(ft, seq, kw))


# ------------------------------------------------------------------------------ message-level sockets
def msg_recv_hook(interp, fi, args, kwargs, node, self_cls):
    """caller-facing contract of recv_msg (C10.L2/L3 lifted to whole messages): returns the next message of the
    stream, raises ConnectionClosedError when the stream has ended (or, if enabled, on a socket error)"""
    ex = interp.ex
    s = args[0]
    if not (isinstance(s, VAbs) and s.cls == 'Conn'):
        raise Undecided(f'recv_msg on {s!r}')
    ac = ex.abs_classes['Conn']
    inq, ipos = ac.get(ex, s, 'inq'), ac.get(ex, s, 'ipos')
    tag = chan_tag(ex, s)
    if ex.branch(ipos < z3.Length(inq), f'{tag}:avail'):
        outs = ex.ghost.get('recv_raises', {}).get(tag, [])
        if outs:
            d = ex.choose(1 + len(outs), f'{tag}:recv-outcome')
            if d > 0:
                ac.set(ex, s, 'ipos', ipos + 1)
                ex.note(f'{tag}:recv_msg raises {outs[d - 1]}')
                raise_(outs[d - 1])
        x = inq[ipos]
        ac.set(ex, s, 'ipos', ipos + 1)
        inv = ex.ghost.get('chan_elem_inv', {}).get(tag)
        if inv is not None:
            ex.assume(inv(ex, x, ipos))
        return VSym(x)
    if ex.branch(ac.get(ex, s, 'peer_closed'), f'{tag}:peer-closed'):
        raise_('ConnectionClosedError')
    _blocked(ex, f'recv_msg on {tag}')


def msg_send_hook(interp, fi, args, kwargs, node, self_cls):
    ex = interp.ex
    s, m = args[0], args[1]
    if not (isinstance(s, VAbs) and s.cls == 'Conn'):
        raise Undecided(f'send_msg on {s!r}')
    ac = ex.abs_classes['Conn']
    tag = chan_tag(ex, s)
    outs = ex.ghost.get('send_raises', {}).get(tag, [])
    if outs:
        d = ex.choose(1 + len(outs), f'{tag}:send-outcome')
        if d > 0:
            ex.note(f'{tag}:send_msg raises {outs[d - 1]}')
            raise_(outs[d - 1])
    ac.set(ex, s, 'out', z3.Concat(ac.get(ex, s, 'out'), z3.Unit(lower(m, ex))))
    hook = ex.ghost.get('on_send', {}).get(tag)
    if hook:
        hook(ex, s, m)
    return NONE


MSG_HOOKS = {'pyworkers.remote.recv_msg': msg_recv_hook, 'pyworkers.remote.send_msg': msg_send_hook}
TEXT['msgsock'] = ('recv_msg/send_msg at message level (callers of C10): recv_msg returns the next whole message or raises '
                   'ConnectionClosedError at end of stream; send_msg appends one message or raises ConnectionClosedError; '
                   'this abstraction is justified by C10.L1-L5 and T2')


def event_class():
    def set_(ex, a, k):
        ex.abs_classes['Event'].set(ex, a[0], 'isset', z3.BoolVal(True))
        return NONE

    def wait(ex, a, k):
        ac = ex.abs_classes['Event']
        timeout = a[1] if len(a) > 1 else k.get('timeout', NONE)
        if timeout is NONE:
            hook = ex.ghost.get('__event_wait__')
            if hook is not None:
                hook(ex, a[0])
            elif ex.ghost.get('on_block') == 'oblige':
                ex.oblige('block', ac.get(ex, a[0], 'isset'), 'Event.wait() without timeout returns only if the event is (going to be) set',
                          ex.ghost.get('__cur_node__'), key=('event-wait',))
        return VBool(ac.get(ex, a[0], 'isset'))

    def is_set(ex, a, k):
        return VBool(ex.abs_classes['Event'].get(ex, a[0], 'isset'))
    return AbsClass('Event', fields={'isset': smt.Bool}, methods={'set': set_, 'wait': wait, 'is_set': is_set},
                    text='threading.Event: wait() returns once set() has been called; wait(t) returns after at most t')


def new_event(ex, a=None, k=None):
    n = ex.fresh_ctr.get('#event', 0)
    ex.fresh_ctr['#event'] = n + 1
    e = VAbs('Event', Val.v_str(z3.IntVal(smt.str_code(f'<event#{n}>'))))
    ex.abs_classes['Event'].set(ex, e, 'isset', z3.BoolVal(False))
    return e


def new_thread(ex, a=None, k=None):
    """threading.Thread(target=..., ...): a not-yet-started thread object (T4)"""
    n = ex.fresh_ctr.get('#thread', 0)
    ex.fresh_ctr['#thread'] = n + 1
    t = VAbs('Proc', Val.v_str(z3.IntVal(smt.str_code(f'<thread#{n}>'))))
    if 'Proc' in ex.abs_classes:
        ex.abs_classes['Proc'].set(ex, t, 'alive', ex.fresh(f'thread{n}_alive', smt.Bool))
    ex.ghost.setdefault('__threads__', []).append((t, (k or {}).get('target')))
    return t


def install(ex):
    extlib.install_common(ex)
    ex.abs_classes['Event'] = event_class()
    ex.ext_models['threading.Event'] = new_event
    ex.ext_models['threading.Thread'] = new_thread
    ex.abs_classes['Conn'] = chan_class('Conn')
    ex.abs_classes['Queue'] = chan_class('Queue')
    ex.abs_classes['ODict'] = odict_class()
    ex.ext_models['copy.deepcopy'] = deepcopy_model

    def opaque(name):
        return lambda ex_, a, k: VSym(ex_.fresh(name, Val))
    ex.ext_models['platform.node'] = opaque('hostname')
    ex.ext_models['os.getpid'] = opaque('pid')
    ex.ext_models['threading.get_native_id'] = opaque('tid')
    ex.ext_models['threading.get_ident'] = opaque('ident')

    def conn_wait(ex_, a, k):
        """multiprocessing.connection.wait(list): returns the ready sub-list; modelled per lemma through a hook"""
        h = ex_.ghost.get('__conn_wait__')
        if h is None:
            return a[0]
        return h(ex_, a, k)
    ex.ext_models['multiprocessing.connection.wait'] = conn_wait
    ex.ext_models['time.sleep'] = lambda ex_, a, k: NONE
    # Linux sandbox: is_windows() is the constant False; Windows-only branches are reported as not verified
    ex.call_hooks['pyworkers.utils.is_windows'] = lambda interp, fi, a, k, node, sc: VBool(False)
    ex.notes_abstracted.add('is_windows(): constant False (Windows-only branches not verified)')
    ex.call_hooks['pyworkers.utils.setproctitle'] = lambda interp, fi, a, k, node, sc: NONE
    ex.call_hooks['pyworkers.utils.setthreadtitle'] = lambda interp, fi, a, k, node, sc: NONE
